#!/usr/bin/env python3
"""seed_confirm.py <worktree> <seed-id> <property> <crate> [demo-kind]: independently confirm a seeded change in its scratch worktree and
archive it under /verif/seeded/<seed-id>/ (patch.diff, demo/, meta.json)."""
import json, os, re, shutil, subprocess, sys, time
wt, sid, prop, crate = sys.argv[1:5]
kind = sys.argv[5] if len(sys.argv) > 5 else 'rust'
env = dict(os.environ, CARGO_TARGET_DIR=os.path.join(wt, 'target'), CARGO_NET_OFFLINE='true')
BASE = {'argmax_f32', 'scanner_max'}

def sh(cmd, **kw):
    return subprocess.run(cmd, cwd=wt, env=env, capture_output=True, text=True, shell=isinstance(cmd, str), **kw)

demo_src = os.path.join(wt, '_seed', 'demo')
demos = [f for f in os.listdir(demo_src) if f.endswith(('.rs', '.py'))]
# clean library state, then apply the patch
sh('git checkout -- .')
for d in demos:
    for root in (os.path.join(wt, crate, 'tests'), os.path.join(wt, 'lightmotif-py/lightmotif/tests')):
        p = os.path.join(root, d)
        if os.path.exists(p) and d.startswith(('test_seed', 'seed_demo')):
            os.remove(p)
r = sh(['git', 'apply', '_seed/patch.diff'])
assert r.returncode == 0, r.stderr
# (a) existing tests with the change (demo absent)
r = sh('cargo test --workspace --offline --no-fail-fast 2>&1')
failed = set(re.findall(r'^test (\S+) \.\.\. FAILED', r.stdout, re.M))
unexpected = {t for t in failed if t.rsplit('::', 1)[-1] not in BASE}
compiled = 'error: could not compile' not in r.stdout
print('existing tests with change: compiled', compiled, 'failed', sorted(failed), 'unexpected', sorted(unexpected))
pyok = None
if kind == 'python' or True:
    rp = sh('cargo test -p lightmotif-py --offline 2>&1')
    pyok = bool(re.search(r'^OK', rp.stdout, re.M)) and 'FAILED' not in rp.stdout
    print('python tests with change ok:', pyok)
# place the demo
if kind == 'rust':
    for d in demos:
        shutil.copy(os.path.join(demo_src, d), os.path.join(wt, crate, 'tests', d))
    cmd = f'cargo test -p {crate} --offline --test seed_demo 2>&1'
else:
    # python demo: a unittest module registered in lightmotif-py/lightmotif/tests/__init__.py; the embedded-CPython harness runs
    # unittest with exit=False, so the verdict is read from the unittest summary line, not from cargo's exit status
    tdir = os.path.join(wt, 'lightmotif-py/lightmotif/tests')
    for d in demos:
        if d.startswith('test_'):
            shutil.copy(os.path.join(demo_src, d), os.path.join(tdir, d))
    ini = os.path.join(tdir, '__init__.py')
    src = open(ini).read()
    if 'test_seed_demo' not in src:
        src = src.replace("    test_load\n", "    test_load,\n    test_seed_demo\n").replace("    return suite", "    suite.addTests(loader.loadTestsFromModule(test_seed_demo))\n    return suite")
        open(ini, 'w').write(src)
    cmd = 'cargo test -p lightmotif-py --offline 2>&1'
r1 = sh(cmd)
if kind == 'rust':
    with_change_fails = r1.returncode != 0 and 'could not compile' not in r1.stdout
else:
    with_change_fails = bool(re.search(r'^FAILED \((failures|errors)=', r1.stdout, re.M)) and 'test_seed_demo' in r1.stdout
sh(['git', 'apply', '-R', '_seed/patch.diff'])
r2 = sh(cmd)
without_passes = r2.returncode == 0 if kind == 'rust' else (bool(re.search(r'^OK', r2.stdout, re.M)) and not re.search(r'^FAILED', r2.stdout, re.M))
sh(['git', 'apply', '_seed/patch.diff'])
if kind != 'rust':
    sh('git checkout -- lightmotif-py/lightmotif/tests/__init__.py')
    for d in demos:
        if d.startswith('test_') and os.path.exists(os.path.join(tdir, d)):
            os.remove(os.path.join(tdir, d))
print('demo with change fails:', with_change_fails, '| without change passes:', without_passes)
ok = compiled and not unexpected and with_change_fails and without_passes and pyok
if ok:
    dst = os.path.join('/verif/seeded', sid)
    shutil.rmtree(dst, ignore_errors=True)
    os.makedirs(os.path.join(dst, 'demo'))
    shutil.copy(os.path.join(wt, '_seed', 'patch.diff'), dst)
    for f in os.listdir(demo_src):
        if os.path.isdir(os.path.join(demo_src, f)):
            shutil.copytree(os.path.join(demo_src, f), os.path.join(dst, 'demo', f))
        else:
            shutil.copy(os.path.join(demo_src, f), os.path.join(dst, 'demo'))
    notes = open(os.path.join(wt, '_seed', 'NOTES.md')).read() if os.path.exists(os.path.join(wt, '_seed', 'NOTES.md')) else ''
    open(os.path.join(dst, 'NOTES.md'), 'w').write(notes)
    fail_lines = [l for l in r1.stdout.splitlines() if 'panicked' in l or 'FAILED' in l or 'assert' in l or 'AssertionError' in l or l.startswith('FAIL:')][:8]
    meta = {'seed_id': sid, 'property': prop, 'base_commit': subprocess.check_output(['git', '-C', wt, 'rev-parse', 'HEAD'], text=True).strip(),
            'files_changed': re.findall(r'^diff --git a/(\S+)', open(os.path.join(dst, 'patch.diff')).read(), re.M),
            'confirmed': {'compiles': compiled, 'existing_tests_pass_with_change': not unexpected, 'baseline_failures_ignored': sorted(failed),
                          'python_tests_pass_with_change': pyok, 'demo_fails_with_change': with_change_fails, 'demo_passes_without_change': without_passes,
                          'commands': ['cargo test --workspace --offline --no-fail-fast', 'cargo test -p lightmotif-py --offline', cmd, 'git apply -R _seed/patch.diff; ' + cmd],
                          'confirmed_in': wt, 'at': time.strftime('%Y-%m-%dT%H:%M:%SZ', time.gmtime())},
            'demo_failure_excerpt': fail_lines, 'demo_placement': f'{crate}/tests/seed_demo.rs' if kind == 'rust' else 'lightmotif-py/lightmotif/tests/test_seed_demo.py (registered in tests/__init__.py)',
            'needs_to_manifest': '(see NOTES.md)', 'detected_by': None}
    json.dump(meta, open(os.path.join(dst, 'meta.json'), 'w'), indent=1)
    print('archived to', dst)
else:
    print('NOT CONFIRMED')
    print(r1.stdout[-1500:])
