#!/usr/bin/env python3
"""baseline_fns.py: (re)generate /verif/baseline_fns.json, the reference table of workspace function paths of the tree the rules were written
against (union over the default, nodefault and aarch64 fact bases).  Run ONLY on the reference tree (the pinned commit + the fix: commits);
lm/inline.py inlines calls to workspace functions that are not in this table."""
import json, os, sys
sys.path.insert(0, os.path.dirname(os.path.dirname(os.path.abspath(__file__))))
os.environ['LM_NO_INLINE'] = '1'
from lm import extract, db as D
fns = set()
for cfg in ('default', 'nodefault', 'aarch64'):
    d = D.DB(extract.extract(cfg)[0])
    for f in d.fns.values():
        if f.crate in ('lightmotif', 'lightmotif_io', 'lightmotif_py', 'lightmotif_tfmpvalue') and not f.promoted_of:
            fns.add(f.path)
head = os.popen('git -C /repo rev-parse --short HEAD').read().strip()
json.dump({'reference_commit': head, 'functions': sorted(fns)}, open(os.path.join(extract.VERIF, 'baseline_fns.json'), 'w'), indent=0)
print(len(fns), 'functions at', head)
