"""C05 — encoding accepts exactly the alphabet and is identical on every backend."""
from lm.db import short
from lm import tables, expr as X
from . import common

LEVEL_NOTE = ('decides: exhaustive alphabet tables (256 bytes x alphabets), encoder structure (error must-pass-through, '
              'first-offender rescan, tail hand-off, select-chain lock-step), dispatcher arms. Trusted: rustc MIR, intrinsic semantics table.')


def r51_tables(db, ctx):
    ctx.rule('R5.1', 'alphabet tables tabulated exhaustively: from_ascii over 256 bytes is the inverse of as_ascii on '
                     'upper-case letters and Err(InvalidSymbol(byte)) elsewhere; symbols()/as_str()/as_index agree; default symbol is last')
    alphs = common.alphabets(db)
    ctx.floor('R5.1', len(alphs), 2, 'impl Alphabet')
    for a in alphs:
        nm = a['name']
        need = ['symbol_ty', 'K', 'symbols_fn', 'as_str_fn', 'as_index', 'as_ascii', 'from_ascii', 'adt']
        miss = [k for k in need if not a.get(k)]
        if miss:
            ctx.fail('R5.1', nm, 'alphabet-pieces', f'reason=anchor-missing: cannot resolve {miss} for alphabet {nm}')
            continue
        K = a['K']
        var, dflt = common.variants(a['adt'])
        try:
            # as_index: must be `*self as usize` i.e. cast(discr(self))
            ai = common.return_expr_single_path(a['as_index'])
            e = ai
            ok = e is not None and e[0] == 'cast' and common.is_self_discr(e[1])
            if ok:
                ctx.ok('R5.1', a['as_index'], 'as_index = discriminant', ['enum discriminants ' + str(var)])
            else:
                ctx.fail('R5.1', a['as_index'], 'as_index body', f'as_index is not the discriminant of self: {X.show(ai) if ai else None}')
                continue
            index_of = dict(var)
            # as_ascii table
            t = tables.decision_table(a['as_ascii'])
            by_discr = tables.fold_over_domain(t, common.is_self_discr, sorted(var.values()))
            ascii_of = {}
            for vname, d in var.items():
                r = by_discr.get(d)
                if r is None or r[0] != 'k' or not isinstance(r[1], int):
                    ctx.fail('R5.1', a['as_ascii'], f'as_ascii({vname})', f'no constant byte returned: {r}')
                else:
                    ascii_of[vname] = r[1]
            # (b) upper-case letters, distinct
            bad = [v for v, b in ascii_of.items() if not (65 <= b <= 90)]
            if bad:
                ctx.fail('R5.1', a['as_ascii'], 'as_ascii range', f'symbols {bad} are not upper-case ASCII letters')
            if len(set(ascii_of.values())) != len(ascii_of):
                ctx.fail('R5.1', a['as_ascii'], 'as_ascii distinct', 'two symbols share a letter')
            else:
                ctx.ok('R5.1', a['as_ascii'], f'{len(ascii_of)} letters upper-case and pairwise distinct', [str(ascii_of)])
            # (a) from_ascii over all 256 bytes
            t = tables.decision_table(a['from_ascii'])
            tab = tables.fold_over_domain(t, lambda e: common.is_param(e, 1), range(256))
            inv = {b: v for v, b in ascii_of.items()}
            nbad = 0
            for b in range(256):
                r = tab[b]
                ev = tables.enum_variant(r) if r else None
                want = inv.get(b)
                if want is not None:
                    good = ev and ev[1] == 'Ok' and tables.enum_variant(ev[2][0]) and tables.enum_variant(ev[2][0])[1] == want \
                        and tables.enum_variant(ev[2][0])[0] == short(a['symbol_ty'])
                    if not good:
                        nbad += 1
                        ctx.fail('R5.1', a['from_ascii'], f'from_ascii({b}={chr(b)!r})', f'expected Ok({want}), table gives {X.show(r) if r else None}')
                else:
                    good = False
                    if ev and ev[1] == 'Err':
                        inner = tables.enum_variant(ev[2][0])
                        if inner and inner[0].endswith('InvalidSymbol'):
                            c = inner[2][0]
                            good = c[0] == 'cast' and c[2] == 'char' and common.is_param(c[1], 1)
                    if not good:
                        nbad += 1
                        if nbad <= 6:
                            ctx.fail('R5.1', a['from_ascii'], f'from_ascii({b}={chr(b)!r})',
                                     f'byte is not a symbol letter: expected Err(InvalidSymbol(byte as char)), table gives {X.show(r) if r else None}')
            if nbad == 0:
                ctx.ok('R5.1', a['from_ascii'], 'from_ascii: 256-entry table is the exact inverse of as_ascii',
                       [f'{len(inv)} accepted bytes', '256 cells'])
            # (c) symbols(), as_str(), K
            se = common.return_expr_single_path(a['symbols_fn'])
            arr = None
            for x in X.walk(se):
                if x[0] == 'promoted':
                    arr = tables.promoted_array(db, a['symbols_fn'].path, x[2])
            if arr is None:
                ctx.fail('R5.1', a['symbols_fn'], 'symbols()', f'cannot read the constant array: {X.show(se)}')
                continue
            names = []
            for el in arr:
                ev = tables.enum_variant(el)
                names.append(ev[1] if ev else None)
            s = common.str_const(common.return_expr_single_path(a['as_str_fn']))
            okc = True
            if len(names) != K or s is None or len(s) != K or len(var) != K:
                okc = False
                ctx.fail('R5.1', a['symbols_fn'], 'table lengths', f'K={K}, |symbols()|={len(names)}, |as_str()|={len(s) if s else None}, |variants|={len(var)}')
            else:
                for k, vn in enumerate(names):
                    if index_of.get(vn) != k:
                        okc = False
                        ctx.fail('R5.1', a['symbols_fn'], f'symbols()[{k}]', f'symbols()[{k}] = {vn} whose as_index is {index_of.get(vn)} (matrix columns would be permuted)')
                    if ascii_of.get(vn) != ord(s[k]):
                        okc = False
                        ctx.fail('R5.1', a['as_str_fn'], f'as_str()[{k}]', f"as_str()[{k}] = {s[k]!r} but symbols()[{k}] = {vn} has letter {chr(ascii_of.get(vn, 63))!r}")
            if okc:
                ctx.ok('R5.1', a['symbols_fn'], 'symbols()[k].as_index()==k, as_str()[k]==as_ascii(symbols()[k]), len==K', [f'K={K}', s])
            # (d) default symbol last
            if dflt is None or index_of.get(dflt) != K - 1:
                ctx.fail('R5.1', nm, 'default symbol', f'#[default] variant {dflt} has index {index_of.get(dflt)}, expected K-1={K - 1}')
            else:
                ctx.ok('R5.1', nm, f'default symbol {dflt} is the last column (K-1={K - 1})', ['#[default] attribute', 'discriminant'])
        except tables.NotTabulable as e:
            ctx.fail('R5.1', nm, 'tabulation', f'reason=unrecognised-shape: {e}')
    # (e) from_char
    fc = [f for f in db.by_short.get('lightmotif::abc::Symbol::from_char', [])]
    ctx.floor('R5.1e', len(fc), 1, 'Symbol::from_char default body')
    for f in fc:
        try:
            t = tables.decision_table(f, allow_calls=('is_ascii', 'from_ascii'))
        except tables.NotTabulable as e:
            ctx.fail('R5.1e', f, 'from_char', f'reason=unrecognised-shape: {e}')
            continue
        good = True
        why = []
        for cons, r in t:
            # one test: is_ascii(param)
            if len(cons) != 1 or cons[0][0][0] != 'call' or not cons[0][0][1].endswith('is_ascii'):
                good = False
                why.append(f'unexpected guard {cons}')
                continue
            is_true = (cons[0][1] == ('notin', [0])) or (cons[0][1][0] == 'eq' and cons[0][1][1] != 0)
            if is_true:
                if not (r[0] == 'call' and r[1].endswith('from_ascii') and r[2][0][0] == 'cast' and common.is_param(r[2][0][1], 1)):
                    good = False
                    why.append(f'ascii side returns {X.show(r)}')
            else:
                ev = tables.enum_variant(r)
                if not (ev and ev[1] == 'Err'):
                    good = False
                    why.append(f'non-ascii side returns {X.show(r)}')
        if good and len(t) == 2:
            ctx.ok('R5.1e', f, 'from_char rejects non-ASCII before narrowing to u8', ['guard is_ascii(c)'])
        else:
            ctx.fail('R5.1e', f, 'from_char', '; '.join(why) or f'{len(t)} paths')


def run(db, ctx):
    r51_tables(db, ctx)
