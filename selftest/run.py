#!/usr/bin/env python3
"""Self-test of the checkers (not a registered check): apply single-edit mutants / benign edits to a scratch
copy of /repo under /var/tmp and verify that the named check fires (names the rule) or stays silent.

usage: selftest/run.py [-k substring] [--benign] [--keep]
"""
import os, subprocess, sys, shutil, json, re, argparse, time
HERE = os.path.dirname(os.path.abspath(__file__))
VERIF = os.path.dirname(HERE)
sys.path.insert(0, HERE)
from mutants import MUTANTS, BENIGN

SCRATCH = '/var/tmp/lm-selftest'


def prepare():
    os.makedirs(SCRATCH, exist_ok=True)
    subprocess.check_call(['rsync', '-a', '--delete', '--exclude', 'target', '--exclude', '.git', '/repo/', SCRATCH + '/'])


def apply(edit):
    path = os.path.join(SCRATCH, edit['file'])
    s = open(path).read()
    old, new = edit['old'], edit['new']
    n = s.count(old)
    occ = edit.get('occ')
    if n == 0:
        raise SystemExit(f"mutant {edit['id']}: pattern not found in {edit['file']}: {old!r}")
    if occ is None and n != 1:
        raise SystemExit(f"mutant {edit['id']}: pattern occurs {n} times in {edit['file']} (give occ): {old!r}")
    if occ is None:
        s = s.replace(old, new)
    elif occ == 'all':
        s = s.replace(old, new)
    else:
        parts = s.split(old)
        s = old.join(parts[:occ + 1]) + new + old.join(parts[occ + 1:])
    open(path, 'w').write(s)


def run_check(prop, tier='quick'):
    env = dict(os.environ, LM_REPO=SCRATCH, LM_NO_EVIDENCE='1', LM_NO_SENSITIVITY='1')
    r = subprocess.run([os.path.join(VERIF, 'check'), prop, '--tier', tier], env=env, capture_output=True, text=True, cwd=VERIF)
    return r.returncode, r.stdout + r.stderr


def main():
    # one battery at a time: concurrent runs would share the scratch copy and overwrite each other's mutated files
    import fcntl
    lock = open('/var/tmp/lm-selftest.lock', 'w')
    fcntl.flock(lock, fcntl.LOCK_EX)
    ap = argparse.ArgumentParser()
    ap.add_argument('-k', default='')
    ap.add_argument('--benign', action='store_true')
    a = ap.parse_args()
    items = BENIGN if a.benign else MUTANTS
    results = []
    for mt in items:
        if a.k and a.k not in mt['id'] and a.k not in mt['prop']:
            continue
        prepare()
        if mt.get('patch'):
            subprocess.check_call(['patch', '-p1', '-s', '-i', os.path.join(VERIF, mt['patch'])], cwd=SCRATCH)
        for e in mt.get('edits', [mt] if 'file' in mt else []):
            e = dict(e)
            e.setdefault('id', mt['id'])
            apply(e)
        t0 = time.time()
        props = mt['prop'] if isinstance(mt['prop'], list) else [mt['prop']]
        for prop in props:
            rc, out = run_check(prop, mt.get('tier', 'quick'))
            fired = rc == 1 and 'VIOLATION' in out
            broken = 'reason=extract-failed' in out or 'reason=checker-crashed' in out
            if a.benign:
                ok = rc == 0
                status = 'silent(ok)' if ok else ('BROKEN(does not compile?)' if broken else 'FALSE-ALARM')
            else:
                named = mt.get('rule') is None or re.search(r'rule=' + re.escape(mt['rule']) + r'\b', out) is not None
                ok = fired and named and not broken
                status = 'caught' if ok else ('BROKEN(does not compile?)' if broken else ('fired-but-wrong-rule' if fired else 'MISSED'))
            print(f"{mt['id']:42s} {prop} {status:22s} {time.time() - t0:5.1f}s  {mt.get('rule', '')}")
            if not ok:
                print('\n'.join('      ' + l for l in out.strip().splitlines()[-12:]))
            results.append((mt['id'], prop, status))
    shutil.rmtree(SCRATCH, ignore_errors=True)
    bad = [r for r in results if r[2] not in ('caught', 'silent(ok)')]
    print(f'{len(results) - len(bad)}/{len(results)} as expected')
    sys.exit(1 if bad else 0)


main()
