#!/usr/bin/env python3
"""seed_meta.py [seed-id ...]: (re)run every claimed check against each archived seeded change (applied to /repo, reverted straight after)
and record in its meta.json which checks/rules detect it; also fills `needs_to_manifest` from the hand-written table below."""
import json, os, re, subprocess, sys
VERIF = os.path.dirname(os.path.dirname(os.path.abspath(__file__)))
NEEDS = {
 'seed-C02-5': 'a scoring matrix whose wildcard (N) column is finite and above the row minimum (background with unknown = true, or ScoringMatrix::new with N = 0.0) and a qualifying window that contains N: to_discrete fills only the K - 1 known columns, the N cell stays 0 and the 8-bit score under-estimates',
 'seed-C03-5': 'same change as seed-C02-5, reached through Scanner::max: the best window contains N under a finite N column',
 'seed-C04-5': 'count_symbol (singular) on a StripedSequence after configure / configure_wrap(m >= 1): the loop walks the look-ahead rows too, whose cells map back to indices < len, so symbols of the first m rows are counted twice',
 'seed-C07-5': 'SSE2 argmax on a matrix wider than 16 columns (32-column scores on the SSE2 arm) whose maximum lies in columns 16..31: the final scalar selection runs over 0..16',
 'seed-C08-5': 'AVX2 max_u8 seeded from row 0 with a 1..rows loop that loads before advancing (fourth independent appearance of seed C02-3): the last row of a block is never read, a block whose only hit is on its last row is skipped',
 'seed-C10-5': 'a CountMatrix of width exactly 1 with count[A] != count[T] or count[C] != count[G]: reverse_complement returns self.clone() when rows < 2',
 'seed-C16-5': 'the same striped sequences configured twice with a growing motif width (sampling widths 5, 9, 14 on one data set): configure_wrap resizes to rows + m instead of rows + m - wrap, so data.rows() - wrap over-counts the sequence rows',
 'seed-C17-5': 'lightmotif.load(fileobj) on a Python file object with >= 8192 unread bytes: PyFileRead::read treats a read that fills the buffer exactly as "more bytes than requested" and raises OSError (or, for exactly 8192 bytes, yields no motif)',
 'seed-C01-5': 'protein alphabet (K = 21: row stride 24 floats, 21 columns) on the AVX2 gather kernel / dispatcher with a motif of width >= 2: the table pointer advances by columns() instead of stride()',
 'seed-C05-5': 'the generic encoder (also the scalar tail of the SIMD encoders and every input shorter than one block) with at least two different invalid bytes handled by the scalar loop: it keeps going and reports the last one',
 'seed-C06-5': 'AVX2 f32 permute kernel prefetches the next sequence row one iteration ahead: an aligned 32-byte load of row i + M (one past the last row) when there is no spare capacity after the wrap rows (cloned sequence, motif of exactly 33 positions); scores are unchanged',
 'seed-C09-5': 'to_scoring_with_base with a base other than 2 or 10 (e, 4, 20; Python log_odds(base=..)): receiver and argument of f32::log swapped',
 'seed-C14-5': 'a JASPAR-2016 header with only an identifier (no description): multispace0 eats the line ending, the first matrix line becomes the description and the A column stays zero',
 'seed-C15-5': 'a TRANSFAC record buffer that ends inside a P0/PO matrix row before the last count is complete (truncated file): the streaming float parser returns Incomplete, which Error::from maps to unreachable!()',
 'seed-C18-5': 'a protein ScoringMatrix (K = 21, row 84 bytes, stride 96) with >= 2 rows read through the buffer protocol at row >= 1: row stride advertised as next_power_of_two(cols * 4) = 128',
 'seed-C19-5': 'reverse iteration combined with skip / step_by / nth (rev().step_by(3), nth_back): the new nth_back override forwards to nth of the inner iterator',
 'seed-C01-4': 'a striped sequence carrying more look-ahead rows than M-1 (configured once for the widest motif of a set, then fully scored with a narrower one through Pipeline::score / ScoringMatrix::score / Python calculate): wrap-(M-1) extra rows are scored and every position past the first column is mis-mapped; all backends agree with each other',
 'seed-C03-4': "AVX2 host, a scanner block of >= 2 rows whose deciding position lies in the block's last row (max_u8_avx2 re-reads row 0 and never reads the last row): Scanner::max returns None or a lower hit, depending on the block size",
 'seed-C05-4': 'the single byte U in a DNA text: from_ascii accepts it as T while the vector loops still match against "ACTGN": accepted where it must be rejected, and backends store different codes when the U sits inside a full vector block',
 'seed-C07-4': '8-bit scores on the AVX2 arm, >= 2 rows, and a maximum that occurs only in the last row (independently re-invented seed C02-3 / C03-4)',
 'seed-C08-4': "Scanner::max with two positions A (first) and B (later), real(B) > real(A) but byte(B) < byte(A): the pruning bound is refreshed with the candidate's own 8-bit score (third independent appearance of the C03-1 mechanism)",
 'seed-C10-4': 'WeightMatrix::reverse_complement rebuilds the background through Background::new(complemented).unwrap_or_default(): a background whose f32 frequencies do not sum to exactly 1.0 (from_counts 7/5, 5/1, 10/2) silently becomes uniform',
 'seed-C16-4': 'more than 32 sequences and a hold-out of an index in 32..63 (mod 64): BitVec packed in u64 words, unset() clears bit i & 0x1f of the word',
 'seed-C18-4': 'StripedScores.__getitem__ with an index below -len (folded back by rem_euclid instead of IndexError) or any negative index on an empty StripedScores (rem_euclid(0) panics)',
 'seed-C02-4': 'a block whose best 8-bit score equals the scaled threshold while holding a real hit: threshold at or below the minimum score on a worst-scoring sequence (t = 0), or a matrix with -inf cells (all bytes and t collapse to 0), or threshold = max score on a consensus occurrence',
 'seed-C04-4': 'two configure / configure_wrap calls on one striped buffer with strictly growing motif widths (e.g. 3 then 8) and no re-striping in between',
 'seed-C06-4': 'AVX2 / dispatched encode_into with len % 32 == 31 (31, 63, 95, ...): one extra 32-byte load/store reads 1 byte past the input and writes 1 symbol past dst',
 'seed-C09-4': 'CountMatrix::from_sequences with a sequence longer than the first one, given after a shorter one (["TCA", "TTAT"]) or after an empty first sequence: truncated and accepted',
 'seed-C14-4': 'a TRANSFAC motif of width >= 100 (1-based row labels; 101 with 0-based labels): the third digit of the row label becomes the first count and the last count is dropped',
 'seed-C15-4': 'a JASPAR-2016 record with a matrix line labelled by the wildcard symbol (N for DNA, X for protein; e.g. one-byte substitution T -> N): index out of bounds in build_matrix',
 'seed-C17-4': 'one StripedSequence object scored first with a wide motif and then with a narrower one through ScoringMatrix.calculate: the look-ahead rows are scored as sequence rows and positions are mis-mapped',
 'seed-C19-4': 'comparing two matrices with different row counts whose common leading rows are identical (empty vs non-empty, new(3) vs new(5), a matrix and its shrunk clone)',
 'seed-C01-3': 'the same StripedSequence configured for a motif of width >= 2 and then reconfigured for a wider one: the additional look-ahead rows are copied from rows 0.. instead of rows wrap..; a first configuration is unaffected',
 'seed-C02-3': "AVX2 host, a scanner block of >= 2 rows whose only qualifying 8-bit scores sit in the block's last row (e.g. one site at position col*R + R-1): max_u8 never reads that row, the block is skipped and the hits are lost",
 'seed-C03-3': 'two near-tied top positions that 8-bit rounding reorders (exact(B) > exact(A), dscore(B) < dscore(A)), A visited first as an improvement over an earlier hit; depends on block size and prior next() calls',
 'seed-C04-3': 'AVX2 / dispatched stripe_into into a reused buffer that held a non-empty sequence, with a new sequence of length exactly 0: the early return now precedes the take()/reset',
 'seed-C05-3': 'AVX2 encoder, length > 32 and not a multiple of 32, with one invalid byte in a vector block and a different one in the scalar tail: the later one is reported',
 'seed-C06-3': 'StripedSequence::sample with length % C != 0 on recycled (non-zero) heap memory, then Protein scoring through the AVX2 gather kernel: padding cells of the uninitialised matrix are used as look-up indices',
 'seed-C07-3': 'a non-empty f32 score matrix whose cells are all -inf (every window contains a symbol with zero frequency and no pseudocount): AVX2 max returns f32::MIN',
 'seed-C08-3': 'AVX2 host and a window whose 8-bit cell sum exceeds 255 while each half-sum of the 2-way unrolled row loop stays below 256: the final wrapping merge yields sum mod 256',
 'seed-C09-3': 'rescale(bg) with a non-default background followed by reading background(), rescaling again, or to_scoring(): the result keeps reporting the old background',
 'seed-C10-3': 'a FrequencyMatrix whose wildcard (N) column is position dependent and not palindromic: reverse_complement leaves that column in its original row order',
 'seed-C14-3': 'raw JASPAR reader, a record parsed while start != 0 (a record less than half as long as an earlier one, a small-capacity BufReader, or leading bytes before the first header)',
 'seed-C15-3': 'a TRANSFAC DT line whose date kind differs from created/updated only in ASCII case (one byte c -> C in a valid file): unreachable!() is reached',
 'seed-C16-3': 'a data set containing the unknown symbol N/X whose sequence is held out at least once: its N count is never subtracted from the background and is re-added on inclusion',
 'seed-C17-3': 'WeightMatrix.log_odds(background, base) with a non-uniform background and base != 2 in the same call: base is ignored on the rescale path',
 'seed-C18-3': 'stripe, then score or scan with a motif of length >= 2, then .copy() / copy.copy() and memoryview: the copy recomputes its shape from rows that include the look-ahead rows',
 'seed-C19-3': 'a resize that grows within the existing capacity (new(8), fill, resize(2), resize(8); reserve(k) then resize(k)): the re-exposed rows keep stale or uninitialised contents',
 'seed-C01-1': 'the same StripedSequence configured twice with increasing motif width (configure(&short) then configure(&long)); a fresh sequence configured once is unaffected',
 'seed-C02-1': 'a window whose discretised column scores sum above 255 (exact or near consensus occurrence) together with a threshold that scales to a non-trivial u8 cut-off',
 'seed-C03-1': 'two positions within 8-bit rounding noise of the top score, the lower-exact/higher-u8 one visited first and installed through the Some(hit) branch',
 'seed-C04-1': 'AVX2 (C = 32) stripe_into on a buffer that already holds a non-empty striped sequence, with a new sequence of length 0',
 'seed-C05-1': 'AVX2 encoder, len >= 32, an invalid byte exactly at offset 32k+31 of a vectorised block and no invalid byte in a later block or the scalar tail',
 'seed-C06-1': 'AVX2 striping of >= 2 blocks (L >= 2017) where the last column holds >= 32 symbols but fewer than 32*floor(rows/32): L in 2017..=2047, 4100, 10007; functionally invisible (over-read lands in padding cells), needs a guard page / valgrind',
 'seed-C07-1': '8-bit scores on the AVX2 argmax arm with a matrix maximum >= 128 whose column also holds a cell < 128, or a maximum not in row 0',
 'seed-C08-1': 'a finite wildcard (N/X) score above the row minimum and a window containing the wildcard symbol; matrices from the normal pipeline have N = -inf',
 'seed-C09-1': 'a matrix cell with non-zero frequency under a zero background (wildcard N/X in a motif instance, a wildcard pseudocount, or a custom background with a zero entry), scored through the two-step to_weight().to_scoring() route',
 'seed-C10-1': 'a motif of odd width whose centre row is not complement-symmetric (row[A] != row[T] or row[C] != row[G]); even widths and double reverse-complement are unaffected',
 'seed-C14-1': 'a raw JASPAR count above 2^24 that f32 cannot represent (16777217, 180247301, ...); smaller counts are exact',
 'seed-C15-1': 'a TRANSFAC DT / RN-with-xref / RX line missing its terminating dot with no other dot later in the record buffer (truncated file): Reader::next() panics via unreachable!()',
 'seed-C16-1': 'Zoops mode past the inertia phase, recruiting a non-seed sequence that contains the wildcard symbol N/X (its wildcard count never reaches the background)',
 'seed-C17-1': 'a PSSM with a strand-asymmetric background whose score distribution was already cached (pvalue/score/score_distribution used) before reverse_complement(), then a meme p-value on the reverse complement',
 'seed-C18-1': 'stripe, score or scan with a motif of length >= 2 (appends look-ahead rows), then copy() / copy.copy() and a memoryview of the copy',
 'seed-C19-1': 'a multi-step resize sequence that grows within the existing capacity (new(8), write, resize(2), resize(6); or reserve(k) then resize(<=k)): the re-exposed rows keep stale / uninitialised contents',
 'seed-C01-2': 'a DNA sequence whose length equals the motif width (L == M), scored through the AVX2 permute wrapper / dispatcher: zero scores instead of one',
 'seed-C02-2': 'a scanner block that starts inside the look-ahead rows (striped row count within M-2 below a multiple of the block size, e.g. L in 8161..=8192 with block 256, or tiny block sizes): the empty trailing block re-reads the previous block\'s 8-bit scores and hits are yielded twice',
 'seed-C03-2': 'AVX2 host, a window at or near the matrix maximum (discrete sum above 255) and a threshold that does not scale to ~0 (same mechanism as seed-C02-1, produced independently)',
 'seed-C04-2': 'AVX2 stripe_into into a reused buffer with a new length below 1024, L % 32 != 0 and more padding cells than rows (100 -> 33, 96 -> 70, 640 -> 321): padding outside the last column keeps symbols of the previous sequence',
 'seed-C05-2': 'explicit SSE2 backend, length >= 17 and two different invalid bytes, the first inside the 16-byte vector blocks and another in the scalar tail: the later one is reported',
 'seed-C06-2': 'AVX2 u8 maximum over a matrix with an odd number of rows (2-row unrolled loop without tail): aligned 32-byte load of the row one past the end — stale scores in a reused buffer, past the allocation in an exact-capacity one',
 'seed-C07-2': 'a non-empty f32 score matrix with no finite cell (every window contains N): AVX2 max() returns f32::MIN, a value stored in no cell',
 'seed-C08-2': 'AVX2 host and a window whose rounded-up 8-bit cell sum exceeds 255 (consensus / near-perfect match): wrapping add gives a tiny byte score below the scaled real score (same mechanism as seed-C02-1, produced independently)',
 'seed-C09-2': 'a frequency row whose total is NaN (a NaN cell, or +inf and -inf together), e.g. a UniPROBE record with a `nan` cell: FrequencyMatrix::new accepts it',
 'seed-C10-2': 'the wildcard column: complement(N) becomes T, so reverse_complement fills column N from the T column; visible when the wildcard column is inspected, a sequence containing N is scored, or a reverse-complemented count matrix is converted onward',
 'seed-C14-2': 'JASPAR-2016 reader: one wide record followed by at least two much narrower ones whose combined length is at most half the buffer capacity; chunk-size dependent (fails with 64-/7-/1-byte chunks, passes with a whole cursor)',
 'seed-C15-2': 'malformed input with more than 64 bytes remaining at the failure point and a multi-byte UTF-8 character straddling byte 64 of the remainder: the error conversion slices inside a character and panics',
 'seed-C16-2': 'an active sequence with an N/X outside its motif window: Background::from_counts never writes the frequency of the last symbol, so the reported background differs from the normalised counts',
 'seed-C17-2': 'log_odds(background, base=b) with a non-uniform background and b != 2: the rescale path calls to_scoring() (log2) instead of to_scoring_with_base(base)',
 'seed-C18-2': 'StripedScores view when ceil((L-M+1)/32) < ceil(L/32), i.e. L mod 32 in 1..M-1 (M=15: L in 65..78): the exported row count is taken from the number of valid positions while the stride stays that of the full matrix',
 'seed-C19-2': 'DenseMatrix::fill on a shape with row padding (columns*size_of(T) not a multiple of 32: u8x5, f32x5, i64x1): ravel_mut covers rows*columns instead of rows*stride elements, trailing rows keep old contents',
}
ids = sys.argv[1:] or sorted(d for d in os.listdir(os.path.join(VERIF, 'seeded')) if os.path.isdir(os.path.join(VERIF, 'seeded', d)))
for sid in ids:
    d = os.path.join(VERIF, 'seeded', sid)
    r = subprocess.run([sys.executable, os.path.join(VERIF, 'tools', 'seedtest.py'), d], capture_output=True, text=True)
    last = r.stdout.strip().splitlines()[-1]
    fired = json.loads(last)
    meta = json.load(open(os.path.join(d, 'meta.json')))
    meta['detected_by'] = {p: [x for x in rules] for p, rules in fired.items()}
    meta['detected_by_own_property_check'] = meta['property'] in fired
    meta['checks_run'] = 'all claimed properties, quick tier, via tools/seedtest.py (git -C /repo apply; ./check <id>; git -C /repo checkout -- .)'
    if sid in NEEDS:
        meta['needs_to_manifest'] = NEEDS[sid]
    json.dump(meta, open(os.path.join(d, 'meta.json'), 'w'), indent=1)
    print(sid, meta['property'], '->', fired or 'MISSED')
