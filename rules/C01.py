"""C01 — every backend computes the defined PSSM score at every position (structural clauses)."""
from fractions import Fraction
from lm import lanes as LN, expr as X, guards as G
from lm.lanes import Vec, Ptr, lane
from lm.match import norm, m
from lm.db import short
from . import common, kernels as K

LEVEL_NOTE = ('decides (part): per-lane data flow of every SIMD scoring kernel (output lane of column c and result row r = Σ_j T_j[seq(row+j, c)] with additive-identity '
              'accumulators and lock-step pointers), the scalar generic kernel, result-length bookkeeping L+1-M in every wrapper, striped<->linear index formulas, '
              'dispatcher arm <-> backend agreement, the K <= 8 guard of the permute kernel. Not decided: floating-point rounding; the NEON arm (cfg-excluded on this target).')

AVX2 = 'lightmotif::pli::platform::avx2::'
SSE2 = 'lightmotif::pli::platform::sse2::'

KERNELS = [
    (AVX2 + 'score_f32_avx2_permute', 4, 4, 'add_f32'),
    (AVX2 + 'score_f32_avx2_gather', 4, 4, 'add_f32'),
    (AVX2 + 'score_u8_avx2_shuffle', 1, 1, 'adds_u8'),
    (SSE2 + 'score_sse2', 4, 4, 'add_f32'),
]


def is_param_call(e, name, pidx):
    """call name(param) e.g. DenseMatrix::rows(arg1)."""
    e = norm(e) if isinstance(e, tuple) else e
    return isinstance(e, tuple) and e[0] == 'call' and e[1].endswith(name) and len(e[2]) == 1 and norm(e[2][0]) == ('p', pidx)


def canon_stride_of(expr_canon_contains):
    return expr_canon_contains


def check_score_kernel(db, ctx, path, e_out, e_tab, want_op):
    f, E, err = K.evaluate(db, path)
    nm = f.name
    if E is None:
        ctx.fail('R1.1', f, 'lane evaluation', f'reason=unrecognised-shape: {err}')
        return 0
    # loops
    rows_loops = [H for H, L in E.loops.items() if L.iter and L.iter[0] == 'iter' and ('arg3' in X.canon(K_strip(L.iter[1])) or K_strip(L.iter[1]) == ('p', 3))]
    if len(rows_loops) != 1:
        ctx.fail('R1.1', f, 'row loop', f'reason=unrecognised-shape: {len(rows_loops)} loops over the `rows` range')
        return 0
    Hr = rows_loops[0]
    Lr = E.loops[Hr]
    js = [H for H in Lr.inner if E.loops[H].iter and E.loops[H].iter[0] == 'range']
    if len(js) != 1:
        ctx.fail('R1.1', f, 'motif loop', f'reason=unrecognised-shape: {len(js)} inner range loops')
        return 0
    Hj = js[0]
    Lj = E.loops[Hj]
    probs = []
    # (d) iteration spaces
    lo, hi = Lj.iter[1], Lj.iter[2]
    if not (norm(lo) == ('k', 0) and is_param_call(hi, 'DenseMatrix::rows', 1)):
        probs.append(f'motif loop runs over {X.show(lo, 30)}..{X.show(hi, 60)}, expected 0..pssm.rows()')
    H0 = Lr.parent
    # addresses: every vector access is put in the form  row start of a matrix + (whole rows per iteration of each loop) + offset inside the row,
    # whether the pointer is bumped once per iteration or recomputed as `base.add(j * stride)` (kernels.root_of)
    S_SEQ = 'lightmotif::dense::DenseMatrix::stride(lightmotif::seq::StripedSequence::matrix(arg2))'
    S_TAB = 'lightmotif::dense::DenseMatrix::stride(arg1)'
    S_OUT = 'lightmotif::dense::DenseMatrix::stride(lightmotif::scores::StripedScores::matrix_mut(arg4))'
    info = {}
    for a in E.acc:
        if not isinstance(a.ptr, Ptr):
            continue
        root, steps, off = K.root_of(E, a.ptr)
        if root is None:
            continue
        cls = K.classify(root.base)
        if cls[0] != 'ROW':
            continue
        inrow = {k: v for k, v in off.items() if 'DenseMatrix::stride' not in k}
        extra_rows = {k: v for k, v in off.items() if 'DenseMatrix::stride' in k}
        info[a.ptr.key()] = {'acc': a, 'matrix': norm(cls[1]) if isinstance(cls[1], tuple) else cls[1], 'row0': cls[2], 'steps': [(H, st) for H, _, st in steps],
                             'inrow': inrow, 'extra_rows': extra_rows}

    def is_seq(i_):
        return is_param_call(i_['matrix'], 'StripedSequence::matrix', 2)

    def is_tab(i_):
        return i_['matrix'] == ('p', 1)

    def is_out(i_):
        return is_param_call(i_['matrix'], 'StripedScores::matrix_mut', 4)
    seq_keys = [k for k, i_ in info.items() if is_seq(i_) and i_['acc'].kind == 'load']
    tab_keys = [k for k, i_ in info.items() if is_tab(i_) and i_['acc'].kind in ('load', 'gather')]
    if not seq_keys or not tab_keys:
        ctx.fail('R1.1', f, 'pointers', f'reason=unrecognised-shape: sequence loads {len(seq_keys)}, table loads {len(tab_keys)} through row pointers')
        return 0
    for k in seq_keys:
        i_ = info[k]
        r0 = i_['row0']
        if isinstance(r0, tuple) and r0 and r0[0] == 'fld' and str(r0[2]) == '1':      # (k, i) of rows.enumerate(): i is the range element
            r0 = r0[1]
        if not LN.is_elem(r0, Hr):
            probs.append(f'sequence pointer starts at row {X.show(i_["row0"], 60) if isinstance(i_["row0"], tuple) else i_["row0"]}: expected seq.matrix()[i] with i the element of the `rows` range (not its position)')
        if i_['steps'] != [(Hj, {S_SEQ: Fraction(1)})] or i_['extra_rows']:
            probs.append(f'sequence pointer advances by {[(H_, X.lin_str(st)) for H_, st in i_["steps"]]} per motif row, expected seq.matrix().stride() in the motif loop only')
    for k in tab_keys:
        i_ = info[k]
        if norm(i_['row0']) != ('k', 0):
            probs.append(f'table pointer starts at row {X.show(i_["row0"], 40)}: expected pssm[0]')
        if i_['steps'] != [(Hj, {S_TAB: Fraction(e_tab)})] or i_['extra_rows']:
            probs.append(f'table pointer advances by {[(H_, X.lin_str(st)) for H_, st in i_["steps"]]} per motif row, expected pssm.stride()*{e_tab} in the motif loop only')
    stores = [i_['acc'] for k, i_ in info.items() if is_out(i_) and i_['acc'].kind == 'store' and isinstance(i_['acc'].value, Vec)]
    if not stores:
        ctx.fail('R1.1', f, 'result stores', 'reason=unrecognised-shape: no vector store through a pointer into scores.matrix_mut()')
        return 0
    for a in stores:
        i_ = info[a.ptr.key()]
        if norm(i_['row0']) != ('k', 0):
            probs.append(f'result pointer starts at row {X.show(i_["row0"], 40)}: expected scores.matrix_mut()[0]')
        if i_['steps'] != [(Hr, {S_OUT: Fraction(e_out)})] or i_['extra_rows']:
            probs.append(f'result pointer advances by {[(H_, X.lin_str(st)) for H_, st in i_["steps"]]}, expected data.stride()*{e_out} once per element of `rows`')

    class _Off:            # the in-row byte offset of the sequence row pointer (was: offset of the carried pointer's initial value)
        pass
    si = _Off()
    si.off = info[seq_keys[0]]['inrow']
    ri = _Off()
    ri.off = {}
    tabp_keys = set(tab_keys)
    cols = []
    n_lanes = 0
    for a in stores:
        S = info[a.ptr.key()]['inrow']
        for q in range(len(a.value) // e_out):
            n_lanes += 1
            t = lane(a.value, q, e_out)
            col_store = K.lin_add(K.lin_div(K.lin_add(ri.off, S), e_out), {'': Fraction(q)})
            # accumulator lane
            if e_out > 1 and isinstance(t, tuple) and t[0] == 'outw' and t[1] == Hj:
                l, q2 = t[2], t[3]
            elif e_out == 1 and isinstance(t, tuple) and t[0] == 'out' and t[1] == Hj:
                l, q2 = t[2], t[3]
            else:
                probs.append(f'column {X.lin_str(col_store)}: stored value is not an accumulator of the motif loop ({str(t)[:80]})')
                continue
            init = Lj.carried.get(l)
            it = lane(init, q2, e_out) if isinstance(init, Vec) else None
            if not (it is not None and LN.zero(it, e_out)):
                probs.append(f'column {X.lin_str(col_store)}: accumulator does not start at the additive identity (0) for every row: {str(it)[:60]}')
            u = K.phi_update(E, Hj, l, q2, e_out)
            term = None
            how = ''
            if u and u[0] == want_op:
                lk = K.as_lookup(u[1], E)
                if lk:
                    tabkey, esz, sym, how = lk
                    if tabkey not in tabp_keys or info[tabkey]['inrow']:
                        probs.append(f'column {X.lin_str(col_store)}: table is read from {tabkey}, not from the start of the current PSSM row')
                    if esz != e_tab:
                        probs.append(f'column {X.lin_str(col_store)}: table element size/scale {esz} != {e_tab}')
                    term = sym
            elif u and u[0] == 'other' and isinstance(u[1], tuple) and u[1][0] == 'outw' and u[1][1] in Lj.inner:
                Hk = u[1][1]
                Lk = E.loops[Hk]
                ini = Lk.carried.get(l)
                if isinstance(ini, Vec) and lane(ini, q2, 4) == ('phiw', Hj, l, q2, 4):
                    ss = K.select_sum_lookup(E, Hk, l, q2)
                    if ss and ss['iter'][0] == 'range' and norm(ss['iter'][1]) == ('k', 0) and common.is_usize_const(ss['iter'][2], 'K'):
                        tk = info.get(ss['tabkey'])
                        if tk is None or not is_tab(tk) or tk['inrow'] != {X.canon(('elem', ss['iter'], Hk)): Fraction(4)}:
                            probs.append(f'column {X.lin_str(col_store)}: table element read from {ss["tabkey"]}, expected pssmptr + 4*k')
                        term = ss['sym']
                        how = 'Σ_k select(sym == k, T[k], 0) over k in 0..K'
            elif u and u[0] in ('add_wrap8', 'adds_u8', 'add_f32') and u[0] != want_op:
                probs.append(f'column {X.lin_str(col_store)}: accumulates with {u[0]}, expected {want_op}')
                continue
            if term is None:
                probs.append(f'column {X.lin_str(col_store)}: per-row term is not a table look-up by the sequence symbol ({str(u)[:100]})')
                continue
            # symbol byte
            if not (isinstance(term, tuple) and term[0] == 'ld' and term[1] in seq_keys):
                probs.append(f'column {X.lin_str(col_store)}: symbol is {str(term)[:80]}, not a byte of the current sequence row')
                continue
            col_sym = K.lin_add(info[term[1]]['inrow'], {'': Fraction(term[2])})
            if not K.lin_eq(col_store, col_sym):
                probs.append(f'stored at column {X.lin_str(col_store)} but computed from sequence column {X.lin_str(col_sym)} (lane permutation is not the identity)')
            cols.append(X.lin_str(col_store))
    # coverage
    if len(set(cols)) != len(cols):
        probs.append('a column is stored twice')
    width = len(cols)
    if H0 is None:
        if sorted(cols, key=lambda s: int(s)) != [str(i) for i in range(32)] if all(c.isdigit() for c in cols) else True:
            if not (all(c.isdigit() for c in cols) and sorted(int(c) for c in cols) == list(range(32))):
                probs.append(f'stored columns {sorted(cols)[:6]}… do not cover 0..31 exactly once')
    else:
        L0 = E.loops[H0]
        # the 16 lanes of a block are columns base + 0..15 where base is the block offset: either the element of
        # `(0..C/16).map(|i| i * 16)` or `16 * block` with `block` the element of `0..C/16`
        el0 = X.canon(('elem', L0.iter, H0))
        want_map = sorted(X.lin_str({el0: Fraction(1), '': Fraction(i)}) if i else X.lin_str({el0: Fraction(1)}) for i in range(16))
        want_cnt = sorted(X.lin_str({el0: Fraction(16), '': Fraction(i)}) if i else X.lin_str({el0: Fraction(16)}) for i in range(16))
        got = sorted(cols)
        bo = K.block_offset(db, f, E, H0)
        okmap = False
        if got == want_cnt:
            okmap = bo == ('block', 1)
            if not okmap:
                probs.append('column blocks are 16*block but `block` does not range over 0..C/16')
        elif got != want_map:
            probs.append(f'block stores columns {got[:3]}…, expected offset+0..15')
        else:
            okmap = bo == ('offset', 16)
        if not okmap and not probs:
            probs.append('column blocks are not offset = 16*i for i in 0..C/16')
    if probs:
        for p in probs[:6]:
            ctx.fail('R1.1', f, f'{nm}: ' + p.split(':')[0][:60], p)
        return 0
    ctx.ok('R1.1', f, f'{nm}: cell(r, c) = Σ_j T_j[seq(rows.start + r + j, c)] for every column; σ = id; {want_op}; accumulators start at 0',
           [how, f'{n_lanes} lanes x 5 obligations', 'pointers advance by their own strides', 'seq row = range element, result row = range position'])
    return n_lanes


def K_strip(v):
    while isinstance(v, tuple) and v and v[0] == 'call' and v[1].endswith(('::clone', 'into_iter')) and len(v[2]) == 1:
        v = v[2][0]
    while isinstance(v, tuple) and v and v[0] in ('ref', 'deref'):
        v = v[1]
    return v


def r11_generic(db, ctx):
    f = [g for g in db.by_short.get('lightmotif::pli::Score::score_rows_into', []) if g.raw.get('trait_default_of')]
    if len(f) != 1:
        ctx.fail('R1.1', 'lightmotif::pli::Score::score_rows_into', 'generic kernel', 'reason=anchor-missing')
        return
    f = f[0]
    R = X.Rec(f)
    st = [s for s in X.stores(f, R) if norm(s['target'])[0] == 'idx']
    acc = [(bi, t) for bi, t in f.calls() if (f.callee_short(t) or '').endswith('AddAssign::add_assign') or 'saturating_add' in (f.callee_short(t) or '')]
    probs = []
    if len(st) != 1 or len(acc) != 1:
        ctx.fail('R1.1', f, 'generic kernel', f'reason=unrecognised-shape: {len(st)} cell stores, {len(acc)} accumulations')
        return
    # decided on the loop-form independent element form (lm/iteralg.py): rows.enumerate() or a counted loop with rows.start + r, index loops or iterators
    from lm import iteralg
    CA = iteralg.Canon(f, R)
    tg = CA.canon(st[0]['target'])
    av = CA.canon(R.operand(acc[0][1]['args'][1]))
    b = m(('at', ('at', '$res', '$r'), '$c'), tg)
    bv = m(('at', ('at', '$pssm', '$j'), ('call~', 'as_index', (('at', ('at', ('call~', 'StripedSequence::matrix', ('$seq',)), '$row'), '$c2'),))), av)
    if b is None or not (iteralg.is_pos(b['$r']) and iteralg.is_pos(b['$c'])) or m(('call~', 'StripedScores::matrix_mut', ('_',)), b['$res']) is None:
        probs.append(f'result cell is {X.show(tg, 120)}: expected result[position in rows][col] for col in 0..C')
    if bv is None or not iteralg.is_pos(bv['$j']):
        probs.append(f'accumulated term is {X.show(av, 160)}: expected pssm_row[seq.matrix()[seq_row + j][col].as_index()]')
    if b is not None and bv is not None and not probs:
        Lr, Lc, Lj = b['$r'][1], b['$c'][1], bv['$j'][1]
        if bv['$c2'] != b['$c']:
            probs.append('the column read differs from the column written')
        # sequence row = (element of `rows` at the position written) + j
        l = X.lin(bv['$row'])
        pr, pj = X.canon(('pos', Lr)), X.canon(('pos', Lj))
        rest = {k: v for k, v in l.items() if k not in (pr, pj) and v != 0}
        rows_param = None
        for c_ in CA.extents.get(Lr, []):
            if c_[0] == 'len':
                rows_param = c_[1]
            elif c_[0] == 'sub' and c_[2] == ('k', 0) and common.range_of_len(f, c_[1]) is not None:
                rows_param = common.range_of_len(f, c_[1])      # 0..rows.len()  or  0..(rows.end - rows.start)
            elif c_[0] == 'sub' and common.range_of_len(f, ('bin', 'Sub', c_[1], c_[2])) is not None:
                rows_param = common.range_of_len(f, ('bin', 'Sub', c_[1], c_[2]))      # a cursor running over rows.start..rows.end
        start_ok = rows_param is not None and rest == X.lin(('fld', rows_param, 'start'))
        if not (l.get(pr) == 1 and l.get(pj) == 1 and start_ok):
            probs.append(f'sequence row is {X.show(bv["$row"], 120)}: expected (element of rows) + j')
        if rows_param is None or rows_param[0] != 'p' or not f.local_ty(rows_param[1]).startswith('core::ops::range::Range<'):
            probs.append('result rows are not one per element of the `rows` range')
        if not all(c_[0] == 'sub' and c_[2] == ('k', 0) and common.is_usize_const(c_[1], 'C') for c_ in CA.extents.get(Lc, [('?',)])):
            probs.append(f'columns visited: {CA.extents.get(Lc)}, expected 0..C')
        if CA.extents.get(Lj) != [('rows', bv['$pssm'])] and not all(c_[0] == 'sub' and c_[2] == ('k', 0) and common.is_call_on(c_[1], 'DenseMatrix::rows', bv['$pssm']) for c_ in CA.extents.get(Lj, [('?',)])):
            probs.append(f'motif rows visited: {CA.extents.get(Lj)}, expected every row of the matrix')
    # accumulator reset per (row, col): score = T::default() inside the col loop
    if probs:
        ctx.fail('R1.1', f, 'generic kernel', '; '.join(probs))
    else:
        ctx.ok('R1.1', f, 'generic kernel: result[r][c] = Σ_j pssm[j][seq.matrix()[rows[r] + j][c].as_index()]', ['scalar: C lanes of width 1'])


def r12(db, ctx):
    ctx.rule('R1.2', 'the permutevar8x32 kernel (look-up index modulo 8) is only selected when K <= 8')
    f = db.fn('lightmotif::pli::platform::avx2::Avx2::score_f32_rows_into')
    R = X.Rec(f)
    n = 0
    for bi, t in f.calls():
        c = f.callee_short(t) or ''
        if c.endswith('score_f32_rows_into_permute'):
            rels = G.relations(f, R, bi)
            g = [r for r in rels if r[0] in ('le', 'lt') and common.is_usize_const(r[1], 'K') and norm(r[2])[0] == 'k']
            okg = g and ((g[0][0] == 'le' and norm(g[0][2])[1] <= 8) or (g[0][0] == 'lt' and norm(g[0][2])[1] <= 9))
            n += 1
            if okg:
                ctx.ok('R1.2', f, 'permute kernel chosen only under K <= 8', [f'K {g[0][0]} {norm(g[0][2])[1]}'])
            else:
                ctx.fail('R1.2', f, 'permute kernel selection', f'the permute kernel is reachable without the guard K <= 8 (guards: {[(r[0], X.show(r[1], 30)) for r in rels]})', span=t['span'])
    ctx.floor('R1.2', n, 1, 'calls to the permute wrapper')


WRAPPERS = ['lightmotif::pli::platform::avx2::Avx2::score_f32_rows_into_permute', 'lightmotif::pli::platform::avx2::Avx2::score_f32_rows_into_gather',
            'lightmotif::pli::platform::avx2::Avx2::score_u8_rows_into_shuffle', 'lightmotif::pli::platform::sse2::Sse2::score_rows_into']


def resize_args_ok(f, R, t, bi=None):
    Rb = R.at(bi) if bi is not None and hasattr(R, 'at') else R
    a1, a2 = norm(Rb.operand(t['args'][1])), norm(Rb.operand(t['args'][2]))
    return a1, a2


def r13(db, ctx):
    ctx.rule('R1.3', 'every score wrapper resizes the result to (rows.len(), len(seq) + 1 - rows(pssm)) under len(seq) >= rows(pssm) and non-empty rows, and to (0, 0) otherwise')
    fs = [db.fn(p) for p in WRAPPERS] + [g for g in db.by_short.get('lightmotif::pli::Score::score_rows_into', []) if g.raw.get('trait_default_of')]
    n = 0
    for f in fs:
        R = X.Rec(f)
        rs = [(bi, t) for bi, t in f.calls() if (f.callee_short(t) or '').endswith('StripedScores::resize')]
        full = None
        zero = None
        for bi, t in rs:
            a1, a2 = resize_args_ok(f, R, t, bi)
            if a1 == ('k', 0) and a2 == ('k', 0):
                zero = (bi, t)
            else:
                full = (bi, t, a1, a2)
        probs = []
        if not full or not zero:
            probs.append(f'expected one resize(0, 0) and one full resize, found {len(rs)} resize calls')
        else:
            bi, t, a1, a2 = full
            rng = common.range_of_len(f, a1)
            is_rows_len = rng is not None and rng[0] == 'p'
            if not is_rows_len:
                probs.append(f'row count is {X.show(a1, 60)}, expected rows.len()')
            # second: saturating_sub(len(seq)+1, rows(pssm))  or  len - M + 1
            # saturating_sub(x, y) is x - y on this side of the guard (x >= y is implied by the guard checked below)
            def unsat(e):
                if not isinstance(e, tuple) or not e or not isinstance(e[0], str):
                    return e
                if e[0] == 'call' and e[1].endswith('saturating_sub') and len(e[2]) == 2:
                    return ('bin', 'Sub', unsat(e[2][0]), unsat(e[2][1]))
                return tuple(unsat(x) if isinstance(x, tuple) and x and isinstance(x[0], str) else (tuple(unsat(y) for y in x) if isinstance(x, tuple) else x) for x in e)
            l = X.lin(unsat(a2))
            ks = {k: v for k, v in l.items() if k != ''}
            if not (l.get('', 0) == 1 and sorted(ks.values()) == [-1, 1] and any('StripedSequence::len' in k and v == 1 for k, v in ks.items())
                    and any('DenseMatrix::rows' in k and v == -1 for k, v in ks.items())):
                probs.append(f'number of valid positions is {X.show(a2, 100)}, expected seq.len() + 1 - pssm.rows()')
            rels = G.relations(f, R, bi)
            strength, gr = common.length_guard_strength(rels)
            g2 = common.range_nonempty(rels, rng)
            if strength == 'stronger':
                probs.append(f'the early exit also takes sequences with len(seq) == rows(pssm) (guard {gr[0]}({X.show(norm(gr[1]), 60)}, {X.show(norm(gr[2]), 40)}) is stronger than '
                             'len >= rows): the single window of a sequence as long as the motif gets no score')
            elif not (strength == 'exact' and g2):
                probs.append('the full resize is not dominated by len(seq) >= rows(pssm) and !rows.is_empty()')
            # the (0,0) side returns without touching the kernel
        # must-pass-through: no path from entry to a return avoids every resize of the output (a skipped resize leaves the
        # previous call's scores and length in a reused buffer)
        rblocks = {bi for bi, t in rs}
        seen, st = set(), [0]
        while st:
            b_ = st.pop()
            if b_ in seen or b_ in rblocks:
                continue
            seen.add(b_)
            st.extend(f.succs(b_))
        esc = [e for e in f.exits() if e in seen]
        if esc:
            probs.append('a path returns without resizing the output scores: a reused buffer keeps the rows and length of the previous call '
                         '(the scanner then re-reads stale 8-bit scores for an empty trailing block)')
        if probs:
            ctx.fail('R1.3', f, 'result-length bookkeeping', '; '.join(probs))
        else:
            n += 1
            ctx.ok('R1.3', f, 'resize(rows.len(), L + 1 - M) | resize(0, 0)', ['guard L >= M and rows non-empty'])
    ctx.floor('R1.3', n, 5, 'score wrappers with the length bookkeeping')


def layout_sites(db):
    """(fn path, kind) of the sites converting between a position and (row, col)."""
    return [
        ('<lightmotif::seq::StripedSequence<A, C> as core::ops::index::Index<usize>>::index', 'seq-index'),
        ('<lightmotif::scores::StripedScores<T, C> as core::ops::index::Index<usize>>::index', 'scores-index'),
        ('lightmotif::scores::Iter::<\'a, T, C>::get', 'scores-index'),
        ('lightmotif::scores::StripedScores::<T, C>::offset', 'offset'),
        ('<lightmotif::seq::StripedSequence<A, C> as lightmotif::seq::SymbolCount<A>>::count_symbol', 'count'),
        ('<lightmotif::seq::StripedSequence<A, C> as lightmotif::seq::SymbolCount<A>>::count_symbols', 'count'),
    ]


def r14(db, ctx):
    ctx.rule('R1.4', 'striped <-> linear conversions all use row = i mod R, col = i div R, i = col*R + row with R = rows(data) - wrap for sequences and rows(data) for scores; '
                     'scores::Iter ends at min(max_index, rows*columns)')
    n = 0
    for path, kind in layout_sites(db):
        try:
            f = db.fn(path)
        except KeyError:
            ctx.fail('R1.4', path, 'layout site', 'reason=anchor-missing')
            continue
        R = X.Rec(f)
        probs = []
        if kind in ('seq-index', 'scores-index'):
            e = common.return_expr_single_path_allow(f)
            en = norm(e) if e is not None else None
            b = m(('idx', ('call~', '::index', ('$data', ('bin', 'Rem', '$i', '$R1'))), ('bin', 'Div', '$i', '$R2')), en) if en else None
            if b is None or b['$R1'] != b['$R2']:
                probs.append(f'expected data[i % R][i / R], got {X.show(e, 120) if e else None}')
            else:
                Rr = b['$R1']
                if kind == 'seq-index':
                    okR = m(('bin', 'Sub', ('call~', 'DenseMatrix::rows', ('$d',)), ('fld', '_', 'wrap')), Rr) is not None
                    if not okR:
                        probs.append(f'R = {X.show(Rr, 60)}, expected data.rows() - wrap')
                else:
                    okR = m(('call~', 'DenseMatrix::rows', ('$d',)), Rr) is not None
                    if not okR:
                        probs.append(f'R = {X.show(Rr, 60)}, expected data.rows()')
        elif kind == 'offset':
            e = norm(common.return_expr_single_path_allow(f))
            l = X.lin(e)
            ks = list(l)
            okf = len(l) == 2 and all(v == 1 for v in l.values()) and any(k.endswith('.row') for k in ks) and any('.col' in k and 'DenseMatrix::rows' in k and k.startswith('(') for k in ks)
            if not okf:
                probs.append(f'offset = {X.show(e, 100)}, expected col * rows + row')
        elif kind == 'count':
            # index = j * rows + i with rows = data.rows() - wrap, guard index < len
            # the counted cells are data[i][j] for i in 0..rows-wrap (not the look-ahead rows, which repeat cells of the first rows: seed
            # C04-5), every column j, kept only under j*(rows - wrap) + i < len — as nested loops, or as a pipeline (possibly built by a
            # private `impl Iterator` helper)
            if not _count_pipeline_ok(db, f):
                probs.append('the counted cells are not data[i][j] for i in 0..rows - wrap, every column j, under the guard j*(rows - wrap) + i < len')
        if probs:
            ctx.fail('R1.4', f, 'layout formula', '; '.join(probs))
        else:
            n += 1
            ctx.ok('R1.4', f, f'{kind}: i <-> (i mod R, i div R)', ['same R on both sides'])
    # scores::Iter::new end
    f = db.fn("lightmotif::scores::Iter::<'a, T, C>::new")
    R = X.Rec(f, ite=True)      # `if a < b { a } else { b }` is min(a, b)
    agg = None
    for blk in f.blocks:
        for st in blk['stmts']:
            if st['k'] == 'assign' and st['rv']['k'] == 'agg' and st['rv'].get('adt', '').endswith('scores::Iter'):
                agg = dict(zip(st['rv']['fields'], [norm(R.operand(o)) for o in st['rv']['ops']]))
    ok = False
    if agg:
        b = m(('agg', '_', (('k', 0), ('call~', 'Ord::min', ('$a', '$b')))), agg.get('indices'))
        if b is not None:
            def capacity(e_):
                # rows * columns of the score matrix (columns() is the constant C)
                e_ = norm(e_)
                if not (e_[0] == 'bin' and e_[1] in ('Mul', 'MulUnchecked')):
                    return False
                for x_, y_ in ((e_[2], e_[3]), (e_[3], e_[2])):
                    if x_[0] == 'call' and x_[1].endswith('DenseMatrix::rows') and ((y_[0] == 'call' and y_[1].endswith('DenseMatrix::columns')) or common.is_usize_const(y_, 'C')):
                        return True
                return False
            is_max = lambda e_: norm(e_)[0] == 'fld' and norm(e_)[2] == 'max_index'
            ok = (is_max(b['$a']) and capacity(b['$b'])) or (is_max(b['$b']) and capacity(b['$a']))
    (ctx.ok if ok else ctx.fail)('R1.4', f, 'scores::Iter covers 0..min(max_index, rows*columns)', *([[]] if ok else ['iteration range is not 0..min(max_index, rows*columns)']))
    ctx.floor('R1.4', n, 6, 'layout conversion sites')


def _count_pipeline_ok(db, f):
    from lm import reduce as RD, iteralg as IA
    R = X.Rec(f)
    C = RD.RCanon(db, f, R)
    data = ('fld', ('p', 1), 'data')
    Rrows = ('bin', 'Sub', ('call', 'lightmotif::dense::DenseMatrix::rows', (data,)), ('fld', ('p', 1), 'wrap'))
    is_cell = lambda x: m(('at', ('at', '$d', '$i'), '$j'), x) is not None and x[1][1] == data and IA.is_pos(x[1][2]) and IA.is_pos(x[2])
    cells = []
    # count_symbols: counts[cell.as_index()] += 1 in a loop over the pipeline (or in a for_each closure); count_symbol: pipeline.filter(..).count()
    loop_filters = []

    def guards_at(g_, Rg_, blk, sub=None):
        for rel in G.relations(g_, Rg_, blk):
            if rel[0] in ('eq', 'ne', 'lt', 'le', 'gt', 'ge') and len(rel) > 2:
                a_, b_ = norm(rel[1]), norm(rel[2])
                if sub:
                    a_, b_ = RD._subst(a_, sub), RD._subst(b_, sub)
                loop_filters.append((rel[0], C.canon(a_), C.canon(b_)))
    for s_ in X.stores(f, R):
        tg = C.canon(s_['target'])
        b = m(('at', '_', ('call~', 'as_index', ('$cell',))), tg)
        if b is not None:
            cells.append(b['$cell'])
            guards_at(f, R, s_['block'])
    for bi, t in f.calls():
        if (f.callee_short(t) or '').endswith('Iterator::for_each') and len(t['args']) == 2:
            e_ = norm(R.call(t))
            L = RD._fresh()
            el = C.elem_of(e_[2][0], L)
            fv = RD.fn_value(e_[2][1])
            g = db.fns.get(fv[1]) if fv and fv[0] == 'closure' else None
            if el is None or g is None:
                return False
            C.extents[L] = el[1]
            Rg = X.Rec(g)
            for s_ in X.stores(g, Rg):
                tg = C.canon(RD._subst(norm(s_['target']), {('p', 2): el[0]}))
                b = m(('at', '_', ('call~', 'as_index', ('$cell',))), tg)
                if b is not None:
                    cells.append(b['$cell'])
                    guards_at(g, Rg, s_['block'], {('p', 2): el[0]})
    # visitor form: a (formerly separate, now inlined) helper walks the cells and calls a closure of this function with each one; the closure
    # counts what it is given: `counts[x.as_index()] += 1`, or `if x == symbol { count += 1 }`
    own = {g.path: g for g in db.closures_of(f)}
    for bi, t in f.calls():
        if (f.callee_short(t) or '').endswith(('FnMut::call_mut', 'Fn::call', 'FnOnce::call_once')) and len(t['args']) == 2:
            tup = norm(R.at(bi).operand(t['args'][1]))
            if not (tup[0] == 'agg' and len(tup[2]) == 1):
                continue
            counts_it = False
            for g in own.values():
                Rg = X.Rec(g)
                for s_ in X.stores(g, Rg):
                    tg, val = norm(s_['target']), norm(s_['value'])
                    if val != ('bin', 'Add', tg, ('k', 1)):
                        continue
                    if m(('at', '_', ('call~', 'as_index', (('p', 2),))), C.canon(tg)) is not None:
                        counts_it = True
                    if any(r_[0] == 'eq' and ('p', 2) in (norm(r_[1]), norm(r_[2])) for r_ in G.relations(g, Rg, s_['block']) if len(r_) > 2):
                        counts_it = True
            if counts_it:
                cells.append(C.canon(tup[2][0]))
                guards_at(f, R, bi)
    e = common.return_expr_single_path_allow(f)
    # results produced before the counting loops (`if len == 0 { return count }`) must be confined to the empty sequence, where the
    # counters still hold what the loops would leave in them
    loop_blocks = set().union(*[L_['body'] for L_ in f.loops()]) if f.loops() else set()
    after_loops, stack_ = set(), [y_ for L_ in f.loops() for x_, y_ in L_['exits']]
    while stack_:
        b_ = stack_.pop()
        if b_ not in after_loops:
            after_loops.add(b_)
            stack_.extend(f.succs(b_))
    d0 = f.defs().get(0, [])
    early = [d_ for d_ in d0 if d_[0] not in after_loops and d_[0] not in loop_blocks]
    if early and loop_blocks:
        for d_ in early:
            rels_ = G.relations(f, R, d_[0])
            is_len = lambda x_: common.is_call_on(x_, 'StripedSequence::len', ('p', 1)) or norm(x_) == ('fld', ('p', 1), 'length')
            if not (G.holds(rels_, 'eq', is_len, G.is_const(0)) or G.holds(rels_, 'lt', is_len, G.is_const(1)) or G.holds(rels_, 'le', is_len, G.is_const(0)) or
                    any(r_[0] == 'true' and common.is_call_on(r_[1], 'StripedSequence::is_empty', ('p', 1)) for r_ in rels_)):
                return False
        if e is None:
            late = [d_ for d_ in d0 if d_ not in early]
            vals = {repr(norm(R.call(d_[2]) if d_[1] == 'term' else R.rvalue(d_[2]))) for d_ in d0}
            if len(late) == 1 and len(vals) == 1:
                e = R.call(late[0][2]) if late[0][1] == 'term' else R.rvalue(late[0][2])
    if e is not None:
        red = RD.of_expr(C, norm(e))
        if red is not None and red['op'] == 'count':
            cs = [x for x in X.walk(red['term']) if is_cell(x)]
            if cs:
                cells.append(cs[0])
    if not cells and e is not None:
        # count_symbol, loop form: `if index < len && cell == symbol { count += 1 }` with the counter returned
        for l_ in RD.loops_in(db, f, R, C):
            if norm(e) == ('v', l_['local']) and l_['op'] == 'add' and l_['term'] == ('k', 1) and l_['single_exit']:
                guards_at(f, R, l_['block'])
                for rel in loop_filters:
                    if rel[0] == 'eq':
                        cells.extend(x for x in rel[1:3] if is_cell(x))
    cells = [c_ for c_ in cells if is_cell(c_)]
    if len(cells) != 1:
        return False
    cell = cells[0]
    pi, pj = cell[1][2], cell[2]
    ei, ej = C.extents.get(pi[1]), C.extents.get(pj[1])
    rows_ok = bool(ei) and any(c_[0] == 'sub' and c_[2] == ('k', 0) and X.lin_eq(c_[1], Rrows) for c_ in ei) and \
        all((c_[0] == 'sub' and c_[2] == ('k', 0) and X.lin_eq(c_[1], Rrows)) or c_ == ('rows', data) for c_ in ei)
    cols_ok = ej in ([('len', ('at', data, pi))],) or (bool(ej) and len(ej) == 1 and ej[0][0] == 'sub' and ej[0][2] == ('k', 0) and
                                                        (common.is_usize_const(ej[0][1], 'C') or common.is_call_on(ej[0][1], 'DenseMatrix::columns', data)))
    if not (rows_ok and cols_ok):
        return False
    want = ('bin', 'Add', ('bin', 'Mul', pj, Rrows), pi)
    for rel in loop_filters:
        if rel[0] == 'lt' and X.lin_eq(rel[1], want) and (common.is_call_on(rel[2], 'StripedSequence::len', ('p', 1)) or norm(rel[2]) == ('fld', ('p', 1), 'length')):
            return True
    for L, conds in C.filters.items():
        for cnd in conds:
            alts = G.expr_alternatives(cnd, True)
            if len(alts) != 1:
                continue
            for rel in alts[0]:
                if rel[0] == 'lt' and X.lin_eq(C.canon(rel[1]), want) and (common.is_call_on(rel[2], 'StripedSequence::len', ('p', 1)) or norm(rel[2]) == ('fld', ('p', 1), 'length')):
                    return True
    return False


def r15(db, ctx):
    ctx.rule('R1.5', 'dispatcher arms: the arm for backend V calls V\'s implementation of the operation being dispatched; other variants fall back to the generic one')
    n = 0
    fs = [f for f in db.fns.values() if f.path.startswith('lightmotif::pli::dispatch::<impl ') and f.kind == 'AssocFn' and not f.promoted_of]
    opmap = {'encode_into': ('encode_into',), 'score_rows_into': ('score_f32_rows_into', 'score_u8_rows_into_shuffle', 'score_u8_rows_into', 'score_rows_into'), 'stripe_into': ('stripe_into',),
             'argmax': ('argmax_f32', 'argmax_u8', 'argmax'), 'max': ('max_f32', 'max_u8', 'max')}
    disp = db.adts.get('lightmotif::pli::dispatch::Dispatch')
    vnames = {int(v['discr']): v['name'] for v in disp['variants']} if disp else {}
    for f in fs:
        R = X.Rec(f)
        op = f.name
        elem = 'u8' if 'Score<u8' in f.path or 'Maximum<u8' in f.path else 'f32'
        arms = 0
        per_arm = {}
        for bi, t in f.calls():
            c = f.callee_short(t) or ''
            if not (c.startswith('lightmotif::pli::platform::') or c.startswith('lightmotif::pli::')) or c.endswith('as_ref'):
                continue
            rels = G.relations(f, R, bi)
            sw = [r for r in rels if r[0] == 'switch' and 'backend' in X.canon(r[1])]
            if not sw:
                continue
            arms += 1
            cons = sw[0][2]
            per_arm.setdefault(repr(cons), []).append((c, t))
            callee_owner = c.split('::')[-2] if c.startswith('lightmotif::pli::platform::') else 'trait:' + c.rsplit('::', 2)[-2]
            meth = c.rsplit('::', 1)[-1]
            full_ = t.get('callee_full') or t.get('resolved_full') or ''
            if cons[0] == 'eq' and meth == op and 'Generic' in full_ and not c.startswith('lightmotif::pli::platform::'):
                pass        # an explicit arm that uses the generic implementation: what the fallback arm does for that variant
            elif cons[0] == 'eq':
                v = vnames.get(cons[1], '?')
                if callee_owner != v:
                    ctx.fail('R1.5', f, f'{op}: arm {v}', f'arm for Dispatch::{v} calls {c}', span=t['span'])
                    continue
                if meth not in opmap.get(op, ()) or (elem == 'u8' and 'f32' in meth) or (elem == 'f32' and 'u8' in meth):
                    ctx.fail('R1.5', f, f'{op}: arm {v}', f'arm for Dispatch::{v} of {op}<{elem}> calls {meth}', span=t['span'])
                    continue
            else:
                full = t.get('callee_full') or t.get('resolved_full') or ''
                if not (meth == op and 'Generic' in full):
                    ctx.fail('R1.5', f, f'{op}: fallback arm', f'fallback arm calls {full[:120]} instead of the generic {op}', span=t['span'])
                    continue
            n += 1
            ctx.ok('R1.5', f, f'{op}<{elem}>: arm {cons} -> {c.rsplit("::", 2)[-2]}::{meth}')
        # one arm, one implementation: an arm that hands part of the input to one backend and the rest to another (head to AVX2, tail to the
        # generic code) changes what is observed when both parts matter — which invalid byte an encoder reports first (seed C05-11)
        for ck, cl in per_arm.items():
            owners = {c_.split('::')[-2] if c_.startswith('lightmotif::pli::platform::') else 'generic' for c_, _ in cl}
            if len(owners) > 1:
                ctx.fail('R1.5', f, f'{op}: arm {ck} split', f'the arm calls implementations of several backends ({sorted(owners)}): the operation is split between them, '
                         'so results that depend on the whole input (the first offending symbol, the order of stores) are no longer those of one backend', span=cl[0][1]['span'])
        # completeness: the accelerated arms confirmed by reading dispatch.rs — a backend the dispatcher can select must not fall through to the
        # generic arm for an operation it implements (seed C08-9: a narrowed cfg compiled the AVX2 arm of the 8-bit scoring out on x86-64,
        # leaving the non-saturating generic kernel — the recorded finding D7 — as what the scanner runs)
        WANT = {('encode_into', 'f32'): {'Avx2'}, ('score_rows_into', 'f32'): {'Avx2', 'Sse2'}, ('score_rows_into', 'u8'): {'Avx2'}, ('stripe_into', 'f32'): {'Avx2'},
                ('argmax', 'f32'): {'Avx2', 'Sse2'}, ('max', 'f32'): {'Avx2'}, ('argmax', 'u8'): {'Avx2'}, ('max', 'u8'): {'Avx2'}}
        have = set()
        for bi, t in f.calls():
            c = f.callee_short(t) or ''
            if c.startswith('lightmotif::pli::platform::'):
                for r in G.relations(f, R, bi):
                    if r[0] == 'switch' and 'backend' in X.canon(r[1]) and r[2][0] == 'eq':
                        have.add(vnames.get(r[2][1], '?'))
        missing = {v for v in WANT.get((op, elem), set()) if v in vnames.values()} - have
        for v in sorted(missing):
            ctx.fail('R1.5', f, f'{op}<{elem}>: arm {v} missing', f'the dispatcher has no arm for Dispatch::{v} in {op}<{elem}> on this target although {v} implements it: '
                     f'a pipeline that selected {v} runs the generic implementation of this operation')
        if arms == 0:
            # a target without an accelerated arm for this operation: the body must be the unconditional generic fallback
            ws = [(bi, t) for bi, t in f.calls() if (f.callee_short(t) or '').startswith('lightmotif::pli::') and not (f.callee_short(t) or '').endswith('as_ref')]
            fulls = [(t.get('callee_full') or t.get('resolved_full') or '') for _, t in ws]
            if len(ws) == 1 and (f.callee_short(ws[0][1]) or '').rsplit('::', 1)[-1] == op and 'Generic' in fulls[0]:
                n += 1
                ctx.ok('R1.5', f, f'{op}<{elem}>: no accelerated arm on this target, unconditional generic fallback')
            else:
                ctx.fail('R1.5', f, f'{op}', 'reason=unrecognised-shape: no call under a match on self.backend')
    # every operation the backends accelerate has its dispatching method: a dropped override falls back to the trait default (for `max`:
    # argmax + lookup, which has the 65536-row limit of the 16-bit row lanes — seed C02-10)
    if 'Avx2' in vnames.values():
        present = set()
        for f in fs:
            present.add((f.name, 'u8' if 'Score<u8' in f.path or 'Maximum<u8' in f.path else 'f32'))
        for key in [('encode_into', 'f32'), ('score_rows_into', 'f32'), ('score_rows_into', 'u8'), ('stripe_into', 'f32'), ('argmax', 'f32'), ('max', 'f32'), ('argmax', 'u8'), ('max', 'u8')]:
            if key not in present:
                ctx.fail('R1.5', 'lightmotif::pli::dispatch', f'{key[0]}<{key[1]}>: dispatching method missing',
                         f'Pipeline<_, Dispatch> no longer overrides {key[0]} for {key[1]}: the trait default runs instead of the backend implementation')
    ctx.floor('R1.5', n, 16, 'dispatcher arms')


def r16(db, ctx):
    ctx.rule('R1.6', 'score_position: Σ over all rows j of the matrix, from zero, of row_j[seq[pos + j].as_index()] (ScoringMatrix and DiscreteMatrix are siblings; '
                     'loop, counter loop, fold and map/sum spellings are one canonical reduction)')
    from . import reductions as RX
    data = ('fld', ('p', 1), 'data')
    for owner in ('ScoringMatrix', 'DiscreteMatrix'):
        f = db.fn(f'lightmotif::pwm::{owner}::score_position')
        r, why = RX.returned_reduction(db, f)
        if r is None:
            ctx.fail('R1.6', f, f'{owner}::score_position', f'reason=unrecognised-shape: {why}')
            continue
        red, C = r
        probs = []
        if red['op'] not in ('add', 'sat_add'):
            probs.append(f'the reduction is {red["op"]}, expected a sum')
        if norm(red['init']) not in (('k', 0), ('k', 0.0)):
            probs.append(f'the sum starts from {X.show(red["init"], 40)}, expected zero')
        if not RX.extent_is_rows(red['extents'], data):
            probs.append(f'the sum runs over {red["extents"]}, expected every row of self.data')
        t, pos = red['term'], ('pos', red['L'])
        okt = t[0] == 'at' and t[1] == ('at', data, pos) and t[2][0] == 'call' and t[2][1].endswith('as_index') and len(t[2][2]) == 1
        if okt:
            sym = t[2][2][0]
            okt = sym[0] == 'at' and norm(sym[1]) == ('p', 2) and X.lin_eq(sym[2], ('bin', 'Add', ('p', 3), pos))
        if not okt:
            probs.append(f'accumulated term is {X.show(t, 140)}, expected row_j[seq[pos + j].as_index()]')
        (ctx.ok if not probs else ctx.fail)('R1.6', f, f'{owner}::score_position = Σ_j row_j[seq[pos + j].as_index()]', *([[red['how']]] if not probs else ['; '.join(probs)]))


def r17(db, ctx):
    ctx.rule('R1.7', 'Score::score_into (behind Pipeline::score, ScoringMatrix::score and the Python calculate) scores rows 0 .. rows - wrap of the scored sequence: '
                     'position i is cell (i mod R, i div R) with R the number of sequence rows, so a range derived from anything else shifts every position past the first column (shared with R6.3)')
    from . import C06
    C06.score_into_range(db, ctx, 'R1.7')


def r110(db, ctx):
    ctx.rule('R1.10', 'reading scores back: scores::Iter::next / next_back yield get(i) for the index the wrapped range yields (len is the range length), '
                      'unstripe and Vec::from(StripedScores) collect iter() in order, to_striped stripes the whole sequence')
    from lm import reduce as RD
    n = 0

    def ret(f):
        e = common.return_expr_single_path_allow(f)
        return norm(e) if e is not None else None
    IT = '<lightmotif::scores::Iter<'
    for name, range_call in (('next', 'range::next'), ('next_back', 'range::next_back')):
        fs = [f for f in db.fns.values() if f.path.startswith(IT) and f.name == name and f.kind == 'AssocFn' and not f.promoted_of]
        for f in fs:
            e = ret(f)
            RNG = ('call~', (range_call, 'Iterator::' + name if name == 'next' else 'DoubleEndedIterator::next_back'), (('fld', ('p', 1), 'indices'),))
            mm = m(('call~', 'Option::map', (RNG, '$clo')), e) if e else None
            out = RD.apply_fn(db, mm['$clo'], [('sym', 'i')]) if mm is not None else None
            ok = out is not None and m(('call~', 'Iter::get', (('p', 1), ('sym', 'i'))), norm(out)) is not None
            if not ok:
                # `let i = self.indices.next()?; Some(self.get(i))`  |  match self.indices.next() { Some(i) => Some(self.get(i)), None => None }
                Rf = X.Rec(f)
                kinds = set()
                for d_ in f.defs().get(0, []):
                    v = norm(Rf.call(d_[2]) if d_[1] == 'term' else Rf.rvalue(d_[2]))
                    if v[0] == 'agg' and isinstance(v[1], tuple) and len(v[1]) > 2 and v[1][2] == 'None':
                        kinds.add('none')
                    elif m(('call~', 'from_residual', '_'), v) is not None:
                        kinds.add('none')
                    elif v[0] == 'agg' and len(v[2]) == 1 and (m(('call~', 'Iter::get', (('p', 1), ('fld', ('down', RNG, 'Some'), '0'))), v[2][0]) is not None or
                                                                 m(('call~', 'Iter::get', (('p', 1), ('fld', ('down', ('call~', 'Try::branch', (RNG,)), 'Continue'), '0'))), v[2][0]) is not None):
                        kinds.add('some')
                    else:
                        kinds.add('other')
                ok = kinds == {'none', 'some'}
            if ok:
                n += 1
                ctx.ok('R1.10', f, f'{name}() = indices.{name}().map(|i| self.get(i))')
            else:
                ctx.fail('R1.10', f, f'scores::Iter::{name}', f'{name}() is {X.show(e, 120) if e else None}: not get(i) for the index i that indices.{name}() yields')
    for f in [f for f in db.fns.values() if f.path.startswith(IT) and f.name == 'len' and f.kind == 'AssocFn' and not f.promoted_of]:
        e = ret(f)
        if e is not None and m(('call~', 'ExactSizeIterator::len', (('fld', ('p', 1), 'indices'),)), e) is not None:
            n += 1
            ctx.ok('R1.10', f, 'len() = indices.len()')
        else:
            ctx.fail('R1.10', f, 'scores::Iter::len', f'len() is {X.show(e, 100) if e else None}, not indices.len()')
    coll = ('call~', ('Iterator::collect', 'FromIterator::from_iter'), (('call~', ('Iterator::cloned', 'Iterator::copied'), (('call~', 'StripedScores::iter', (('p', 1),)),)),))
    for f in [f for f in db.fns.values() if (f.path.endswith('StripedScores::<T, C>::unstripe') or 'From<lightmotif::scores::StripedScores<T, C>> for alloc::vec::Vec<T>>::from' in f.path)
              and not f.promoted_of and f.kind in ('AssocFn', 'Fn')]:
        e = ret(f)
        # possibly through the sibling (`self.unstripe().into()`), or wrapped in the Scores constructor
        while e is not None and e[0] == 'call' and len(e[2]) == 1 and e[1].endswith(('Scores::new', 'Scores::from', 'From::from', 'Into::into', 'Vec::from', 'scores::from')):
            e = e[2][0]
        via_sibling = e is not None and m(('call~', 'StripedScores::unstripe', (('p', 1),)), e) is not None and not f.path.endswith('::unstripe')
        if e is not None and (m(coll, e) is not None or via_sibling):
            n += 1
            ctx.ok('R1.10', f, 'collects self.iter() in order')
        else:
            ctx.fail('R1.10', f, 'scores -> Vec', f'result is {X.show(e, 120) if e else None}, not self.iter().cloned().collect()')
    for f in [f for f in db.fns.values() if f.path.endswith('EncodedSequence::<A>::to_striped') and not f.promoted_of]:
        if common.forwards(db, ctx, 'R1.10', f, ['Stripe::stripe'], {1: ('fld', ('p', 1), 'data')}, 'to_striped -> Pipeline::dispatch().stripe(&self.data)'):
            n += 1
    for f in [f for f in db.fns.values() if 'StripedSequence<A, C> as core::convert::From<lightmotif::seq::EncodedSequence<A>>>::from' in f.path and not f.promoted_of]:
        if common.forwards(db, ctx, 'R1.10', f, ['EncodedSequence::to_striped'], {0: ('p', 1)}, 'From<EncodedSequence> -> to_striped'):
            n += 1
    ctx.floor('R1.10', n, 7, 'score read-back / conversion wrappers')


def r111(db, ctx):
    ctx.rule('R1.11', 'StripedScores::resize(rows, max_index) resizes the matrix to `rows` rows and stores `max_index` unchanged: the scanner scores one '
                      'block of rows at a time while max_index stays the number of valid positions of the whole sequence')
    fs = [f for f in db.fns.values() if f.path.startswith('lightmotif::scores::StripedScores::') and f.name == 'resize' and f.kind == 'AssocFn' and not f.promoted_of]
    if len(fs) != 1:
        ctx.fail('R1.11', 'lightmotif::scores::StripedScores::resize', 'anchor', f'reason=anchor-missing: {len(fs)} bodies')
        return
    f = fs[0]
    R = X.Rec(f)
    probs = []
    sts = [s_ for s_ in X.stores(f, R) if norm(s_['target']) == ('fld', ('p', 1), 'max_index')]
    if len(sts) != 1 or norm(sts[0]['value']) != ('p', 3):
        probs.append('self.max_index is assigned ' + (X.show(norm(sts[0]['value']), 80) if len(sts) == 1 else f'{len(sts)} times') + ', expected the max_index argument as given')
    rs = [(bi, t) for bi, t in f.calls() if (f.callee_short(t) or '').endswith('DenseMatrix::resize')]
    if len(rs) != 1 or norm(R.at(rs[0][0]).operand(rs[0][1]['args'][1])) != ('p', 2) or X.strip_refs(norm(R.at(rs[0][0]).operand(rs[0][1]['args'][0]))) != ('fld', ('p', 1), 'data') \
            or not all(f.dominates(rs[0][0], x_) for x_ in f.exits()):
        probs.append('the matrix is not resized to exactly `rows` rows on every path')
    if probs:
        ctx.fail('R1.11', f, 'StripedScores::resize', '; '.join(probs))
    else:
        ctx.ok('R1.11', f, 'data.resize(rows); max_index = max_index', ['both arguments stored as given'])


def kernel_rules(db, ctx):
    ctx.rule('R1.1', 'lane semantics of each scoring kernel: stored cell (r, c) = Σ_{j < rows(pssm)} T_j[seq(rows.start + r + j, c)]; accumulators start at the additive identity; '
                     'table / sequence / result pointers advance in lock-step by their own strides; every column stored exactly once')
    total = 0
    for path, eo, et, op in KERNELS:
        total += check_score_kernel(db, ctx, path, eo, et, op)
    r11_generic(db, ctx)
    ctx.floor('R1.1', total, 32 * 3 + 16, 'stored lanes verified across the SIMD scoring kernels')


def run(db, ctx):
    kernel_rules(db, ctx)
    r110(db, ctx)
    r111(db, ctx)
    r12(db, ctx)
    r13(db, ctx)
    r14(db, ctx)
    r15(db, ctx)
    r16(db, ctx)
    r17(db, ctx)
    # every kernel reads rows r .. r + M - 1 of the striped matrix for result row r, the last M - 1 of them in the look-ahead rows: those must
    # be the right copies (cell (R + i, j) = cell (i, j + 1)), and rows() - wrap must stay the number of sequence rows (seeds C01-1, C01-3)
    from . import C04
    common.shared_rule(db, ctx, C04.lookahead_rules, 'R1.8', 'the look-ahead rows the kernels read past the last sequence row are what configure_wrap put there: '
                       'R = rows - wrap before resizing, resize to rows + m - wrap, cell(R+i, j) := cell(i, j+1), last column default, wrap := m; configure(motif) = configure_wrap(len - 1) for every non-empty motif (shared with R4.5 / R4.8)', ['R4.5', 'R4.8'])
    # the kernels score the striped matrix: cell (i mod R, i div R) must hold symbol i of the sequence, on every backend (seed C01-7 swapped two
    # rows of the AVX2 transposition: every score window covering them is the score of another sequence)
    common.shared_rule(db, ctx, C04.stripe_rules, 'R1.9', 'the striped matrix the kernels read is the sequence: AVX2 transposition lanes, block bookkeeping, scalar tail '
                       'and fill, generic placement, R = ceil(len / C) (shared with R4.1 - R4.4)', ['R4.1', 'R4.2', 'R4.3', 'R4.4'])
