"""E4 — finite-table extraction: fold the SwitchInt decision tree of a loop-free function into an
explicit table (constraint on the scrutinee -> returned expression).  Exhaustive over the finite
domain; anything that is not a pure decision tree makes the function 'not tabulable' (fail closed)."""
from .expr import const_value, field, deref, ref, short


class NotTabulable(Exception):
    pass


def _operand(env, fn, o):
    if 'c' in o or 'm' in o:
        return _place(env, fn, o.get('c') or o.get('m'))
    if 'k' in o:
        k = o['k']
        v = const_value(k)
        if v is not None:
            return ('k', v, k.get('ty'))
        if 'promoted' in k:
            return ('promoted', k['uneval'], k['promoted'])
        if 'fn' in k:
            return ('fnitem', short(k['fn']))
        return ('kc', k.get('text'), k.get('ty'))
    return ('?',)


def _place(env, fn, p):
    l = p['l']
    e = env.get(l)
    if e is None:
        e = ('p', l) if 1 <= l <= fn.arg_count else ('v', l)
    for pr in p['pr']:
        if pr == '*':
            e = deref(e)
        elif 'f' in pr:
            e = field(e, pr.get('n', str(pr['f'])), pr['f'])
        elif 'variant' in pr:
            e = ('down', e, pr.get('vn', str(pr['variant'])))
        elif 'idx' in pr:
            e = ('idx', e, env.get(pr['idx'], ('v', pr['idx'])))
        elif 'cidx' in pr:
            e = ('idx', e, ('k', pr['cidx'], 'usize'))
        else:
            e = ('proj?', e)
    return e


def _rvalue(env, fn, rv):
    k = rv['k']
    if k == 'use':
        return _operand(env, fn, rv['a'])
    if k in ('ref', 'rawptr'):
        return ref(_place(env, fn, rv['p']))
    if k == 'cast':
        return ('cast', _operand(env, fn, rv['a']), rv['ty'], rv['ck'])
    if k == 'discr':
        return ('discr', _place(env, fn, rv['p']))
    if k == 'agg':
        tag = rv.get('ak')
        if tag == 'adt':
            tag = ('adt', short(rv['adt']), rv['variant'], tuple(rv.get('fields', [])))
        return ('agg', tag, tuple(_operand(env, fn, o) for o in rv['ops']))
    if k == 'bin':
        return ('bin', rv['op'], _operand(env, fn, rv['a']), _operand(env, fn, rv['b']))
    if k == 'un':
        return ('un', rv['op'], _operand(env, fn, rv['a']))
    if k == 'repeat':
        return ('repeat', _operand(env, fn, rv['a']), rv['n'])
    return ('?', k)


def decision_table(fn, allow_calls=(), max_paths=4096):
    """Return list of (constraints, result_expr).  constraints: list of (scrutinee_expr, ('eq', v) | ('notin', [vs])).
    Raises NotTabulable on loops, or on calls not in allow_calls."""
    if fn.loops():
        raise NotTabulable(f'{fn.path}: has a loop')
    out = []
    stack = [(0, {}, [])]
    while stack:
        b, env, cons = stack.pop()
        env = dict(env)
        blk = fn.blocks[b]
        for st in blk['stmts']:
            if st['k'] == 'assign':
                p = st['p']
                v = _rvalue(env, fn, st['rv'])
                if not p['pr']:
                    env[p['l']] = v
                else:
                    env[p['l']] = ('partial', env.get(p['l']), str(p['pr']), v)
        t = blk['term']
        k = t['k']
        if k == 'return':
            out.append((cons, env.get(0, ('v', 0))))
            if len(out) > max_paths:
                raise NotTabulable(f'{fn.path}: too many paths')
        elif k == 'goto':
            stack.append((t['target'], env, cons))
        elif k == 'switch':
            d = _operand(env, fn, t['discr'])
            vals = []
            for v, tgt in t['arms']:
                iv = int(v)
                vals.append(iv)
                stack.append((tgt, env, cons + [(d, ('eq', iv))]))
            stack.append((t['otherwise'], env, cons + [(d, ('notin', vals))]))
        elif k == 'call':
            c = short(t.get('resolved') or t.get('callee') or '')
            if not any(c.endswith(a) for a in allow_calls):
                raise NotTabulable(f'{fn.path}: call to {c}')
            args = tuple(_operand(env, fn, a) for a in t['args'])
            p = t['dest']
            env[p['l']] = ('call', c, args)
            if 'target' in t:
                stack.append((t['target'], env, cons))
        elif k in ('drop', 'assert'):
            if k == 'assert':
                raise NotTabulable(f'{fn.path}: assert terminator')
            stack.append((t['target'], env, cons))
        elif k == 'unreachable':
            pass
        else:
            raise NotTabulable(f'{fn.path}: terminator {k}')
    return out


def enum_variant(e):
    """('agg', ('adt', path, variant, fields), ops) -> (path, variant, ops) else None."""
    if e and e[0] == 'agg' and isinstance(e[1], tuple) and e[1][0] == 'adt':
        return e[1][1], e[1][2], e[2]
    return None


def fold_over_domain(table, scrutinee_pred, domain):
    """Turn a decision table whose constraints all test one scrutinee into {value: result}.
    scrutinee_pred(expr) must accept the tested expression; otherwise NotTabulable."""
    res = {}
    for v in domain:
        hit = None
        for cons, r in table:
            ok = True
            for d, c in cons:
                if not scrutinee_pred(d):
                    raise NotTabulable(f'switch on unexpected scrutinee {d}')
                if c[0] == 'eq':
                    ok = ok and (v == c[1])
                else:
                    ok = ok and (v not in c[1])
                if not ok:
                    break
            if ok:
                if hit is not None:
                    raise NotTabulable(f'ambiguous table for value {v}')
                hit = r
        if hit is None:
            res[v] = None  # unreachable!() arm or no path: no result
        else:
            res[v] = hit
    return res


def promoted_array(db, owner_path, idx):
    """Read the array aggregate built by a promoted constant body: returns list of element exprs."""
    f = db.fns.get(f'{owner_path}::promoted[{idx}]')
    if f is None:
        raise NotTabulable(f'no promoted[{idx}] for {owner_path}')
    env = {}
    for blk in f.blocks:
        for st in blk['stmts']:
            if st['k'] == 'assign' and not st['p']['pr']:
                env[st['p']['l']] = _rvalue(env, f, st['rv'])
    r = env.get(0)
    while r and r[0] in ('ref', 'deref', 'cast'):
        r = r[1]
    if r and r[0] == 'agg' and r[1] == 'array':
        return list(r[2])
    # `&SYMBOLS` with `const SYMBOLS: [T; N] = [..]`: the promoted body only names the constant; read the constant's own initialiser
    for blk in f.blocks:
        for st in blk['stmts']:
            un = ((st.get('rv') or {}).get('a') or {}).get('k', {}).get('uneval') if st['k'] == 'assign' and st['rv']['k'] == 'use' else None
            g = db.fns.get(un) if un else None
            if g is not None:
                env2 = {}
                for blk2 in g.blocks:
                    for st2 in blk2['stmts']:
                        if st2['k'] == 'assign' and not st2['p']['pr']:
                            env2[st2['p']['l']] = _rvalue(env2, g, st2['rv'])
                r2 = env2.get(0)
                while r2 and r2[0] in ('ref', 'deref', 'cast'):
                    r2 = r2[1]
                if r2 and r2[0] == 'agg' and r2[1] == 'array':
                    return list(r2[2])
    raise NotTabulable(f'promoted[{idx}] of {owner_path} is not an array aggregate: {r}')
