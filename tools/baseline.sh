#!/bin/sh
# Run the repository test suite (guard off) and report failures other than the 4 baseline always-fail tests.
cd /repo && cargo test --workspace --no-fail-fast --offline 2>&1 | grep -E "^test .* \.\.\. (FAILED|failed)" | grep -vE "argmax_f32|scanner_max" ; 
n=$(cd /repo && cargo test --workspace --no-fail-fast --offline 2>&1 | grep -cE "^test .* \.\.\. ok")
echo "tests ok: $n (unit+integration+doc); unexpected failures listed above (none = good)"
