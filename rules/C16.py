"""C16 — Gibbs sampler state always equals a recomputation from its alignment (structural inductive argument)."""
from lm.db import short
from lm import expr as X, guards as G
from lm.match import norm, m
from . import common

LEVEL_NOTE = ('decides (part): include/exclude are exact inverses on the same cells under complementary guards; initialisation applies the include '
              'summary to zeroed state for every active sequence; state is written only by these functions (+ starts[z] in update_holdout while z is excluded); '
              'call order exclude -> pssm -> sample -> include with one z; the yielded counts/pssm are those computed without z; start ranges keep windows '
              'inside sequences; randomness only from the caller\'s RNG. Not decided: statistics, arithmetic inside to_freq / into_scoring.')

S = 'lightmotif::sampler::Sampler'


def effects(f, R, CA=None):
    """Relational summary of the count updates of one function, independent of the loop form (index loops, enumerate, zipped iterators):
    every `x op= y` store is put in the canonical element form of lm/iteralg.py first."""
    from lm import iteralg
    out = []
    CA = CA if CA is not None else iteralg.Canon(f, R)
    for s in X.stores(f, R):
        tg0, v0 = norm(s['target']), norm(s['value'])
        if not (v0[0] == 'bin' and v0[1] in ('Add', 'Sub') and v0[2] == tg0):
            continue
        op = '+' if v0[1] == 'Add' else '-'
        tg, rhs = CA.canon(tg0), CA.canon(v0[3])
        base = {'op': op, 'block': s['block'], 'span': s['span']}
        # motif[(i, idx(seq[lo + i]))] op= 1   for i in 0..hi-lo
        b = m(('at', '$arr', ('call~', 'MatrixCoordinates::new', ('$i', ('call~', 'as_index', (('at', '$seq', '$j'),))))), tg)
        if b is None:
            # the same cell written as motif[i][idx(..)] (indexing by MatrixCoordinates is normalised to two-level indexing)
            b = m(('at', ('at', '$arr', '$i'), ('call~', 'as_index', (('at', '$seq', '$j'),))), tg)
        if b is not None and rhs == ('k', 1) and iteralg.is_pos(b['$i']):
            L = b['$i'][1]
            ext = CA.extents.get(L, [])
            lj = X.lin(b['$j'])
            pos_atom = X.canon(b['$i'])
            if len(ext) == 1 and ext[0][0] == 'sub' and lj.get(pos_atom) == 1:
                lo = ext[0][2]
                rest = {k: v for k, v in lj.items() if k != pos_atom}
                if rest == X.lin(lo) or (not rest and lo == ('k', 0)):
                    out.append(dict(base, kind='motif-window', arr=b['$arr'], lo=lo, hi=ext[0][1], seq=b['$seq']))
                    continue
        # bg[s] op= counts[s]   for every symbol index s
        b = m(('at', '$arr', '$i'), tg)
        c = m(('at', '$counts', '$i2'), rhs)
        if b is not None and c is not None and iteralg.is_pos(b['$i']) and b['$i'] == c['$i2']:
            ext = CA.extents.get(b['$i'][1], [])

            def full(comp):
                if comp[0] == 'sub' and comp[2] == ('k', 0) and common.is_usize_const(comp[1], 'K'):
                    return True
                # a zip over the whole arrays: both are GenericArray<_, K>, so the shorter one still has K elements
                return comp[0] == 'len' and comp[1] in (b['$arr'], c['$counts'])
            rng = ext[0][1] if len(ext) == 1 and ext[0][0] == 'sub' else ('k', '?')
            out.append(dict(base, kind='bg-all', arr=b['$arr'], counts=c['$counts'], range_full=bool(ext) and all(full(x) for x in ext), range=rng))
            continue
        # bg[idx(seq[j])] op= 1   for j in lo..hi
        b = m(('at', '$arr', ('call~', 'as_index', (('at', '$seq', '$j'),))), tg)
        if b is not None and rhs == ('k', 1):
            lj = X.lin(b['$j'])
            done = False
            for px in [x for x in X.walk(b['$j']) if iteralg.is_pos(x)]:
                ext = CA.extents.get(px[1], [])
                pos_atom = X.canon(px)
                if len(ext) == 1 and ext[0][0] == 'sub' and lj.get(pos_atom) == 1:
                    lo = ext[0][2]
                    rest = {k: v for k, v in lj.items() if k != pos_atom}
                    if rest == X.lin(lo) or (not rest and lo == ('k', 0)):
                        out.append(dict(base, kind='bg-window', arr=b['$arr'], lo=lo, hi=ext[0][1], seq=b['$seq']))
                        done = True
                        break
            if done:
                continue
        out.append(dict(base, kind='other', target=tg0))
    return out


def window_ok(e, z_pred, starts_pred=None, width_pred=None):
    """lo = starts[z], hi = lo + width (canonical element forms of lm/iteralg.py)."""
    lo, hi = e['lo'], e['hi']
    b = m(('at', '$starts', '$z'), lo)
    starts_pred = starts_pred or (lambda x: m(('fld', ('p', 1), 'starts'), x) is not None)
    if b is None or not z_pred(b['$z']) or not starts_pred(b['$starts']):
        return False
    h = m(('bin', 'Add', lo, '$w'), hi)
    width_pred = width_pred or (lambda x: m(('fld', ('p', 1), 'width'), x) is not None)
    return h is not None and width_pred(h['$w'])


def r161(db, ctx):
    ctx.rule('R16.1', 'include_sequence and exclude_sequence update exactly the same cells with opposite signs under complementary guards (set / unset)')
    inc, exc = db.fn(f'{S}::include_sequence'), db.fn(f'{S}::exclude_sequence')
    sums = {}
    for f, want_op, setter, guard_truth in ((inc, {'motif-window': '+', 'bg-all': '+', 'bg-window': '-'}, 'BitVec::set', 'false'),
                                            (exc, {'motif-window': '-', 'bg-all': '-', 'bg-window': '+'}, 'BitVec::unset', 'true')):
        R = X.Rec(f)
        ef = effects(f, R)
        probs = []
        kinds = sorted(e['kind'] for e in ef)
        if kinds != ['bg-all', 'bg-window', 'motif-window']:
            probs.append(f'effects {kinds}: expected one motif-window, one bg-all and one bg-window update')
        is_z = lambda e: e == ('p', 2)
        for e in ef:
            if e['kind'] == 'other':
                probs.append(f'unrecognised update of {X.show(e["target"], 80)}')
                continue
            if e['op'] != want_op.get(e['kind']):
                probs.append(f'{e["kind"]} uses `{e["op"]}=` (expected `{want_op[e["kind"]]}=`)')
            if e['kind'] in ('motif-window', 'bg-window'):
                if not window_ok(e, is_z):
                    probs.append(f'{e["kind"]} window is {X.show(e["lo"], 50)}..{X.show(e["hi"], 60)}, expected starts[z]..starts[z]+width')
                sq = m(('at', '$seqs', ('p', 2)), e['seq'])
                if sq is None or 'sequences' not in X.canon(e['seq']):
                    probs.append(f'{e["kind"]} reads symbols from {X.show(e["seq"], 60)}, expected sequences[z]')
            if e['kind'] == 'bg-all' and not e['range_full']:
                probs.append(f'bg-all loop runs over 0..{X.show(e["range"], 80)}, not over all K symbol indices 0..K::USIZE (some symbol counts never reach the background)')
            if e['kind'] == 'bg-all':
                c = m(('at', '$c', ('p', 2)), e['counts'])
                if c is None or 'counts' not in X.canon(e['counts']):
                    probs.append(f'bg-all adds {X.show(e["counts"], 60)}, expected data.counts[z]')
            arr = X.canon(e['arr'])
            if e['kind'] == 'motif-window' and 'motif' not in arr or e['kind'].startswith('bg') and 'background_counts' not in arr:
                probs.append(f'{e["kind"]} writes {arr}')
            # guard
            rels = G.relations(f, R, e['block'])
            g = [r for r in rels if r[0] in ('true', 'false') and r[1][0] == 'call' and r[1][1].endswith('BitVec::test')]
            if not g or g[0][0] != guard_truth or norm(g[0][1][2][1]) != ('p', 2):
                probs.append(f'{e["kind"]} is not under the guard active.test(z) == {guard_truth == "true"}')
        sets = [(bi, t) for bi, t in f.calls() if (f.callee_short(t) or '').endswith(setter)]
        other_set = [(bi, t) for bi, t in f.calls() if (f.callee_short(t) or '').endswith(('BitVec::set', 'BitVec::unset')) and not (f.callee_short(t) or '').endswith(setter)]
        if len(sets) != 1 or other_set or norm(R.operand(sets[0][1]['args'][1])) != ('p', 2):
            probs.append(f'expected exactly one {setter}(z)')
        if probs:
            ctx.fail('R16.1', f, 'update summary', '; '.join(probs))
        else:
            ctx.ok('R16.1', f, f'{f.name}: motif[(i, σ(seq[start+i]))] {want_op["motif-window"]}= 1; bg[s] {want_op["bg-all"]}= counts[z][s]; bg[σ(seq[j])] {want_op["bg-window"]}= 1; {setter}(z)',
                   ['guard active.test(z) == ' + str(guard_truth == 'true'), 'window starts[z]..starts[z]+width'])
            sums[f.name] = True
    if len(sums) == 2:
        ctx.ok('R16.1', f'{S}::{{include,exclude}}_sequence', 'inverse pair: same cells, opposite signs, complementary guards')


def r162(db, ctx):
    ctx.rule('R16.2', '_new builds the state by applying the include summary to zeroed matrices for every active sequence, with counts from SamplerData::new (count_symbols of the same sequence)')
    f = db.fn(f'{S}::_new')
    R = X.Rec(f)
    ef = effects(f, R)
    probs = []
    # `for (i, seq) in sequences.iter().enumerate().filter(|&(i, _)| active.test(i))`: the guard is a filter stage of the loop's iterator
    from lm import reduce as RD
    RC = RD.RCanon(db, f, R)
    ef_f = None
    if any((f.callee_short(t_) or '').endswith('Iterator::filter') for _, t_ in f.calls()):
        try:
            ef_f = effects(f, R, RC)
        except Exception:
            ef_f = None
        if ef_f is not None and sorted(e_['kind'] for e_ in ef_f) == ['bg-all', 'bg-window', 'motif-window']:
            ef = ef_f
        else:
            ef_f = None
    kinds = sorted(e['kind'] for e in ef)
    if kinds != ['bg-all', 'bg-window', 'motif-window']:
        probs.append(f'effects {kinds}')
    agg = {}
    for blk in f.blocks:
        for st in blk['stmts']:
            if st['k'] == 'assign' and st['rv']['k'] == 'agg' and st['rv'].get('adt', '').endswith('sampler::Sampler'):
                agg = dict(zip(st['rv']['fields'], [norm(R.operand(o)) for o in st['rv']['ops']]))
    is_starts = lambda x: agg.get('starts') is not None and x == agg['starts']
    for e in ef:
        if e['kind'] != 'other' and agg and e['arr'] != agg.get('motif' if e['kind'] == 'motif-window' else 'background_counts'):
            probs.append(f'{e["kind"]} accumulates into a value that is not stored in the sampler state')
    want = {'motif-window': '+', 'bg-all': '+', 'bg-window': '-'}
    for e in ef:
        if e['kind'] == 'other':
            probs.append(f'unrecognised update {X.show(e["target"], 60)}')
            continue
        if e['op'] != want[e['kind']]:
            probs.append(f'{e["kind"]} uses `{e["op"]}=`')
        # loop index i of enumerate(sequences)
        rels = G.relations(f, R, e['block'])
        g = [r for r in rels if r[0] == 'true' and r[1][0] == 'call' and r[1][1].endswith('BitVec::test')]
        from lm import iteralg
        fz = None
        if not g and ef_f is not None:
            # the sequence read (or the counts row) is the element at position L of a loop whose iterator filtered on active.test(position)
            for x_ in X.walk(e['seq'] if e['kind'] != 'bg-all' else e['counts']):
                if iteralg.is_pos(x_) and any(fl_[0] == 'call' and fl_[1].endswith('BitVec::test') and len(fl_[2]) == 2 and fl_[2][1] == x_ for fl_ in RC.filters.get(x_[1], [])):
                    fz = x_
        if not g and fz is None:
            probs.append(f'{e["kind"]} not guarded by active.test(i)')
            continue
        CA = RC if fz is not None else iteralg.Canon(f, R)
        zi = fz if fz is not None else CA.canon(g[0][1][2][1])
        # the guard index is the position in the loop over data.sequences; the i-th sequence is the element at that position
        ext = CA.extents.get(zi[1], []) if iteralg.is_pos(zi) else []
        seqs = [c_[1] for c_ in ext if c_[0] == 'len']
        if not iteralg.is_pos(zi) or len(seqs) != 1 or 'sequences' not in X.canon(seqs[0]):
            probs.append('the guard index is not the position of the loop over data.sequences')
            continue
        if e['kind'] in ('motif-window', 'bg-window'):
            if not window_ok(e, lambda x: x == zi, is_starts, lambda x: agg.get('width') is not None and x == agg['width']):
                probs.append(f'{e["kind"]} window is not starts[i]..starts[i]+width')
            if e['seq'] != ('at', seqs[0], zi):
                probs.append(f'{e["kind"]} reads symbols from {X.show(e["seq"], 60)}, not the i-th sequence')
        else:
            if not e['range_full']:
                probs.append(f'bg-all loop runs over 0..{X.show(e["range"], 80)}, not over all K symbol indices')
            c = m(('at', '$c', zi), e['counts'])
            if c is None or 'counts' not in X.canon(e['counts']):
                probs.append('bg-all does not add data.counts[i]')
        # zeroed start
        arr = e['arr']
        if arr[0] == 'v':
            ds = f.defs().get(arr[1], [])
            init = [norm(R.call(x) if si == 'term' else R.rvalue(x)) for bi, si, x in ds]
            if not any(i[0] == 'call' and (i[1].endswith('DenseMatrix::new') or i[1].endswith('::default')) for i in init):
                probs.append(f'{e["kind"]}: accumulator is not zero-initialised')
    # counts come from count_symbols
    g = db.fn('lightmotif::sampler::SamplerData::new')
    clos = db.closures_of(g)
    ok_counts = any('SymbolCount::count_symbols' in X.canon(norm(common.return_expr_single_path_allow(c))) and
                    norm(common.return_expr_single_path_allow(c))[2][0] == ('p', 2) for c in clos if common.return_expr_single_path_allow(c) is not None)
    if not ok_counts:
        # loop form: for seq in sequences.iter() { counts.push(seq.count_symbols()) } — one count vector per sequence, in order
        Rg = X.Rec(g)
        for bi, t in g.calls():
            if (g.callee_short(t) or '').endswith('Vec::push'):
                v = norm(Rg.operand(t['args'][1]))
                mm_ = m(('call~', 'SymbolCount::count_symbols', ('$s',)), v)
                if mm_ is not None and mm_['$s'][0] == 'elem' and 'sequences' in X.canon(mm_['$s'][1]) or \
                        (mm_ is not None and mm_['$s'][0] == 'elem' and any(x == ('p', 1) for x in X.walk(mm_['$s'][1]))):
                    src = mm_['$s'][1]
                    if not any(x[0] == 'call' and x[1].rsplit('::', 1)[-1] in ('take', 'skip', 'step_by', 'filter', 'rev') for x in X.walk(src)):
                        ok_counts = True
    if not ok_counts:
        probs.append('SamplerData::new does not fill counts with count_symbols(seq) per sequence')
    if probs:
        ctx.fail('R16.2', f, 'initial state', '; '.join(probs))
    else:
        ctx.ok('R16.2', f, 'initial motif / background = Σ over active i of the include summary on zeroed state', ['DenseMatrix::new / Default', 'counts[i] = count_symbols(sequences[i])'])


STATE = ('motif', 'background_counts', 'active', 'starts')


def root_field(tg):
    """Field of self that a store target is rooted in (through indexing / index_mut / deref)."""
    e = tg
    for _ in range(12):
        if e[0] in ('idx', 'at'):
            e = e[1]
        elif e[0] == 'call' and e[2] and (e[1].endswith(('index_mut', 'deref_mut', 'as_mut', 'as_mut_slice'))):
            e = e[2][0]
        elif e[0] == 'fld' and e[1] == ('p', 1):
            return e[2]
        elif e[0] == 'fld':
            e = e[1]
        else:
            return None
    return None


def r163(db, ctx):
    ctx.rule('R16.3', 'motif / background_counts / active / starts are written only by _new, include_sequence, exclude_sequence and (starts[z]) update_holdout')
    allowed = {'motif': {'include_sequence', 'exclude_sequence'}, 'background_counts': {'include_sequence', 'exclude_sequence'},
               'active': {'include_sequence', 'exclude_sequence'}, 'starts': {'update_holdout'}}
    try:
        db.fn(f'{S}::update_holdout')
        has_uh = True
    except KeyError:
        has_uh = False
    if not has_uh:
        # the helper has been merged into its only caller: the one store to starts[z] then lives in next() (its place in the protocol is R16.4's)
        allowed['starts'] = {'next'}
    n = 0
    for f in db.fns.values():
        if not f.path.startswith('lightmotif::sampler::Sampler::') and not f.path.startswith('<lightmotif::sampler::Sampler<'):
            continue
        if f.promoted_of or f.name == '_new':
            continue
        R = X.Rec(f)
        owner = f.name if f.kind != 'Closure' else f.raw.get('parent', '').rsplit('::', 1)[-1]
        from lm import iteralg
        CA = iteralg.Canon(f, R)
        for s in X.stores(f, R):
            rf = root_field(CA.canon(s['target']))
            for fld in STATE:
                if rf == fld:
                    if owner not in allowed[fld]:
                        ctx.fail('R16.3', f, f'write to self.{fld}', f'{owner} writes self.{fld} ({X.show(s["target"], 80)}); only {sorted(allowed[fld])} may', span=s['span'])
                    else:
                        n += 1
        for bi, t in f.calls():
            cs = f.callee_short(t) or ''
            if cs.endswith(('BitVec::set', 'BitVec::unset')) and owner not in allowed['active']:
                ctx.fail('R16.3', f, 'active.set/unset', f'{owner} changes the active set', span=t['span'])
            if cs.endswith(('Vec::push', 'Vec::clear', 'Vec::insert', 'Vec::remove', 'DenseMatrix::resize', 'DenseMatrix::fill')) and t['args']:
                a0 = X.canon(norm(R.operand(t['args'][0])))
                if any(f'arg1.{fld}' in a0 for fld in STATE):
                    ctx.fail('R16.3', f, f'{cs.rsplit("::", 1)[-1]} on sampler state', f'{owner} mutates {a0}', span=t['span'])
    ctx.floor('R16.3', n, 7, 'state writes inside the allowed functions')
    ctx.ok('R16.3', S, f'{n} state writes, all inside include/exclude/update_holdout')


def _reach_before(f, a, b):
    """Blocks reachable from the entry without passing through block a (b is 'before a' on some path if it is in the result)."""
    seen, stack = set(), [0]
    while stack:
        x = stack.pop()
        if x in seen or x == a or f.blocks[x]['cleanup']:
            continue
        seen.add(x)
        stack.extend(f.succs(x))
    return seen


def r164(db, ctx):
    ctx.rule('R16.4', 'next(): exclude_sequence(z) -> prepare_pssm -> update_holdout(z, &pssm) -> include_sequence(z) with the same z; the yielded counts / pssm are that prepare_pssm result')
    fs = [f for f in db.fns.values() if f.path.startswith('<lightmotif::sampler::Sampler<') and f.path.endswith('Iterator>::next') and f.kind == 'AssocFn']
    if len(fs) != 1:
        ctx.fail('R16.4', S, 'next', 'reason=anchor-missing')
        return
    from lm import inline
    f0 = fs[0]
    # one canonical body: update_holdout (when it exists as a helper) is read in place, so that the protocol is the same whether the author
    # keeps the helper or has merged it into next()
    f = inline.inlined_copy(db, f0, ['::update_holdout'])
    R = X.Rec(f)
    def calls(suffix):
        return [(bi, t) for bi, t in f.calls() if (f.callee_short(t) or '').endswith(suffix)]
    ex, pp, inc, sh = calls('::exclude_sequence'), calls('::prepare_pssm'), calls('::include_sequence'), calls('::select_holdout')
    # the "update" step: score the held-out sequence into self.scores, then store the resampled start
    sc_ = calls('Score::score_into')
    st_ = [s_ for s_ in X.stores(f, R) if X.canon(('fld', ('p', 1), 'starts')) in X.canon(norm(s_['target']))]
    probs = []
    if not (len(sh) <= 1 and len(sc_) == 1 and len(st_) == 1 and len(inc) == 1 and len(ex) >= 1 and len(pp) >= 1):
        probs.append(f'call counts select={len(sh)} exclude={len(ex)} prepare={len(pp)} score_into={len(sc_)} starts-stores={len(st_)} include={len(inc)}')
    else:
        uh = [(sc_[0][0], sc_[0][1])]
        st_blk = st_[0]['block']
        ex0 = min(ex, key=lambda x: len(f.dominators()[x[0]]))
        pp0 = min(pp, key=lambda x: len(f.dominators()[x[0]]))
        order = ([sh[0][0]] if sh else []) + [ex0[0], pp0[0], uh[0][0]]
        for a, b in zip(order, order[1:]):
            if not f.dominates(a, b) or a == b:
                probs.append('calls are not in the order select -> exclude -> prepare_pssm -> update_holdout -> include on every path')
                break
        # the start is stored after the scoring and before include(z) reads it
        after_inc, stack_ = set(), list(f.succs(inc[0][0]))
        while stack_:
            x_ = stack_.pop()
            if x_ not in after_inc and not f.blocks[x_]['cleanup']:
                after_inc.add(x_)
                stack_.extend(f.succs(x_))
        if not (f.dominates(uh[0][0], st_blk) and f.dominates(uh[0][0], inc[0][0]) and st_blk not in after_inc and st_blk != inc[0][0]):
            probs.append('the resampled start is not stored between the scoring of the held-out sequence and include_sequence(z)')
        # must-pass-through: once z has been excluded, no path reaches a return without passing include_sequence(z)
        # (dominance of the later call by the earlier one does not exclude an early return between them)
        seen_b, stack = set(), list(f.succs(ex0[0]))
        while stack:
            b_ = stack.pop()
            if b_ in seen_b or b_ == inc[0][0] or f.blocks[b_]['cleanup']:
                continue
            seen_b.add(b_)
            stack.extend(f.succs(b_))
        esc = [e for e in f.exits() if e in seen_b]
        if esc:
            probs.append('a path returns after exclude_sequence(z) without passing include_sequence(z): the state then lacks the held-out sequence '
                         'although active/starts still describe it as part of the alignment')
        z = norm(R.operand(ex0[1]['args'][1]))
        zs = [norm(R.operand(t['args'][1])) for _, t in (inc + ex)]
        # the sequence scored and the start stored are those of the same z
        tg_ = norm(st_[0]['target'])
        zi_ = m(('call~', 'index_mut', (('fld', ('p', 1), 'starts'), '$z')), tg_) or m(('idx', ('fld', ('p', 1), 'starts'), '$z'), tg_)
        sq_ = norm(R.at(uh[0][0]).operand(uh[0][1]['args'][2]))
        si_ = m(('idx', ('fld', ('fld', ('p', 1), 'data'), 'sequences'), '$z'), sq_) or m(('call~', '::index', (('fld', ('fld', ('p', 1), 'data'), 'sequences'), '$z')), sq_) or \
            m(('idx', ('call~', 'AsRef::as_ref', (('fld', ('fld', ('p', 1), 'data'), 'sequences'),)), '$z'), sq_) or m(('call~', '::index', (('call~', 'AsRef::as_ref', (('fld', ('fld', ('p', 1), 'data'), 'sequences'),)), '$z')), sq_)
        zs += [norm(zi_['$z'])] if zi_ is not None else [('?', 'starts index')]
        zs += [norm(si_['$z'])] if si_ is not None else [('?', 'scored sequence')]
        z_ok = (z[0] == 'call' and z[1].endswith('select_holdout')) or (not sh and z[0] == 'v')
        if any(x != z for x in zs) or not z_ok:
            probs.append(f'exclude / update / include do not all receive the selected z: {[X.show(x, 40) for x in zs]}')
        # pssm passed to update_holdout is prepare_pssm().1
        pa = X.strip_refs(norm(R.at(uh[0][0]).operand(uh[0][1]['args'][1])))
        if not (m(('fld', ('call~', 'prepare_pssm', ('_',)), '1'), pa) is not None):
            probs.append(f'update_holdout scores with {X.show(pa, 60)}, not the matrix prepared without z')
        # Iteration aggregate
        agg = None
        for blk in f.blocks:
            for st in blk['stmts']:
                if st['k'] == 'assign' and st['rv']['k'] == 'agg' and st['rv'].get('adt', '').endswith('sampler::Iteration'):
                    agg = dict(zip(st['rv']['fields'], [norm(R.operand(o)) for o in st['rv']['ops']]))
        if not agg:
            probs.append('Iteration aggregate not found')
        else:
            pre = ('call', pp0[1].get('resolved') and short(pp0[1]['resolved']) or short(pp0[1]['callee']), None)
            c_ok = m(('fld', ('call~', 'prepare_pssm', ('_',)), '0'), agg.get('counts')) is not None
            p_ok = m(('fld', ('call~', 'prepare_pssm', ('_',)), '1'), agg.get('pssm')) is not None
            # both must come from the FIRST prepare_pssm call (dest local)
            d0 = pp0[1]['dest']['l']
            def from_first(opname):
                for blk in f.blocks:
                    for st in blk['stmts']:
                        if st['k'] == 'assign' and st['rv']['k'] == 'agg' and st['rv'].get('adt', '').endswith('sampler::Iteration'):
                            o = st['rv']['ops'][st['rv']['fields'].index(opname)]
                            pl = o.get('m') or o.get('c')
                            l = pl['l']
                            for _ in range(4):
                                ds = f.defs().get(l, [])
                                if len(ds) == 1 and ds[0][1] != 'term' and ds[0][2]['k'] == 'use':
                                    src = ds[0][2]['a'].get('m') or ds[0][2]['a'].get('c')
                                    if src['l'] == d0:
                                        return True
                                    l = src['l']
                                else:
                                    break
                            return l == d0
                return False
            if not (c_ok and p_ok and from_first('counts') and from_first('pssm')):
                probs.append('the yielded counts / pssm are not the result of the prepare_pssm call made while z was excluded')
            if agg.get('z') != z:
                probs.append('the yielded z is not the held-out sequence')
    if probs:
        ctx.fail('R16.4', f, 'iteration protocol', '; '.join(probs))
    else:
        ctx.ok('R16.4', f, 'select z; exclude(z); (cm, pssm) = prepare_pssm(); update_holdout(z, &pssm); include(z); yield {cm, pssm, z}', ['dominance order', 'same z everywhere'])


def r165(db, ctx):
    ctx.rule('R16.5', 'start ranges: initial starts ~ Uniform(0, len - width + 1) (exclusive); resampled starts index the L+1-M valid scores of the same sequence; _new requires wrap >= width')
    f = db.fn(f'{S}::_new')
    clos = db.closures_of(f)
    ok = False
    # the sampling call may sit in a closure (`sequences.iter().map(|seq| rng.sample(..)).collect()`) or in a loop body (`for seq in .. { starts.push(rng.sample(..)) }`)
    for g_ in [f] + clos:
        Rg = X.Rec(g_)
        for bi, t in g_.calls():
            if not (g_.callee_short(t) or '').endswith('Rng::sample'):
                continue
            en = norm(Rg.call(t))
            b = m(('call~', 'Rng::sample', ('_', ('call~', 'Uniform::new', (('k', 0), '$hi')))), en)
            if b is None:
                continue
            l = X.lin(b['$hi'])
            ks = {k: v for k, v in l.items() if k != ''}
            if not (l.get('', 0) == 1 and sorted(ks.values()) == [-1, 1] and any('len' in k and v == 1 for k, v in ks.items()) and any(v == -1 for k, v in ks.items())):
                continue
            if g_ is f:
                # loop form: the sampled value is pushed, once per sequence, onto the vector that becomes `starts`
                pushes = [(b2, t2) for b2, t2 in f.calls() if (f.callee_short(t2) or '').endswith('Vec::push') and any(b2 in L_['body'] and bi in L_['body'] for L_ in f.loops())]
                per_seq = any(x[0] == 'elem' and 'sequences' in X.canon(x[1]) for x in X.walk(en))
                if pushes and per_seq:
                    ok = True
            else:
                ok = True
    (ctx.ok if ok else ctx.fail)('R16.5', f, 'initial start ~ Uniform::new(0, seq.len() - width + 1)', *([['exclusive upper bound: start + width <= len']] if ok else ['initial start range is not 0 .. len - width + 1']))
    # wrap guard
    R = X.Rec(f)
    g = False
    for c in clos:
        e = common.return_expr_single_path_allow(c)
        if e is not None and m(('bin', 'Lt', ('call~', 'StripedSequence::wrap', ('_',)), '$w'), norm(e)) is not None:
            g = True       # any(|x| x.wrap() < width)
        if e is not None and m(('bin', 'Ge', ('call~', 'StripedSequence::wrap', ('_',)), '$w'), norm(e)) is not None:
            # !all(|x| x.wrap() >= width): the closure must be the argument of Iterator::all over all sequences and the panic on its false side
            for bi, t in f.calls():
                if (f.callee_short(t) or '').endswith('Iterator::all'):
                    tb = t.get('target')
                    sw = f.term(tb) if tb is not None else None
                    if sw and sw['k'] == 'switch':
                        false_t = [tg for v, tg in sw['arms'] if int(v) == 0]
                        if false_t and G.diverges(f, false_t[0]):
                            g = True
    pan = any((f.callee_short(t) or '').startswith(('core::panicking', 'std::rt::panic')) for _, t in f.calls())
    if not g:
        # loop form: a panic whose block is only reached when wrap(seq) < width for an element of the loop over all sequences
        for bi, t in f.calls():
            if (f.callee_short(t) or '').startswith(('core::panicking', 'std::rt::panic')):
                rels = G.relations(f, R, bi)
                for r in rels:
                    if r[0] == 'lt' and common.is_call_to(r[1], 'StripedSequence::wrap') and norm(r[2]) == ('p', 2):
                        x = norm(r[1])[2][0]
                        if any(y[0] == 'elem' and 'sequences' in X.canon(y[1]) and not any(z[0] == 'call' and z[1].rsplit('::', 1)[-1] in ('take', 'skip', 'step_by', 'filter') for z in X.walk(y[1])) for y in X.walk(x)):
                            g = True
    (ctx.ok if g and pan else ctx.fail)('R16.5', f, '_new diverges unless every sequence has wrap >= width', *([['any(|x| x.wrap() < width) -> panic']] if g and pan else ['missing wrap precondition']))
    # update_holdout
    try:
        u = db.fn(f'{S}::update_holdout')
    except KeyError:
        # merged into next(): the same statements are looked for there (their place in the protocol is R16.4's)
        us = [f_ for f_ in db.fns.values() if f_.path.startswith('<lightmotif::sampler::Sampler<') and f_.path.endswith('Iterator>::next') and f_.kind == 'AssocFn']
        if len(us) != 1:
            ctx.fail('R16.5', S, 'update step', 'reason=anchor-missing: neither update_holdout nor a unique next()')
            return
        u = us[0]
    R = X.Rec(u)
    sc = [(bi, t) for bi, t in u.calls() if (u.callee_short(t) or '').endswith('Score::score_into')]
    st = [s for s in X.stores(u, R) if X.canon(('fld', ('p', 1), 'starts')) in X.canon(norm(s['target']))]
    ok = False
    if len(sc) == 1 and len(st) == 1:
        seq = norm(R.at(sc[0][0]).operand(sc[0][1]['args'][2]))
        tg = norm(st[0]['target'])
        v = norm(st[0]['value'])
        zm = m(('call~', 'index_mut', (('fld', ('p', 1), 'starts'), '$z')), tg) or m(('idx', ('fld', ('p', 1), 'starts'), '$z'), tg)
        zi = norm(zm['$z']) if zm is not None and norm(zm['$z'])[0] in ('p', 'v') else None
        SEQS = ('fld', ('fld', ('p', 1), 'data'), 'sequences')
        sm = m(('idx', SEQS, '$z'), seq) or m(('call~', '::index', (SEQS, '$z')), seq) or \
            m(('idx', ('call~', 'AsRef::as_ref', (SEQS,)), '$z'), seq) or m(('call~', '::index', (('call~', 'AsRef::as_ref', (SEQS,)), '$z')), seq)
        seq_ok = zi is not None and sm is not None and norm(sm['$z']) == zi
        # dist.sample(rng) with dist = WeightedIndex::new(self.scores.iter().map(f)): one weight per valid position, in position order
        val_ok = False
        bw = m(('call~', 'Distribution::sample', (('fld', ('down', ('call~', 'WeightedIndex::new', ('$w',)), 'Ok'), '0'), '_')), v)
        if bw is None:
            bw = m(('call~', 'Distribution::sample', (('call~', ('Result::unwrap', 'Result::expect'), (('call~', 'WeightedIndex::new', ('$w',)),)), '_')), v)
        if bw is not None:
            from lm import reduce as RD
            RC = RD.RCanon(db, u, R)
            Lw = RD._fresh()
            el = RC.elem_of(bw['$w'], Lw)
            scores = ('fld', ('p', 1), 'scores')
            # the k-th weight is a function of the k-th score only, one weight per valid position
            if el is not None and el[1] == [('maxidx', scores)]:
                ats = [x for x in X.walk(el[0]) if x[0] == 'at']
                val_ok = bool(ats) and all(x == ('at', scores, ('pos', Lw)) for x in ats)
        buf_ok = norm(R.operand(sc[0][1]['args'][3])) == ('fld', ('p', 1), 'scores')
        ok = zi is not None and seq_ok and val_ok and buf_ok and u.dominates(sc[0][0], st[0]['block'])
    (ctx.ok if ok else ctx.fail)('R16.5', u, 'starts[z] = index sampled among scores.iter() of sequences[z] (L+1-M valid positions)', *([['R1.3: max_index = L+1-M']] if ok else ['resampled start is not an index into the scores of the held-out sequence']))


FORBIDDEN_RANDOM = ('thread_rng', 'OsRng', 'rand::random', 'SystemTime', 'Instant::now', 'RandomState', 'from_entropy', 'getrandom')


def r166(db, ctx):
    ctx.rule('R16.6', 'determinism: the only randomness reachable from Sampler is the caller-supplied RNG; no unordered containers, clocks or entropy sources')
    roots = [db.fn(f'{S}::_new')] + [f for f in db.fns.values() if f.path.startswith('<lightmotif::sampler::Sampler<') and f.path.endswith('Iterator>::next') and f.kind == 'AssocFn']
    seen, ext = db.reach(roots, stop=lambda f: f.crate != 'lightmotif')
    bad = [c for c in ext if any(x in c for x in FORBIDDEN_RANDOM) or 'HashMap' in c or 'HashSet' in c]
    for c in bad:
        ctx.fail('R16.6', sorted(ext[c])[0], f'non-deterministic source {c}', f'{c} is reachable from the sampler: runs with the same seed can differ')
    # every RNG use takes self.rng / the rng parameter
    n = 0
    for f in seen.values():
        if f.crate != 'lightmotif' or 'sampler' not in f.path:
            continue
        R = X.Rec(f)
        for bi, t in f.calls():
            c = f.callee_short(t) or ''
            if c.startswith('rand') and t['args']:
                args = ' '.join(X.canon(norm(R.operand(a))) for a in t['args'])
                if any(k in c for k in ('Rng::sample', 'SliceRandom::choose', 'index::sample', 'Distribution::sample', 'Rng::gen')):
                    n += 1
                    if f.kind == 'Closure':
                        ups = f.raw.get('upvars') or []
                        for k, u in enumerate(ups):
                            args = args.replace(f'arg1.{k}', 'capture:' + u['name'])
                    if not ('arg1.rng' in args or 'capture:rng' in args or (f.name == '_new' and ('arg3' in args or '_3' in args))):
                        ctx.fail('R16.6', f, f'{c}', f'random draw does not use the caller-supplied RNG: args {args[:120]}', span=t['span'])
    if not bad:
        ctx.ok('R16.6', S, f'{len(ext)} external callees reachable, none is an entropy / clock / hashed-container source; {n} random draws all take the supplied RNG')
    ctx.floor('R16.6', n, 4, 'random draws')


def r167(db, ctx):
    from . import C09
    common.shared_rule(db, ctx, C09.r97, 'R16.7', 'the reported background is Background::from_counts(&self.background_counts), and from_counts normalises every one of the K counts '
                       '(shared with R9.7)', ['R9.7'])
    f = db.fn(f'{S}::background')
    e = norm(common.return_expr_single_path_allow(f)) if common.return_expr_single_path_allow(f) is not None else None
    ok = e is not None and m(('call~', 'unwrap', (('call~', 'Background::from_counts', (('fld', ('p', 1), 'background_counts'),)),)), e) is not None
    (ctx.ok if ok else ctx.fail)('R16.7', f, 'Sampler::background() = from_counts(&self.background_counts)', *([['R16.1-R16.3: background_counts is the maintained state']] if ok else [f'returns {X.show(e, 100) if e else None}']))


def r168(db, ctx):
    ctx.rule('R16.8', 'the active-set container: test(i), set(i) and unset(i) address the same storage cell (same element index, same bit) for the same i; '
                      'set makes test(i) true and unset makes it false; count changes by one exactly when the flag changes (sibling agreement)')
    S_ = 'lightmotif::sampler::BitVec::'
    fs = {}
    for nm in ('test', 'set', 'unset'):
        try:
            fs[nm] = db.fn(S_ + nm)
        except KeyError:
            ctx.fail('R16.8', S_ + nm, 'container method', 'reason=anchor-missing')
            return
    addr = {}
    for nm, f in fs.items():
        R = X.Rec(f)
        idxs, shifts = set(), set()
        exprs = [norm(s_['target']) for s_ in X.stores(f, R)] + [norm(s_['value']) for s_ in X.stores(f, R)]
        e = common.return_expr_single_path_allow(f)
        if e is not None:
            exprs.append(norm(e))
        for bi in range(len(f.blocks)):
            t = f.term(bi)
            if t['k'] == 'switch':
                exprs.append(norm(R.at(bi).operand(t['discr'])))
            if t['k'] == 'call':
                exprs.extend(norm(R.operand(a)) for a in t['args'])
        for ex in exprs:
            for x in X.walk(ex):
                if x[0] == 'idx' and m(('fld', ('p', 1), 'data'), norm(x[1])) is not None:
                    idxs.add(X.canon(norm(x[2])))
                if x[0] == 'call' and x[1].endswith(('::index', '::index_mut')) and len(x[2]) == 2 and m(('fld', ('p', 1), 'data'), norm(x[2][0])) is not None:
                    idxs.add(X.canon(norm(x[2][1])))
                if x[0] == 'bin' and x[1] in ('Shl', 'ShlUnchecked', 'Shr', 'ShrUnchecked') and norm(x[2])[0] == 'k':
                    shifts.add(X.canon(norm(x[3])))
        addr[nm] = (frozenset(idxs), frozenset(shifts))
    # a method may go through test() for its read: then its own read address is test's
    probs = []
    ref = addr['test']
    if not ref[0]:
        ctx.fail('R16.8', fs['test'], 'container addressing', 'reason=unrecognised-shape: test() does not index self.data')
        return
    for nm in ('set', 'unset'):
        a_ = addr[nm]
        if not a_[0]:
            probs.append(f'{nm}() does not index self.data')
            continue
        if not a_[0] <= ref[0] or not ref[0] <= a_[0] | ref[0]:
            probs.append(f'{nm}() addresses element {sorted(a_[0])} but test() reads element {sorted(ref[0])}')
        if a_[1] != ref[1] and not (a_[1] <= ref[1] and a_[1]):
            if a_[1] or ref[1]:
                probs.append(f'{nm}() uses bit position {sorted(a_[1])} but test() uses {sorted(ref[1])}: it changes the flag of a different index')
    # polarity and count discipline
    for nm, want, delta in (('set', True, 'Add'), ('unset', False, 'Sub')):
        f = fs[nm]
        R = X.Rec(f)
        st = [s_ for s_ in X.stores(f, R) if any(y == ('fld', ('p', 1), 'data') for y in X.walk(norm(s_['target'])))]
        cnt = [s_ for s_ in X.stores(f, R) if m(('fld', ('p', 1), 'count'), norm(s_['target'])) is not None]
        if len(st) != 1 or len(cnt) != 1:
            probs.append(f'{nm}(): {len(st)} flag stores and {len(cnt)} count updates, expected one of each')
            continue
        v = norm(st[0]['value'])
        okv = v == ('k', want) or (want and v[0] == 'bin' and v[1] == 'BitOr') or (not want and v[0] == 'bin' and v[1] == 'BitAnd' and any(y[0] == 'un' and y[1] == 'Not' for y in X.walk(v)))
        if not okv:
            probs.append(f'{nm}() stores {X.show(v, 60)}, expected the flag to become {str(want).lower()}')
        cv = norm(cnt[0]['value'])
        if m(('bin', delta, ('fld', ('p', 1), 'count'), ('k', 1)), cv) is None:
            probs.append(f'{nm}() updates count to {X.show(cv, 60)}, expected count {"+" if want else "-"} 1')
        if st[0]['block'] != cnt[0]['block'] and not (f.dominates(st[0]['block'], cnt[0]['block']) or f.dominates(cnt[0]['block'], st[0]['block'])):
            probs.append(f'{nm}(): the flag and the count are not updated together')
        # only when the flag actually changes: guarded by the current value of the same flag
        # (the count update is what must be conditional: `if !data[i] { data[i] = true; count += 1 }`, `if !self.test(i) { .. }`, or
        #  `let previous = mem::replace(&mut data[i], true); if !previous { count += 1 }`)
        rels = G.relations(f, R, cnt[0]['block'])
        reads_flag = lambda e: any(y == ('fld', ('p', 1), 'data') or (y[0] == 'call' and y[1].endswith(('BitVec::test', 'mem::replace'))) for y in X.walk(norm(e)))
        guarded = any(r[0] in ('true', 'false') and (r[0] == 'true') != want and reads_flag(r[1]) for r in rels) or \
            any(r[0] in ('eq', 'ne') and (reads_flag(r[1]) or reads_flag(r[2])) for r in rels)
        if not guarded:
            probs.append(f'{nm}(): count changes even when the flag already had the requested value')
    if probs:
        ctx.fail('R16.8', fs['unset'], 'active-set container', '; '.join(probs))
    else:
        ctx.ok('R16.8', fs['test'], 'test / set / unset address the same cell; count follows the flag', [f'element {sorted(ref[0])}', f'bit {sorted(ref[1]) or "-"}'])


def r169(db, ctx):
    """The sampler never sees a plain sequence: motif windows are read through `StripedSequence: Index<usize>`, the background through
    `count_symbols`, the scores through `score_into`; all three compute the number of sequence rows as data.rows() - wrap.  That
    bookkeeping (configure_wrap: the matrix grows by m - wrap, then wrap = m) and the index formulas are necessary for the state to be
    the state of the alignment (seed C16-5: re-configuring for a wider motif left surplus rows)."""
    from . import C04, C01

    def both(db_, ctx_):
        C04.lookahead_rules(db_, ctx_)
        C01.r14(db_, ctx_)
    common.shared_rule(db, ctx, both, 'R16.9', 'the striped layout the sampler reads through: configure_wrap keeps data.rows() - wrap equal to the number of '
                       'sequence rows and copies the look-ahead rows from the right cells; seq[i] = data[i % R][i / R], count_symbols visits the cells '
                       'below len once (shared with R4.5 / R4.8 / R1.4)', ['R4.5', 'R4.8', 'R1.4'])


def r1610(db, ctx):
    ctx.rule('R16.10', 'reported state: count_matrix() is (self.motif, self.active.count()); active_sequences() lists, in order, every i with active[i] set; '
                       'active_starts() lists starts[i] for the same i')
    from lm import reduce as RD
    n = 0
    act = ('fld', ('fld', ('p', 1), 'active'), 'data')

    def fn(name):
        fs = [f for f in db.fns.values() if f.path.startswith('lightmotif::sampler::Sampler::') and f.name == name and f.kind == 'AssocFn' and not f.promoted_of]
        return fs[0] if len(fs) == 1 else None
    f = fn('count_matrix')
    if f is None:
        ctx.fail('R16.10', S, 'count_matrix', 'reason=anchor-missing')
    else:
        e = common.return_expr_single_path_allow(f)
        e = norm(e) if e is not None else None
        ok = e is not None and m(('call~', 'CountMatrix::new_unchecked', (('call~', 'Clone::clone', (('fld', ('p', 1), 'motif'),)), ('call~', 'BitVec::count', (('fld', ('p', 1), 'active'),)))), e) is not None
        if not ok and e is not None:
            ok = m(('call~', 'CountMatrix::new_unchecked', (('fld', ('p', 1), 'motif'), ('call~', 'BitVec::count', (('fld', ('p', 1), 'active'),)))), norm(e, True) if False else e) is not None
        (ctx.ok if ok else ctx.fail)('R16.10', f, 'count_matrix() = CountMatrix(self.motif.clone(), self.active.count())', *([['maintained state reported as is']] if ok else [f'returns {X.show(e, 120) if e else None}']))
        n += 1 if ok else 0
    for name, want in (('active_sequences', lambda L: ('pos', L)), ('active_starts', lambda L: ('at', ('fld', ('p', 1), 'starts'), ('pos', L)))):
        f = fn(name)
        if f is None:
            ctx.fail('R16.10', S, name, 'reason=anchor-missing')
            continue
        R = X.Rec(f)
        C = RD.RCanon(db, f, R)
        e = common.return_expr_single_path_allow(f)
        e = norm(e) if e is not None else None
        ok, why = False, f'returns {X.show(e, 100) if e else None}'
        if e is not None and e[0] == 'call' and e[1].endswith(('Iterator::collect', 'FromIterator::from_iter')) and len(e[2]) == 1:
            L = RD._fresh()
            el = C.elem_of(e[2][0], L)
            if el is not None:
                flt = [C.canon(c_) for c_ in C.filters.get(L, [])]
                bits = ('fld', ('p', 1), 'active')
                plain = el[1] == [('len', act)] and flt == [('at', act, ('pos', L))]
                # packed flags: (0..active.len).filter(|&i| active.test(i))  (R16.8 relates test / set / unset / len)
                packed = el[1] == [('sub', ('fld', bits, 'len'), ('k', 0))] and len(flt) == 1 and m(('call~', 'BitVec::test', (bits, ('pos', L))), flt[0]) is not None
                ok = C.canon(el[0]) == want(L) and (plain or packed)
                why = f'element {X.show(C.canon(el[0]), 60)} over {el[1]} kept under {[X.show(c_, 60) for c_ in flt]}'
        else:
            # a push loop over a pipeline: `for i in <pipeline> { v.push(x(i)) }` with v returned
            pushes = [(bi_, t_) for bi_, t_ in f.calls() if (f.callee_short(t_) or '').endswith('Vec::push')]
            if len(pushes) == 1 and e is not None and e[0] == 'v':
                bi_, t_ = pushes[0]
                from lm import iteralg as IA
                tgt = X.strip_refs(norm(R.at(bi_).operand(t_['args'][0])))
                v_ = C.canon(norm(R.at(bi_).operand(t_['args'][1])))
                ps = [x_ for x_ in X.walk(v_) if IA.is_pos(x_)]
                if tgt == e and len(set(ps)) == 1:
                    L = ps[0][1]
                    flt = [C.canon(c_) for c_ in C.filters.get(L, [])]
                    ext = C.extents.get(L, [])
                    bits = ('fld', ('p', 1), 'active')
                    plain = ext == [('len', act)] and flt == [('at', act, ('pos', L))]
                    packed = ext == [('sub', ('fld', bits, 'len'), ('k', 0))] and len(flt) == 1 and m(('call~', 'BitVec::test', (bits, ('pos', L))), flt[0]) is not None
                    ok = v_ == want(L) and (plain or packed)
                    why = f'pushed {X.show(v_, 60)} over {ext} kept under {[X.show(c_, 60) for c_ in flt]}'
                    (ctx.ok if ok else ctx.fail)('R16.10', f, f'{name}() over every index with its active flag set', *([[why]] if ok else [why]))
                    n += 1 if ok else 0
                    continue
            # a hand-written loop: not decided here
            if not any((f.callee_short(t_) or '').rsplit('::', 1)[-1] in ('collect', 'filter', 'filter_map', 'map') for _, t_ in f.calls()):
                ctx.note(f'R16.10: Sampler::{name} is not written as an iterator pipeline; its loop form is not decided')
                n += 1
                continue
        (ctx.ok if ok else ctx.fail)('R16.10', f, f'{name}() over every index with its active flag set', *([[why]] if ok else [why]))
        n += 1 if ok else 0
    ctx.floor('R16.10', n, 3, 'state accessors')


def run(db, ctx):
    r1610(db, ctx)
    r161(db, ctx)
    r162(db, ctx)
    r163(db, ctx)
    r164(db, ctx)
    r165(db, ctx)
    r166(db, ctx)
    r167(db, ctx)
    r168(db, ctx)
    r169(db, ctx)
