"""C07 — maximum, arg-maximum and thresholding of striped scores match their definitions (structural clauses)."""
import math
from fractions import Fraction
from lm import lanes as LN, expr as X, guards as G
from lm.lanes import Vec, Ptr, lane
from lm.match import norm, m
from lm.db import short
from . import common, kernels as K, C01

LEVEL_NOTE = ('decides (part): the initial accumulator of every max/argmax kernel is a lower bound of its element domain; value and index accumulators are updated under one mask; '
              'the column attributed to each spilled index element is the column whose cells fed that lane; every column participates; emptiness guard dominates the first row access; '
              'threshold is inclusive and visits every cell once; dispatcher arms. Not decided: NaN behaviour (excluded by the statement), floating point.')

AVX2 = 'lightmotif::pli::platform::avx2::'
SSE2 = 'lightmotif::pli::platform::sse2::'
LE_LT = {1, 2, 17, 18}
GE_GT = {13, 14, 29, 30}


def row_loop(E):
    """The loop over matrix rows carrying the data pointer."""
    for H, L in E.loops.items():
        if L.opaque or not L.iter or L.iter[0] != 'range':
            continue
        lo = norm(L.iter[1])
        if lo[0] == 'k' and isinstance(lo[1], int) and common.is_call_to(L.iter[2], 'DenseMatrix::rows') and any(isinstance(v, Ptr) for v in L.carried.values()) and any(isinstance(v, Vec) for v in L.carried.values()):
            return H
    return None


def check_data_ptr(E, H, probs, e):
    L = E.loops[H]
    ps = [l for l, v in L.carried.items() if isinstance(v, Ptr)]
    if len(ps) != 1:
        probs.append(f'{len(ps)} pointers carried by the row loop')
        return None
    p = ps[0]
    ini = L.carried[p]
    b = ini.base
    okb = isinstance(b, tuple) and b[0] == 'slice' and b[1][0] == 'call' and b[1][1].endswith('::index') and 'StripedScores::matrix' in X.canon(b[1][2][0]) and norm(b[1][2][1]) == ('k', 0)
    if not okb:
        probs.append(f'data pointer starts at {LN.show_base(b)}, expected scores.matrix()[0]')
    u = K.ptr_update(E, H, p)
    if u is None or list(u.values()) != [Fraction(e)] or 'DenseMatrix::stride' not in list(u)[0]:
        probs.append(f'data pointer advances by {X.lin_str(u) if u else None} bytes per row, expected stride*{e}')
    # rows visited: the pointer starts at row r0 and is read before it advances, for rows() - lo iterations: rows r0 .. r0 + rows - lo.
    # They must be exactly lo .. rows (rows below lo have to be covered by the initial accumulators: see first_row_init)
    lo = norm(L.iter[1])[1]
    r0 = None
    if not ini.off:
        r0 = 0
    elif u is not None and len(ini.off) == 1 and list(ini.off) == list(u) and list(u.values())[0] != 0:
        q = list(ini.off.values())[0] / list(u.values())[0]
        r0 = int(q) if q.denominator == 1 else None
    if r0 is None:
        probs.append(f'data pointer starts at offset {X.lin_str(ini.off)}, not at a whole row')
    elif r0 != lo:
        probs.append(f'the row loop runs {"rows" if lo == 0 else f"rows - {lo}"} times from row {r0}: it reads rows {r0}..rows{"" if r0 == lo else f" - {lo - r0}" if lo > r0 else f" + {r0 - lo}"}, '
                     f'not rows {lo}..rows ({"the last row(s) are never compared" if r0 < lo else "it reads past the last row"})')
    if lo not in (0, 1):
        probs.append(f'row loop starts at row {lo}')
    return p, ini


def is_lower_bound(t, w, op, ini_ptr):
    """Is constant/loaded lane t a lower bound for the reduction `op`?"""
    if op in ('max_u8',):
        if isinstance(t, tuple) and t[0] == 'ld' and ini_ptr is not None and t[1][0] == ini_ptr.base:
            return True, 'first row of the matrix'
        return t == ('k', 0) or t == ('kw', 1, 0), 'u8 minimum 0'
    if op == 'max_f32' or op == 'f32':
        if isinstance(t, tuple) and t[0] == 'kf' and t[1] == float('-inf'):
            return True, '-inf'
        if isinstance(t, tuple) and t[0] == 'scalar' and isinstance(t[2], tuple):
            c = X.canon(t[2])
            if 'NEG_INFINITY' in c or ('Neg' in c and 'INFINITY' in c):
                return True, '-inf'
        if isinstance(t, tuple) and t[0] == 'ldw' and ini_ptr is not None and t[1][0] == ini_ptr.base:
            return True, 'first row of the matrix'
        return False, f'{t}'
    if op == 'i16-of-u8':
        return t == ('kw', 2, 0xFFFF), '-1 as i16 (below every zero-extended byte)'
    return False, str(t)


def col_of(ldterm, w, ptr_off_base=None):
    """Column (element index) of a loaded lane term ('ldw', key, byte, w) | ('ld', key, byte) | ('zext', w2, ld)."""
    t = ldterm
    if isinstance(t, tuple) and t[0] == 'zext':
        t = t[2]
        w = 1
    if isinstance(t, tuple) and t[0] == 'ldw':
        key, b = t[1], t[2]
    elif isinstance(t, tuple) and t[0] == 'ld':
        key, b = t[1], t[2]
    else:
        return None
    return key, b


def parse_off(s):
    """lin_str with only a constant -> int, else None."""
    try:
        return int(Fraction(s))
    except (ValueError, ZeroDivisionError):
        return None


def check_max(db, ctx, path, w, op):
    f, E, err = K.evaluate(db, path)
    if E is not None:
        E = K.bump_view(E)
    if E is None:
        ctx.fail('R7.1', f, 'lane evaluation', f'reason=unrecognised-shape: {err}')
        return
    H = row_loop(E)
    if H is None:
        ctx.fail('R7.1', f, 'row loop', 'reason=unrecognised-shape: no loop over the matrix rows')
        return
    probs = []
    r = check_data_ptr(E, H, probs, w)
    if r is None:
        ctx.fail('R7.1', f, 'data pointer', '; '.join(probs))
        return
    p, ini = r
    L = E.loops[H]
    cols = {}
    bad_init = []
    for l, v in L.carried.items():
        if not isinstance(v, Vec):
            continue
        for q in range(len(v) // w):
            u = K.phi_update(E, H, l, q, w)
            if not u or u[0] != op:
                probs.append(f'{f.local_name(l)}[{q}] is updated by {str(u)[:60]}, expected {op}(acc, cell)')
                continue
            c = col_of(u[1], w)
            if c is None or c[0][0] != ('phi', H, p) or parse_off(c[0][1]) is None:
                probs.append(f'{f.local_name(l)}[{q}] is compared with {str(u[1])[:60]}, not a cell of the current row')
                continue
            col = (parse_off(c[0][1]) + c[1]) // w
            cols[(l, q)] = col
            okb, why = is_lower_bound(lane(v, q, w), w, op, ini)
            if okb and norm(L.iter[1]) == ('k', 1):
                # rows 1.. are compared in the loop: row 0 must be the initial value of the lane, at the lane's own column
                c0 = col_of(lane(v, q, w), w)
                if not (why == 'first row of the matrix' and c0 is not None and parse_off(c0[0][1]) is not None and (parse_off(c0[0][1]) + c0[1]) // w == col):
                    okb, why = False, f'{why} while the loop starts at row 1 (row 0 of column {col} is never compared)'
            if not okb:
                bad_init.append((l, q, why))
    if bad_init:
        l0 = bad_init[0]
        ctx.fail('R7.1', f, 'reduction identity', f'{len(bad_init)} accumulator lanes (e.g. {f.local_name(l0[0])}[{l0[1]}]) start at {l0[2]} which is not a lower bound of the element domain: '
                 'a matrix whose cells are all below it reports the initial value instead of its maximum')
    if sorted(cols.values()) != list(range(32)):
        probs.append(f'accumulator lanes cover columns {sorted(set(cols.values()))[:8]}…, expected each of 0..31 once')
    # final reduction: the vector spilled to the local array is a max-tree over all accumulator lanes
    spills = [a for a in E.acc if a.kind == 'store' and isinstance(a.ptr, Ptr) and isinstance(a.ptr.base, tuple) and a.ptr.base[0] == 'local' and isinstance(a.value, Vec)]
    leaves = set()
    for a in spills:
        for q in range(len(a.value) // w):
            collect_leaves(lane(a.value, q, w), op, H, w, leaves)
    if leaves != set(cols):
        probs.append(f'the final reduction combines {len(leaves)} of the {len(cols)} accumulator lanes')
    # scalar epilogue reduces the whole spilled array
    spilled_locals = {a.ptr.base[1] for a in spills}
    why_red = scalar_max_over_whole(f, spilled_locals, op)
    if why_red is not None:
        probs.append(why_red)
    if probs:
        ctx.fail('R7.1', f, 'max kernel', '; '.join(probs[:4]))
    elif not bad_init:
        ctx.ok('R7.1', f, f'{f.name}: per-column {op} over all rows from a lower-bound identity; all 32 columns reduced', [f'{len(cols)} lanes', 'final tree covers every lane'])


def scalar_max_over_whole(f, spilled_locals, op):
    """The scalar epilogue of a max kernel returns the maximum of *all* elements of the spilled array.  None if so, else a reason.
    Forms: x.into_iter().reduce(max) / .max() / .fold(..) / .max_by(..) over the whole array (no slicing, take, skip, step);
    or the explicit loop  `best = x[0]; for v in &x[1..] { best = max(best, v) }` / `if v > best { best = v }`  (or over all of x)."""
    R = X.Rec(f)
    whole = lambda e: e[0] == 'v' and e[1] in spilled_locals

    def strip_iter(e):
        e = norm(e, True)
        while e[0] == 'call' and len(e[2]) == 1 and e[1].endswith(('slice::iter', 'into_iter', 'Iterator::copied', 'Iterator::cloned', 'array::iter')):
            e = norm(e[2][0], True)
        return e
    for bi, t in f.calls():
        c = f.callee_short(t) or ''
        if c.endswith(('Iterator::reduce', 'Iterator::max', 'Iterator::fold', 'Iterator::max_by')):
            src = strip_iter(R.operand(t['args'][0]))
            if src[0] == 'v' and not whole(src):
                # the iterator may live in a local: follow its definitions
                ds = f.defs().get(src[1], [])
                vals = [strip_iter(R.call(x) if si == 'term' else R.rvalue(x)) for _, si, x in ds]
                if vals and all(v == vals[0] for v in vals):
                    src = vals[0]
            if whole(src):
                return None
            return f'the scalar reduction runs over {X.show(src, 80)}, not over the whole spilled array'
    # explicit loop
    for l in range(len(f.locals)):
        ds = f.defs().get(l, [])
        if len(ds) < 2:
            continue
        inits, upds = [], []
        for bi, si, x in ds:
            if si == 'term':
                v = norm(R.call(x))
            else:
                v = norm(R.rvalue(x))
            in_loop = any(bi in L_['body'] for L_ in f.loops())
            (upds if in_loop else inits).append((bi, v))
        if len(inits) != 1 or not upds:
            continue
        i0 = inits[0][1]
        first = m(('idx', '$x', ('k', 0)), i0)
        if first is None or not whole(norm(first['$x'], True)):
            continue
        ok_all = True
        for bi, v in upds:
            # best = max(best, e) | best = e under e > best / e >= best
            e = None
            mm = m(('call~', ('f32::max', 'Ord::max', 'cmp::max'), ('$a', '$b')), v)
            if mm is not None and ('v', l) in (mm['$a'], mm['$b']):
                e = mm['$b'] if mm['$a'] == ('v', l) else mm['$a']
            else:
                rels = G.relations(f, R, bi)
                if any(r[0] in ('gt', 'ge') and norm(r[1]) == v and norm(r[2]) == ('v', l) for r in rels) or \
                        any(r[0] in ('lt', 'le') and norm(r[2]) == v and norm(r[1]) == ('v', l) for r in rels):
                    e = v
            if e is None or e[0] != 'elem':
                ok_all = False
                break
            src = norm(e[1], True)
            while src[0] == 'call' and len(src[2]) == 1 and src[1].endswith(('slice::iter', 'into_iter', 'Iterator::copied', 'Iterator::cloned')):
                src = norm(src[2][0], True)
            rest = m(('call~', ('::index', 'SliceIndex::index'), ('$x', ('agg', '$tag', (('k', '$from'),)))), src)
            if whole(src):
                continue
            if rest is not None and whole(norm(rest['$x'], True)) and isinstance(rest['$tag'], tuple) and rest['$tag'][1].endswith('RangeFrom') and rest['$from'] in (0, 1):
                continue
            ok_all = False
        if ok_all:
            return None
    return 'no scalar reduction over the whole spilled array (iterator reduction or explicit maximum loop)'


def collect_leaves(t, op, H, w, out):
    if isinstance(t, tuple):
        if t[0] == op and len(t) == 3:
            collect_leaves(t[1], op, H, w, out)
            collect_leaves(t[2], op, H, w, out)
        elif t[0] == 'outw' and t[1] == H:
            out.add((t[2], t[3]))
        elif t[0] == 'out' and t[1] == H:
            out.add((t[2], t[3]))


def check_argmax(db, ctx, path, w_val, w_idx, kind):
    """kind: 'f32' | 'u8'."""
    f, E, err = K.evaluate(db, path)
    if E is not None:
        E = K.bump_view(E)
    if E is None:
        ctx.fail('R7.2', f, 'lane evaluation', f'reason=unrecognised-shape: {err}')
        return
    H = row_loop(E)
    if H is None:
        ctx.fail('R7.2', f, 'row loop', 'reason=unrecognised-shape: no loop over the matrix rows')
        return
    probs = []
    e_cell = 4 if kind == 'f32' else 1
    r = check_data_ptr(E, H, probs, e_cell)
    if r is None:
        ctx.fail('R7.2', f, 'data pointer', '; '.join(probs))
        return
    p, ini = r
    L = E.loops[H]
    elem_i = ('elem', L.iter, H)
    vals, idxs = {}, {}
    w = w_idx
    for l, v in L.carried.items():
        if not isinstance(v, Vec):
            continue
        for q in range(len(v) // w):
            t = lane(L.update[l], q, w)
            me = ('phiw', H, l, q, w)
            if not (isinstance(t, tuple) and t[0] == 'select' and t[3] == me):
                probs.append(f'{f.local_name(l)}[{q}] update is {str(t)[:80]}, expected select(mask, new, old)')
                continue
            mask, new = t[1], t[2]
            if isinstance(new, tuple) and new[0] == 'scalar' and new[2] == elem_i:
                idxs[(l, q)] = mask
            else:
                vals[(l, q)] = (mask, new)
    # pair value / index accumulators by mask
    colmap = {}
    bad_init = []
    for (lp, q), mask in idxs.items():
        partner = [(lv, qv) for (lv, qv), (mk, new) in vals.items() if mk == mask]
        if len(partner) != 1:
            probs.append(f'index lane {f.local_name(lp)}[{q}] has no value lane updated under the same mask (R7.4)')
            continue
        lv, qv = partner[0]
        mk, new = vals[(lv, qv)]
        sphi = ('phiw', H, lv, qv, w)
        # mask relates phi_s and the cell r
        rterm = None
        if mask[0] == 'cmp' and mask[1] in LE_LT and mask[2] == sphi:
            rterm = mask[3]
        elif mask[0] == 'cmp' and mask[1] in GE_GT and mask[3] == sphi:
            rterm = mask[2]
        elif mask[0] == 'gt' and mask[2] == sphi:
            rterm = mask[1]
        if rterm is None:
            probs.append(f'mask of {f.local_name(lp)}[{q}] is {str(mask)[:80]}: not a comparison `cell >= current best` of its own column')
            continue
        # new value: the cell itself, or cell - 1 with a strict compare on zero-extended bytes
        if not (new == rterm or (mask[0] == 'gt' and new == ('sub_i16', rterm, ('kw', 2, 1)))):
            probs.append(f'value lane {f.local_name(lv)}[{qv}] takes {str(new)[:60]} instead of the compared cell')
            continue
        c = col_of(rterm, e_cell)
        if c is None or c[0][0] != ('phi', H, p) or parse_off(c[0][1]) is None:
            probs.append(f'{f.local_name(lp)}[{q}] compares {str(rterm)[:60]}, not a cell of the current row')
            continue
        colmap[(lp, q)] = (parse_off(c[0][1]) + c[1]) // e_cell
        okb, why = is_lower_bound(lane(L.carried[lv], qv, w), w, 'f32' if kind == 'f32' else 'i16-of-u8', ini)
        if not okb:
            bad_init.append((lv, qv, why))
        ip = lane(L.carried[lp], q, w)
        if not LN.zero(ip, w):
            probs.append(f'index lane {f.local_name(lp)}[{q}] does not start at row 0')
    if bad_init:
        l0 = bad_init[0]
        ctx.fail('R7.1', f, 'reduction identity', f'value accumulators (e.g. {f.local_name(l0[0])}[{l0[1]}]) start at {l0[2]}, not a lower bound of the cells')
    if sorted(colmap.values()) != list(range(len(colmap))) or not colmap:
        probs.append(f'index lanes cover columns {sorted(colmap.values())[:10]}…')
    # spill: element t of the local index array <- (index acc, lane); must hold column t
    spills = [a for a in E.acc if a.kind == 'store' and isinstance(a.ptr, Ptr) and isinstance(a.ptr.base, tuple) and a.ptr.base[0] == 'local' and isinstance(a.value, Vec)]
    elem_col = {}
    for a in spills:
        off = a.ptr.off
        if set(off) - {''}:
            probs.append('spill offset is not constant')
            continue
        o = int(off.get('', 0))
        for q in range(len(a.value) // w):
            t = lane(a.value, q, w)
            if isinstance(t, tuple) and t[0] == 'outw' and t[1] == H and (t[2], t[3]) in colmap:
                elem_col[(o + q * w) // w] = colmap[(t[2], t[3])]
            else:
                probs.append(f'spilled element {(o + q * w) // w} is {str(t)[:60]}, not an index accumulator lane')
    wrong = {t: c for t, c in elem_col.items() if t != c}
    if wrong:
        ex = sorted(wrong.items())[:4]
        ctx.fail('R7.2', f, 'lane -> column attribution',
                 f'{len(wrong)} spilled index elements hold the candidate of a different column than the position the scalar epilogue attributes to them '
                 f'(element -> column: {ex} …): the reported coordinates pair a row with the wrong column', span=spills[0].span if spills else None)
    elif sorted(elem_col) != list(range(len(colmap))):
        probs.append(f'spilled elements {sorted(elem_col)[:6]}… do not cover all {len(colmap)} columns')
    if probs:
        ctx.fail('R7.2', f, 'argmax kernel', '; '.join(probs[:4]))
    elif not wrong and not bad_init:
        ctx.ok('R7.2', f, f'{f.name}: spilled element t holds the best row of column t for every t', [f'{len(colmap)} lanes', 'value and index blended under one mask (R7.4)'])
    return E


def check_argmax_sse2(db, ctx):
    f, E, err = K.evaluate(db, SSE2 + 'argmax_sse2')
    if E is not None:
        E = K.bump_view(E)
    if E is None:
        ctx.fail('R7.2', f, 'lane evaluation', f'reason=unrecognised-shape: {err}')
        return
    H = row_loop(E)
    probs = []
    if H is None:
        ctx.fail('R7.2', f, 'row loop', 'reason=unrecognised-shape')
        return
    L = E.loops[H]
    H0 = L.parent
    r = check_data_ptr_off(E, H, probs)
    if r is None:
        ctx.fail('R7.2', f, 'data pointer', '; '.join(probs))
        return
    p, ini = r
    elem_i = ('elem', L.iter, H)
    w = 4
    vals, idxs = {}, {}
    for l, v in L.carried.items():
        if not isinstance(v, Vec):
            continue
        for q in range(len(v) // w):
            t = lane(L.update[l], q, w)
            me = ('phiw', H, l, q, w)
            if not (isinstance(t, tuple) and t[0] == 'select' and t[3] == me):
                probs.append(f'{f.local_name(l)}[{q}] update is {str(t)[:80]}')
                continue
            if isinstance(t[2], tuple) and t[2][0] == 'scalar' and t[2][2] == elem_i:
                idxs[(l, q)] = t[1]
            else:
                vals[(l, q)] = (t[1], t[2])
    colmap = {}
    bad_init = []
    for (lp, q), mask in idxs.items():
        partner = [(lv, qv) for (lv, qv), (mk, new) in vals.items() if mk == mask]
        if len(partner) != 1:
            probs.append(f'index lane {f.local_name(lp)}[{q}] is not paired with a value lane under the same mask')
            continue
        lv, qv = partner[0]
        sphi = ('phiw', H, lv, qv, w)
        rterm = mask[3] if mask[0] == 'cmp' and mask[1] in LE_LT and mask[2] == sphi else (mask[2] if mask[0] == 'cmp' and mask[1] in GE_GT and mask[3] == sphi else None)
        if rterm is None or vals[(lv, qv)][1] != rterm:
            probs.append(f'lane {f.local_name(lp)}[{q}]: mask/value do not compare and take the same cell')
            continue
        c = col_of(rterm, 4)
        if c is None or c[0][0] != ('phi', H, p) or parse_off(c[0][1]) is None:
            probs.append('compared cell is not in the current row')
            continue
        colmap[(lp, q)] = (parse_off(c[0][1]) + c[1]) // 4      # relative to the block offset
        okb, why = is_lower_bound(lane(L.carried[lv], qv, w), w, 'f32', None)
        if not okb:
            bad_init.append((lv, qv, why))
    if bad_init:
        ctx.fail('R7.1', f, 'reduction identity', f'value accumulators start at {bad_init[0][2]}, not a lower bound')
    # spills relative to outptr = output.as_mut_ptr().add(offset): element = offset + (const + 4q)/4 ; data column = offset + colmap
    spills = [a for a in E.acc if a.kind == 'store' and isinstance(a.ptr, Ptr) and isinstance(a.value, Vec) and 'impls::default' in repr(a.ptr.base) or
              (a.kind == 'store' and isinstance(a.ptr, Ptr) and isinstance(a.value, Vec) and a.loops == (H0,))]
    elem_col = {}
    data_off = ini.off
    for a in spills:
        for q in range(len(a.value) // w):
            t = lane(a.value, q, w)
            if isinstance(t, tuple) and t[0] == 'outw' and t[1] == H and (t[2], t[3]) in colmap:
                el = K.lin_add(K.lin_div(a.ptr.off, 4), {'': Fraction(q)})
                co = K.lin_add(K.lin_div(data_off, 4), {'': Fraction(colmap[(t[2], t[3])])})
                elem_col[X.lin_str(el)] = X.lin_str(co)
    wrong = {t: c for t, c in elem_col.items() if t != c}
    if wrong or len(elem_col) != 16:
        ctx.fail('R7.2', f, 'lane -> column attribution', f'spilled elements / columns: {sorted(elem_col.items())[:4]} …')
    elif probs:
        ctx.fail('R7.2', f, 'argmax kernel', '; '.join(probs[:4]))
    elif not bad_init:
        ctx.ok('R7.2', f, 'argmax_sse2: output[offset + t] holds the best row of column offset + t (t in 0..16, all blocks)', ['16 lanes per block'])


def check_data_ptr_off(E, H, probs):
    L = E.loops[H]
    ps = [l for l, v in L.carried.items() if isinstance(v, Ptr)]
    if len(ps) != 1:
        probs.append(f'{len(ps)} pointers carried by the row loop')
        return None
    p = ps[0]
    ini = L.carried[p]
    u = K.ptr_update(E, H, p)
    if u is None or list(u.values()) != [Fraction(4)] or 'DenseMatrix::stride' not in list(u)[0]:
        probs.append('data pointer stride')
    return p, ini


def whole_array_enumeration(g, it):
    """`it` is enumerate(iter(x)) / enumerate(into_iter(x)) over a whole local array x (no slicing, take, skip or step)."""
    mm = m(('call~', 'Iterator::enumerate', (('call~', ('slice::iter', 'iter::into_iter', 'IntoIterator::into_iter'), ('$x',)),)), norm(it))
    if mm is None:
        return False
    x = mm['$x']
    if x[0] != 'v':
        return False
    ty = g.local_ty(x[1]) if hasattr(g, 'local_ty') else None
    return ty is None or ty.startswith('[')


def epilogue_candidates(db, f):
    """(None, description) when the scalar epilogue of an argmax kernel selects among the candidates (row = x[t], col = t) for *every*
    column t of the spilled index array x, by comparing the cells at those coordinates; else (reason, None)."""
    from lm import iteralg as IA
    sc, why = selection_scan(db, f)
    if sc is None:
        return why, None
    M, r, c, C = sc['M'], sc['r'], sc['c'], sc['C']
    if not common.is_call_on(M, 'StripedScores::matrix', ('p', 1)):
        return f'the compared cells are read from {X.show(M, 60)}, not from the scores matrix', None
    # c = t (position, or lo + position), r = x[t]
    if IA.is_pos(c):
        t, lo = c, 0
    elif c[0] == 'bin' and c[1] == 'Add' and c[2][0] == 'k' and IA.is_pos(c[3]):
        t, lo = c[3], c[2][1]
    else:
        return f'the column of a candidate is {X.show(c, 60)}, not its position t', None
    # (x viewed as a slice of its whole self is x)
    if r[0] == 'at' and r[1][0] == 'call' and r[1][1].endswith(('GenericArray::as_slice', 'array::as_slice', 'GenericArray::as_ref')) and len(r[1][2]) == 1:
        r = ('at', norm(r[1][2][0]), r[2])
    if not (r[0] == 'at' and r[2] == c and r[1][0] == 'v' and f.local_ty(r[1][1]).startswith(('[', 'generic_array::GenericArray'))):
        return f'the row of candidate t is {X.show(r, 60)}, not x[t] for the spilled index array x', None
    xs = r[1]
    ext = C.extents.get(t[1])
    if not ext or len(ext) != 1 or not _complete_loop(f, t[1]):
        return f'candidate positions {ext} are not one complete range', None
    e = ext[0]
    if e[0] == 'len':
        hi, elo = e, ('k', 0)
        whole_hi = e[1] == xs
    elif e[0] == 'sub':
        hi, elo = e[1], e[2]
        ty = f.local_ty(xs[1])
        whole_hi = common.is_len_of(hi, xs) or hi == ('len', xs) or common.is_usize_const(hi, 'C') or (hi[0] == 'k' and ty.startswith('[') and ty.rstrip(']').endswith('; ' + str(hi[1])))
    else:
        return f'candidate extent {e}', None
    if not whole_hi or elo != ('k', lo):
        return f'candidates cover t in {X.show(elo, 20)}..{X.show(hi, 40)}, not every column of the spilled array', None
    if lo not in (0, 1):
        return f'candidates start at column {lo}', None
    if lo == 1:
        # column 0 must be the initial candidate: best := M[x[0]][0] with coordinates (x[0], 0)
        ic = sc.get('init_cell')
        want = (M, ('at', xs, ('k', 0)), ('k', 0))
        icoords = sc.get('init_coords') or []
        ok0 = ic == want and ((len(icoords) == 1 and icoords[0] is not None and icoords[0][0] == 'call' and icoords[0][1].endswith(MC_NEW) and tuple(icoords[0][2]) == want[1:])
                              or (len(icoords) == 2 and tuple(icoords) == want[1:]))
        if not ok0:
            return 'the scan starts at column 1 but column 0 is not the initial candidate', None
    elif sc['how'] == 'loop':
        # every column is compared in the loop: the initial value only has to be a lower bound that cannot win wrongly —
        # a cell of the same matrix (then its coordinates must be the initial coordinates) or the least element
        ic, iv = sc.get('init_cell'), sc['init']
        icoords = sc.get('init_coords') or []
        if ic is not None:
            same = ic[0] == M and ((len(icoords) == 1 and icoords[0] is not None and ((icoords[0][0] == 'call' and icoords[0][1].endswith(MC_NEW) and tuple(icoords[0][2]) == ic[1:])
                                                                                       or (icoords[0][0] == 'call' and icoords[0][1].endswith('Default::default') and ic[1:] == (('k', 0), ('k', 0)))))
                                   or (len(icoords) == 2 and tuple(icoords) == ic[1:]))
            if not same:
                return 'the initial best value is not the cell at the initial coordinates', None
        elif not _lower_bound_init(iv):
            return f'the running best starts from {X.show(iv, 60)}: neither a cell of the matrix nor the least element', None
    return None, f'candidates (x[t], t) for t in {lo}..{X.show(hi, 30)} ({sc["how"]})'


def epilogue_position_semantics(db, ctx):
    """The scalar epilogues attribute to element t of the spilled array the column t."""
    ctx.rule('R7.2e', 'scalar epilogue: the column of a candidate is its position in the spilled index array; every column 0..C is a candidate; the winner is chosen by comparing cell values (R7.4)')
    n = 0
    for path in (AVX2 + 'argmax_f32_avx2', AVX2 + 'argmax_u8_avx2', SSE2 + 'argmax_sse2'):
        f = db.fn(path)
        why, desc = epilogue_candidates(db, f)
        if why is None:
            n += 1
            ctx.ok('R7.2e', f, 'candidate (row = x[t], col = t) for every column t; winner chosen by comparing data[pos]', [desc])
        else:
            ctx.fail('R7.2e', f, 'scalar epilogue', why if why.startswith('reason=') else
                     f'cannot match the epilogue to (row = spilled[t], col = t) over *every* column t in 0..C with a comparison of cell values: {why}')
    ctx.floor('R7.2e', n, 3, 'argmax epilogues')


def r73(db, ctx):
    ctx.rule('R7.3', 'None is returned exactly when the matrix has no rows, and that guard dominates the first dereference of row 0')
    n = 0
    paths = [AVX2 + x for x in ('argmax_f32_avx2', 'max_f32_avx2', 'argmax_u8_avx2', 'max_u8_avx2')] + [SSE2 + 'argmax_sse2']
    fs = [db.fn(p) for p in paths] + [g for g in db.by_short.get('lightmotif::pli::Maximum::argmax', []) if g.raw.get('trait_default_of')]
    for f in fs:
        R = X.Rec(f)
        firsts = []
        for bi, t in f.calls():
            c = f.callee_short(t) or ''
            if c.endswith('::index') and len(t['args']) == 2 and norm(R.operand(t['args'][1])) in (('k', 0),) or \
                    (c.endswith('::index') and 'MatrixCoordinates::default' in X.canon(norm(R.operand(t['args'][1])))):
                firsts.append((bi, t))
        nones = [bi for bi, blk in enumerate(f.blocks) for st in blk['stmts'] if st['k'] == 'assign' and st['p']['l'] == 0 and st['rv']['k'] == 'agg' and st['rv'].get('variant') == 'None']
        okg = True
        for bi, t in firsts:
            rels = G.relations(f, R, bi)
            if not any(r[0] == 'false' and r[1][0] == 'call' and r[1][1].endswith('is_empty') for r in rels):
                okg = False
        none_ok = False
        for bi in nones:
            rels = G.relations(f, R, bi)
            if any(r[0] == 'true' and r[1][0] == 'call' and r[1][1].endswith('is_empty') for r in rels):
                none_ok = True
        if firsts and okg and none_ok:
            n += 1
            ctx.ok('R7.3', f, 'is_empty() -> None; row 0 only touched on the non-empty side', [f'{len(firsts)} first-row accesses'])
        else:
            ctx.fail('R7.3', f, 'emptiness guard', f'first-row accesses guarded={okg}, None-on-empty={none_ok}, first-row accesses found={len(firsts)}')
    ise = db.fn('lightmotif::scores::StripedScores::is_empty')
    e = norm(common.return_expr_single_path_allow(ise))
    if m(('bin', 'Eq', ('call~', 'DenseMatrix::rows', (('fld', ('p', 1), 'data'),)), ('k', 0)), e) is not None:
        ctx.ok('R7.3', ise, 'is_empty() = data.rows() == 0')
    else:
        ctx.fail('R7.3', ise, 'is_empty', f'is_empty is {X.show(e, 80)}')
    ctx.floor('R7.3', n, 6, 'max/argmax implementations with the emptiness guard')


def r75(db, ctx):
    ctx.rule('R7.5', 'Threshold::threshold pushes (row, col) for every row and every col < C under cell >= t (inclusive, each cell once); no backend overrides it')
    fs = [g for g in db.by_short.get('lightmotif::pli::Threshold::threshold', []) if g.raw.get('trait_default_of')]
    over = [im for im in db.impls if im.get('trait_def') == 'lightmotif::pli::Threshold' and 'threshold' in im['items']]
    if over:
        for im in over:
            ctx.fail('R7.5', im['path'], 'threshold override', 'a backend overrides threshold(); its lane semantics are not covered by a rule (reason=unrecognised-shape)')
    if len(fs) != 1:
        ctx.fail('R7.5', 'lightmotif::pli::Threshold::threshold', 'default body', 'reason=anchor-missing')
        return
    f = fs[0]
    R = X.Rec(f)
    pushes = [(bi, t) for bi, t in f.calls() if (f.callee_short(t) or '').endswith('Vec::push')]
    ok = False
    why = f'{len(pushes)} pushes'
    if len(pushes) == 1:
        bi, t = pushes[0]
        v = norm(R.operand(t['args'][1]))
        b = m(('call~', 'MatrixCoordinates::new', (('fld', ('elem', ('call~', 'enumerate', (('call~', 'DenseMatrix::iter', ('$mx',)),)), '$L'), '0'), '$col')), v)
        rels = G.relations(f, R, bi)
        g = [r for r in rels if r[0] in ('ge', 'gt', 'le', 'lt')]
        colix = common.index_form(b['$col']) if b is not None else None
        if b is not None and colix is not None and common.is_call_to(b['$mx'], 'StripedScores::matrix') and g:
            r = g[-1]
            lhs, rhs, rel = norm(r[1]), norm(r[2]), r[0]
            if common.cell_form(rhs) is not None and common.cell_form(lhs) is None:
                lhs, rhs, rel = rhs, lhs, {'ge': 'le', 'gt': 'lt', 'le': 'ge', 'lt': 'gt'}[rel]
            cf = common.cell_form(lhs)
            row_i = ('fld', ('elem', norm(v)[2][0][1][1], b['$L']), '1')       # the row of the same enumerate element whose .0 is pushed
            if cf is not None and norm(cf[0]) == norm(row_i) and norm(cf[1]) == norm(b['$col']) and common.covers_all_columns(cf[3], cf[0]) and rel == 'ge' and rhs[0] == 'p':
                ok = True
            else:
                why = f'comparison is {X.show(lhs, 60)} {rel} {X.show(rhs, 30)} (cell of the pushed row/column over all C columns expected)'
        elif b is not None and colix is None and common.is_call_to(b['$mx'], 'StripedScores::matrix') and g:
            # the column is a hand-written counter: `let mut col = 0; while col < C { .. col += 1; }`
            from lm import iteralg as IA
            wc = IA.while_counters(f, R)
            cv = norm(b['$col'])
            ent = wc.get(cv[1]) if cv[0] == 'v' else None
            row_i = norm(('fld', ('elem', norm(v)[2][0][1][1], b['$L']), '1'))
            if ent is not None and not isinstance(ent[0], tuple) and ent[1] == ('k', 0) and ent[2] is not None and common.is_usize_const(norm(ent[2]), 'C'):
                for r in g:
                    lhs, rhs, rel = norm(r[1]), norm(r[2]), r[0]
                    if rel == 'le':
                        lhs, rhs, rel = rhs, lhs, 'ge'
                    if rel == 'ge' and lhs[0] == 'idx' and norm(lhs[1]) == row_i and norm(lhs[2]) == cv and rhs[0] == 'p':
                        ok = True
                if not ok:
                    why = 'no test row_i[col] >= t dominates the push'
            else:
                why = f'pushed {X.show(v, 120)}'
        else:
            why = f'pushed {X.show(v, 120)}'
    (ctx.ok if ok else ctx.fail)('R7.5', f, 'threshold: push (i, col) iff row_i[col] >= t, all rows x all C columns', *([['inclusive', 'each cell once']] if ok else [why]))


def r76(db, ctx):
    ctx.rule('R7.6', 'StripedScores::{max, argmax, threshold} go through the dispatching pipeline and offset(); Scores::{max, argmax, threshold} use the natural order / >=')
    n = 0
    for nm, inner in (('max', 'Maximum::max'), ('argmax', 'Maximum::argmax'), ('threshold', 'Threshold::threshold')):
        f = db.fn(f'lightmotif::scores::StripedScores::{nm}')
        cs = {f.callee_short(t) for _, t in f.calls()} | {g.callee_short(t) for g in db.closures_of(f) for _, t in g.calls()}
        need = {'lightmotif::pli::' + inner, 'lightmotif::pli::Pipeline::dispatch'} | ({'lightmotif::scores::StripedScores::offset'} if nm != 'max' else set())
        inl = False
        if not need <= cs and need - cs == {'lightmotif::scores::StripedScores::offset'}:
            # offset() inlined: the coordinates are mapped by col * data.rows() + row written out (the formula R1.4 demands of offset())
            for g_ in [f] + list(db.closures_of(f)):
                Rg_ = X.Rec(g_)
                for bi_, blk_ in enumerate(g_.blocks):
                    for st_ in blk_['stmts']:
                        if st_.get('k') != 'assign' or st_['rv'].get('k') != 'bin' or not st_['rv'].get('op', '').startswith('Add'):
                            continue
                        try:
                            e_ = Rg_.at(bi_).rvalue(st_['rv'])
                            if e_[0] == 'bin' and e_[1].endswith('WithOverflow'):
                                e_ = ('bin', e_[1][:-len('WithOverflow')], e_[2], e_[3])
                            e_ = norm(e_)
                        except Exception:
                            continue
                        for a_, b_ in ((e_[2], e_[3]), (e_[3], e_[2])):
                            a_, b_ = norm(a_), norm(b_)
                            if not (b_[0] == 'fld' and b_[2] == 'row' and a_[0] == 'bin' and a_[1] == 'Mul'):
                                continue
                            for c_, r_ in ((norm(a_[2]), norm(a_[3])), (norm(a_[3]), norm(a_[2]))):
                                if not (c_[0] == 'fld' and c_[2] == 'col' and c_[1] == b_[1]):
                                    continue
                                if g_ is not f and r_[0] == 'fld' and X.strip_refs(r_[1]) == ('p', 1) and str(r_[2]).isdigit():
                                    # a captured value: what the parent put into that slot of the closure
                                    Rf_ = X.Rec(f)
                                    for bj_, blk2_ in enumerate(f.blocks):
                                        for st2_ in blk2_['stmts']:
                                            if st2_.get('k') == 'assign' and st2_['rv'].get('k') == 'agg' and st2_['rv'].get('ak') == 'closure' and st2_['rv'].get('closure') == g_.path:
                                                r_ = X.strip_refs(norm(Rf_.at(bj_).operand(st2_['rv']['ops'][int(r_[2])])))
                                if m(('call~', 'DenseMatrix::rows', (('fld', ('p', 1), 'data'),)), X.strip_refs(r_)) is not None:
                                    inl = True
        if need <= cs or inl:
            n += 1
            ctx.ok('R7.6', f, f'StripedScores::{nm} = dispatch().{nm}(self)' + (' mapped through offset()' if nm != 'max' else '') + (' (inlined: col * rows + row)' if inl else ''))
        else:
            ctx.fail('R7.6', f, f'StripedScores::{nm}', f'missing callees {sorted(need - cs)}')
    f = db.fn('lightmotif::scores::Scores::threshold')
    okc = scores_threshold_form(db, f)
    if not okc:
        # loop form: positions are pushed under x >= threshold
        Rf = X.Rec(f)
        for bi, t in f.calls():
            if (f.callee_short(t) or '').endswith('Vec::push'):
                for r in G.relations(f, Rf, bi):
                    if r[0] == 'ge' and any(x == ('p', 2) for x in X.walk(norm(r[2]))) and any(x[0] == 'elem' for x in X.walk(norm(r[1]))):
                        okc = True
                    if r[0] == 'le' and any(x == ('p', 2) for x in X.walk(norm(r[1]))) and any(x[0] == 'elem' for x in X.walk(norm(r[2]))):
                        okc = True
    (ctx.ok if okc else ctx.fail)('R7.6', f, 'Scores::threshold filters with >=', *([[]] if okc else ['filter is not x >= threshold']))
    ctx.floor('R7.6', n, 3, 'StripedScores reductions')


def scores_threshold_form(db, f):
    """Scores::threshold collects, in order, every position i of self.data with data[i] >= threshold:
    `enumerate().filter(|(_, x)| x >= &t).map(|(i, _)| i).collect()` or `enumerate().filter_map(|(i, x)| if x >= t { Some(i) } else { None }).collect()`."""
    from lm import reduce as RD
    R = X.Rec(f)
    C = RD.RCanon(db, f, R)
    e = common.return_expr_single_path_allow(f)
    if e is None:
        return False
    e = norm(e)
    if not (e[0] == 'call' and e[1].endswith('Iterator::collect') and len(e[2]) == 1):
        return False
    P = e[2][0]
    L = RD._fresh()
    pos = ('pos', L)
    data = ('fld', ('p', 1), 'data')

    def is_keep(cond):
        r = G.as_relation(C.canon(cond), True)
        cell = lambda x: x == ('at', data, pos)
        thr = lambda x: norm(x) == ('p', 2)
        return (r[0] == 'ge' and cell(r[1]) and thr(r[2])) or (r[0] == 'le' and thr(r[1]) and cell(r[2]))
    whole = lambda ext: ext == [('len', data)]
    if P[0] == 'call' and P[1].endswith('Iterator::filter_map') and len(P[2]) == 2:
        el = C.elem_of(P[2][0], L)
        body = RD.apply_fn(db, P[2][1], [el[0]]) if el is not None else None
        if body is None or body[0] != 'ite' or not whole(el[1]):
            return False
        some = C.canon(body[2])
        none = C.canon(body[3])
        return is_keep(body[1]) and some[0] == 'agg' and len(some[2]) == 1 and some[2][0] == pos and none[0] == 'agg' and not none[2]
    if P[0] == 'call' and P[1].endswith('Iterator::map') and len(P[2]) == 2 and P[2][0][0] == 'call' and P[2][0][1].endswith('Iterator::filter'):
        Fl = P[2][0]
        el = C.elem_of(Fl[2][0], L)
        if el is None or not whole(el[1]):
            return False
        cond = RD.apply_fn(db, Fl[2][1], [el[0]])
        out = RD.apply_fn(db, P[2][1], [el[0]])
        return cond is not None and out is not None and is_keep(cond) and C.canon(out) == pos
    return False


MC_NEW = 'MatrixCoordinates::new'


def _cell_view(v):
    """Canonical value -> (M, row, col) when v reads one cell of a matrix: M[row][col] or M[MatrixCoordinates::new(row, col)]."""
    if v[0] != 'at':
        return None
    if v[1][0] == 'at':
        return (v[1][1], v[1][2], v[2])
    if v[2][0] == 'call' and v[2][1].endswith(MC_NEW) and len(v[2][2]) == 2:
        return (v[1], v[2][2][0], v[2][2][1])
    return None


def selection_scan(db, f):
    """The "running best" selection of a cell of a matrix, whatever its spelling:

        best := init; for each candidate (r, c): if M[r][c] >= best { best := M[r][c]; coords := (r, c) }; Some(coords)
        candidates.map(|..| MatrixCoordinates::new(r, c)).max_by_key(|&pos| &M[pos])

    Returns (dict(M, r, c, C, how, init, init_cell, strict), None) or (None, reason).  r / c are canonical in the positions of the loops
    (see lm.iteralg); the caller decides which candidates are required.  Checked here: the compared value is the candidate's own cell, the
    comparison is cell >= / > running best, the coordinates are updated under that same comparison to the candidate's coordinates, and
    those coordinates are what is returned."""
    from lm import iteralg as IA, reduce as RD
    R = X.Rec(f)
    C = RD.RCanon(db, f, R)
    # iterator form: the returned value is max_by_key over mapped candidates
    for bi, t in f.calls():
        if t['dest']['l'] == 0 and not t['dest']['pr'] and (f.callee_short(t) or '').endswith('Iterator::max_by_key'):
            e = norm(R.call(t))
            L = RD._fresh()
            el = C.elem_of(e[2][0], L)
            if el is None:
                return None, 'reason=unrecognised-shape: candidates of max_by_key not understood'
            key = RD.apply_fn(db, e[2][1], [el[0]])
            cand = el[0]
            if key is None or not (cand[0] == 'call' and cand[1].endswith(MC_NEW) and len(cand[2]) == 2):
                return None, f'reason=unrecognised-shape: max_by_key candidate {X.show(cand, 80)}'
            kv = _cell_view(C.canon(key))
            if kv is None or (kv[1], kv[2]) != (cand[2][0], cand[2][1]):
                return None, 'the key of a candidate is not the cell at its own coordinates'
            C.extents[L] = el[1]
            return dict(M=kv[0], r=kv[1], c=kv[2], C=C, how='max_by_key', init=None, init_cell=None, strict=False, R=R), None
    in_loop = lambda b: any(b in L['body'] for L in f.loops())
    val = lambda d: C.canon(R.call(d[2]) if d[1] == 'term' else R.rvalue(d[2]))
    cands = []
    for l, ds in f.defs().items():
        upd = [d for d in ds if in_loop(d[0])]
        ini = [d for d in ds if not in_loop(d[0])]
        if len(upd) != 1 or len(ini) != 1:
            continue
        try:
            v = val(upd[0])
        except Exception:
            continue
        cv = _cell_view(v)
        if cv is not None and f.local_ty(l) in ('f32', 'u8', 'T', 'i16', 'u16', 'i32', 'u32'):
            cands.append((l, upd[0], ini[0], v, cv))
    if len(cands) != 1:
        return None, f'reason=unrecognised-shape: {len(cands)} running-best locals updated with a matrix cell'
    S, upd, ini, cell, (M, r, c) = cands[0]
    rels = G.relations(f, R, upd[0])
    g = []
    for rr in rels:
        if not in_loop(rr[-1]) or rr[0] not in ('ge', 'gt', 'le', 'lt'):
            continue
        a_, b_ = (rr[1], rr[2]) if rr[0] in ('ge', 'gt') else (rr[2], rr[1])
        if C.canon(a_) == cell and norm(b_) == ('v', S):
            g.append((rr, rr[0] in ('gt', 'lt')))
    if not g:
        return None, 'comparison is not cell >= running best'
    gd, strict = g[-1][0][-1], g[-1][1]
    coords = {}
    for l, ds in f.defs().items():
        for d in ds:
            if l == S or not in_loop(d[0]) or not f.dominates(gd, d[0]):
                continue
            if not any(rr[-1] == gd for rr in G.relations(f, R, d[0])):
                continue
            v = val(d)
            if v == r and v != c:
                coords[l] = 'row'
            elif v == c and v != r:
                coords[l] = 'col'
            elif v[0] == 'call' and v[1].endswith(MC_NEW) and tuple(v[2]) == (r, c):
                coords[l] = 'both'
    ret = [norm(R.rvalue(st['rv'])) for blk in f.blocks for st in blk['stmts'] if st['k'] == 'assign' and st['p']['l'] == 0 and not st['p']['pr']
           and st['rv']['k'] == 'agg' and st['rv'].get('variant') == 'Some']
    if len(ret) != 1:
        return None, f'reason=unrecognised-shape: {len(ret)} Some(..) results'
    rv = ret[0][2][0] if ret[0][0] == 'agg' and ret[0][2] else None
    okr, clocals = False, []
    if rv is not None and rv[0] == 'v' and coords.get(rv[1]) == 'both':
        okr, clocals = True, [rv[1]]
    elif rv is not None and rv[0] == 'call' and rv[1].endswith(MC_NEW) and len(rv[2]) == 2:
        a_, b_ = norm(rv[2][0]), norm(rv[2][1])
        okr = a_[0] == 'v' and b_[0] == 'v' and coords.get(a_[1]) == 'row' and coords.get(b_[1]) == 'col'
        clocals = [a_[1], b_[1]] if okr else []
    if not okr:
        return None, 'row / col / value are not the same cell or not updated under one comparison (the returned coordinates do not travel with the running best)'
    # initial state: value and coordinates
    iv = val(ini)
    init_coords = []
    for l in clocals:
        d0 = [d for d in f.defs()[l] if not in_loop(d[0])]
        init_coords.append(val(d0[0]) if len(d0) == 1 else None)
    # data[best_pos] / data[best_row][best_col] evaluated while the coordinate locals still hold their initial values
    if all(x is not None for x in init_coords):
        env = {('v', l): x for l, x in zip(clocals, init_coords)}

        def sub(e):
            if isinstance(e, tuple):
                return env[e] if e in env else tuple(sub(y) if isinstance(y, tuple) else y for y in e)
            return e
        before = lambda a_, b_: (a_[0] != b_[0] and f.dominates(a_[0], b_[0])) or (a_[0] == b_[0] and a_[1] != 'term' and (b_[1] == 'term' or a_[1] < b_[1]))
        if all(before(d0, ini) for l in clocals for d0 in f.defs()[l] if not in_loop(d0[0])):
            iv = sub(iv)
    init_cell = _cell_view(iv)
    if init_cell is None and iv[0] == 'at' and iv[2][0] == 'call' and iv[2][1].endswith('Default::default'):
        init_cell = (iv[1], ('k', 0), ('k', 0))
    return dict(M=M, r=r, c=c, C=C, how='loop', init=iv, init_cell=init_cell, init_coords=init_coords, strict=strict, R=R, S=S), None


def _complete_loop(f, lid):
    h = common.loop_of_elem(f, ('elem', None, lid)) if not isinstance(lid, tuple) else (lid[1] if lid[0] == 'while' else None)
    if isinstance(lid, tuple) and lid[0] == 'pipe':
        return True
    L = [L_ for L_ in f.loops() if L_['header'] == h]
    can = f.postdominators()
    return bool(L) and len([1 for x, y in L[0]['exits'] if y in can]) == 1


def _lower_bound_init(iv, ty='f32'):
    iv = norm(iv)
    if iv[0] == 'un' and iv[1] == 'Neg' and iv[2][0] == 'k' and iv[2][1] == float('inf'):
        return True
    return iv[0] == 'k' and (iv[1] == float('-inf') or (iv[1] == 0 and not isinstance(iv[1], float)))


def generic_argmax_form(db, f):
    """(True, None) when f is the scan `best := first cell; for every cell x at (i, j): if x >= best { best, coords := x, (i, j) }; Some(coords)`,
    whatever the loop spelling and the names / grouping of the state variables; else (False, reason)."""
    from lm import iteralg as IA
    sc, why = selection_scan(db, f)
    if sc is None:
        return False, why
    M, prow, pcol, C = sc['M'], sc['r'], sc['c'], sc['C']
    if not (IA.is_pos(prow) and IA.is_pos(pcol)):
        return False, f'candidates ({X.show(prow, 40)}, {X.show(pcol, 40)}) are not the positions of a row / column scan'
    if not (common.is_call_on(M, 'StripedScores::matrix', ('p', 2)) or norm(M) == ('p', 2)):
        return False, f'the scanned matrix is {X.show(M, 60)}, not the scores argument'
    er, ec = C.extents.get(prow[1]), C.extents.get(pcol[1])
    rows_ok = er in ([('rows', M)], [('sub', ('call', 'lightmotif::dense::DenseMatrix::rows', (M,)), ('k', 0))])
    cols_ok = bool(ec) and len(ec) == 1 and ((ec[0][0] == 'sub' and ec[0][2] == ('k', 0) and common.is_usize_const(ec[0][1], 'C')) or ec[0] == ('len', ('at', M, prow)))
    if not rows_ok or not cols_ok:
        return False, f'the scan does not cover all rows and all C columns (row extent {er}, column extent {ec})'
    if not (_complete_loop(f, prow[1]) and _complete_loop(f, pcol[1])):
        return False, 'a scan loop can be left early'
    if sc['how'] == 'loop':
        iv = sc['init']
        if not (iv[0] == 'at' and any(x == ('p', 2) for x in X.walk(iv))):
            return False, f'the running best starts from {X.show(iv, 60)}, not from a cell of the matrix'
    return True, None


def r7_generic(db, ctx):
    ctx.rule('R7.4', 'generic argmax keeps (row, col, value) together under a comparison of the cell with the current best; generic max reads the cell at argmax')
    fs = [g for g in db.by_short.get('lightmotif::pli::Maximum::argmax', []) if g.raw.get('trait_default_of')]
    if len(fs) != 1:
        ctx.fail('R7.4', 'lightmotif::pli::Maximum::argmax', 'default body', 'reason=anchor-missing')
        return
    f = fs[0]
    ok, why = generic_argmax_form(db, f)
    (ctx.ok if ok else ctx.fail)('R7.4', f, 'generic argmax: (best_row, best_col, best_score) := (i, j, row[j]) when row[j] >= best_score', *([['all rows, all C columns']] if ok else [why]))
    fm = [g for g in db.by_short.get('lightmotif::pli::Maximum::max', []) if g.raw.get('trait_default_of')]
    if fm:
        cs = {fm[0].callee_short(t) for _, t in fm[0].calls()}
        okm = 'lightmotif::pli::Maximum::argmax' in cs and 'core::option::Option::map' in cs
        (ctx.ok if okm else ctx.fail)('R7.4', fm[0], 'generic max = argmax().map(|c| matrix[c])', *([[]] if okm else ['max does not derive from argmax']))


def block_maximum(db, ctx):
    """The 8-bit maximum the scanner uses to decide whether a block can be skipped (`pipeline.max(&dscores) >= t`): AVX2 kernel and generic default."""
    ctx.rule('R7.1', 'reduction identity and row / column coverage of the 8-bit maximum kernel')
    ctx.rule('R7.4', 'generic argmax keeps (row, col, value) together; generic max reads the cell at argmax')
    check_max(db, ctx, AVX2 + 'max_u8_avx2', 1, 'max_u8')
    r7_generic(db, ctx)


def r78(db, ctx):
    ctx.rule('R7.8', 'plain score vectors: Scores::max is the maximum (natural order) over every element of self.data and Scores::argmax the index the same '
                     'reduction attributes to it; both None exactly on an empty vector')
    from lm import reduce as RD
    n = 0
    n_undecided = 0
    for name in ('argmax', 'max'):
        fs = [f for f in db.fns.values() if f.path.startswith('lightmotif::scores::Scores::') and f.name == name and f.kind == 'AssocFn' and not f.promoted_of]
        if len(fs) != 1:
            ctx.fail('R7.8', f'lightmotif::scores::Scores::{name}', 'anchor', f'reason=anchor-missing: {len(fs)} bodies')
            continue
        f = fs[0]
        R = X.Rec(f)
        C = RD.RCanon(db, f, R)
        e = common.return_expr_single_path_allow(f)
        e = norm(e) if e is not None else None
        data = ('fld', ('p', 1), 'data')
        inner, outer = None, None
        if e is not None and e[0] == 'call' and e[1].endswith(('Option::map', 'Option::cloned', 'Option::copied')) and e[2]:
            inner, outer = e[2][0], e
        elif e is not None:
            inner = e
        r = RD.of_expr(C, inner) if inner is not None else None
        probs = []
        if r is None or r.get('op') not in ('max_by', 'max'):
            # a hand-written running-best loop: not decided by this rule (the striped reductions, which the scanner and the binding use, are
            # decided by R7.1-R7.4 in every spelling; this clause covers the plain-vector convenience methods in their pipeline spelling only)
            if any((f.callee_short(t_) or '').rsplit('::', 1)[-1] in ('max_by', 'max', 'max_by_key', 'min_by', 'min', 'fold', 'reduce', 'last') for _, t_ in f.calls()):
                ctx.fail('R7.8', f, f'Scores::{name}', f'reason=unrecognised-shape: {X.show(e, 120) if e else None} is not a maximum reduction over every element of self.data')
                continue
            ctx.note(f'R7.8: Scores::{name} is not written as a reduction pipeline; its loop form is not decided')
            n_undecided += 1
            continue
        L = r['L']
        cell = ('at', data, ('pos', L))
        if r['extents'] != [('len', data)]:
            probs.append(f'the reduction runs over {r["extents"]}, not over every element of self.data')
        term = C.canon(r['term'])
        if name == 'max':
            if term != cell:
                probs.append(f'the reduced values are {X.show(term, 80)}, not the elements')
        else:
            if not (term[0] == 'agg' and len(term[2]) == 2 and term[2][0] == ('pos', L) and term[2][1] == cell):
                probs.append(f'the reduced items are {X.show(term, 80)}, not (index, element) pairs')
            # the index is what is returned
            out = RD.apply_fn(db, outer[2][1], [('sym', 't')]) if outer is not None and outer[1].endswith('Option::map') and len(outer[2]) == 2 else None
            if out is None or norm(out) != ('fld', ('sym', 't'), '0'):
                probs.append('the result is not the index of the winning pair')
        if r.get('op') == 'max_by':
            x_, y_ = ('sym', 'x'), ('sym', 'y')
            cmp_ = RD.apply_fn(db, r['cmp'], [x_, y_])
            sel = (lambda v: ('fld', v, '1')) if name == 'argmax' else (lambda v: v)
            nat = cmp_ is not None and m(('call~', ('Option::unwrap', 'Option::expect'), (('call~', '::partial_cmp', (sel(x_), sel(y_))),)), norm(cmp_)) is not None
            if not nat:
                probs.append('the comparator is not the natural order of the scores (x.partial_cmp(y))')
        if probs:
            ctx.fail('R7.8', f, f'Scores::{name}', '; '.join(probs))
        else:
            n += 1
            ctx.ok('R7.8', f, f'Scores::{name} = max over all of self.data under the natural order', ['None iff empty (max_by)'])
    ctx.floor('R7.8', n + n_undecided, 2, 'plain score vector reductions')


def run(db, ctx):
    r78(db, ctx)
    ctx.rule('R7.1', 'reduction identity: every max / argmax accumulator starts at a lower bound of the element domain (0 for u8, -1 for zero-extended i16, -inf or the first row for f32)')
    ctx.rule('R7.2', 'lane -> column agreement: element t of the spilled index array holds the candidate row of column t, the column the scalar epilogue attributes to it')
    check_max(db, ctx, AVX2 + 'max_f32_avx2', 4, 'max_f32')
    check_max(db, ctx, AVX2 + 'max_u8_avx2', 1, 'max_u8')
    check_argmax(db, ctx, AVX2 + 'argmax_f32_avx2', 4, 4, 'f32')
    check_argmax(db, ctx, AVX2 + 'argmax_u8_avx2', 2, 2, 'u8')
    check_argmax_sse2(db, ctx)
    epilogue_position_semantics(db, ctx)
    r73(db, ctx)
    r7_generic(db, ctx)
    r75(db, ctx)
    r76(db, ctx)
    # dispatcher arms (shared with C01)
    sub_before = len(ctx.obligations)
    C01.r15(db, ctx)
    for o in ctx.obligations[sub_before:]:
        o['rule'] = 'R7.7'
    for v in ctx.violations:
        if v['rule'] == 'R1.5':
            v['rule'] = 'R7.7'
            v['key'] = v['key'].replace('R1.5', 'R7.7')
    ctx.rules_text['R7.7'] = ctx.rules_text.pop('R1.5', 'dispatcher arms')
    if 'R1.5' in ctx.floors:
        ctx.floors['R7.7'] = ctx.floors.pop('R1.5')
    # a maximum over the whole score matrix equals the best *valid* position only because the cells past the last position score -inf, which they
    # do because the wildcard column of every scoring matrix — the reverse complement's included — is carried over (seed C07-8 skipped it there)
    from . import C10
    common.shared_rule(db, ctx, C10.r102_103, 'R7.9', 'reverse_complement copies every column of symbols(), the wildcard included (shared with R10.2 / R10.3): the padding '
                       'cells of a reverse-strand score matrix keep -inf', ['R10.2', 'R10.3'])
