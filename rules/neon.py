"""Arm NEON backend (thorough tier only).

The NEON arm is cfg-excluded on the x86-64 host, so the default fact base never contains its bodies.  The thorough tier type-checks the core
crate for aarch64-unknown-linux-gnu with a locally built std (`cargo +nightly check -Zbuild-std=std --target aarch64-unknown-linux-gnu -p
lightmotif`, nothing linked or run) through the same driver, and re-runs the backend-specific rules on that fact base with the NEON kernels in
the kernel tables.  Floors are the instance counts confirmed by hand on the aarch64 MIR of today's tree."""
from lm import report
from . import C01, C05, C06, C08, common

NEON = 'lightmotif::pli::platform::neon::'
PROPS = ('C01', 'C02', 'C03', 'C05', 'C06', 'C08')
KERNELS = [NEON + 'encode_into_neon', NEON + 'score_f32_neon', NEON + 'score_u8_neon']
WRAPPERS = {NEON + 'score_f32_neon': NEON + 'Neon::score_f32_rows_into', NEON + 'score_u8_neon': NEON + 'Neon::score_u8_rows_into'}

# instance floors on the aarch64 fact base (hand-confirmed); a rule without an entry here fails closed
FLOORS = {
    'R1.1': 32, 'R1.3': 3, 'R1.5': 8,
    'R8.3': 3, 'R8.3i': 5,
    'R6.1': 13, 'R6.2': 3, 'R6.3': 6, 'R6.4': 0, 'R6.5': 2, 'R6.8': 6,
    'R5.2': 1,
}


class NeonCtx(report.Ctx):
    def floor(self, rule, found, floor, what):
        if rule not in FLOORS:
            self.fail(rule, '<anchor>', f'no-neon-floor:{what}', f'reason=anchor-missing: rule {rule} has no hand-confirmed instance floor for the aarch64 fact base')
            return
        super().floor(rule, found, FLOORS[rule], what + ' (aarch64)')


class _Tables:
    """Temporarily point the kernel tables of the x86 rule modules at the NEON kernels."""

    def __enter__(self):
        self.saved = (C06.ALL_KERNELS, C06.KERNEL_WRAPPERS, C01.WRAPPERS, C01.KERNELS, C05.ENCODERS)
        C06.ALL_KERNELS = list(KERNELS)
        C06.KERNEL_WRAPPERS = dict(WRAPPERS)
        C01.WRAPPERS = list(WRAPPERS.values())
        C01.KERNELS = [(NEON + 'score_f32_neon', 4, 4, 'add_f32'), (NEON + 'score_u8_neon', 1, 1, 'adds_u8')]
        C05.ENCODERS = [(NEON + 'encode_into_neon', 64)]
        return self

    def __exit__(self, *a):
        C06.ALL_KERNELS, C06.KERNEL_WRAPPERS, C01.WRAPPERS, C01.KERNELS, C05.ENCODERS = self.saved


def r11(db, ctx):
    ctx.rule('R1.1', 'lane semantics of the SIMD scoring kernels (see the default configuration); here: score_f32_neon (zip-with-zero widening, compare-select sum over k) '
                     'and score_u8_neon (TBL look-up, saturating add)')
    n = 0
    for path, e_out, e_tab, op in C01.KERNELS:
        n += C01.check_score_kernel(db, ctx, path, e_out, e_tab, op)
    ctx.floor('R1.1', n, 0, 'output lanes of the NEON scoring kernels')


def run(prop, db, ctx):
    with _Tables():
        if prop == 'C01':
            r11(db, ctx)
            C01.r13(db, ctx)
            C01.r15(db, ctx)
        elif prop == 'C08':
            C08.r83(db, ctx)
        elif prop in ('C02', 'C03'):
            rid = 'R2.7' if prop == 'C02' else 'R3.5'
            common.shared_rule(db, ctx, C08.r83, rid, 'the 8-bit pre-filter scores of the scanner are over-estimates: every 8-bit accumulation the scanner can dispatch to '
                               'saturates (shared with R8.3) — here on the aarch64 build (NEON arm)', ['R8.3', 'R8.3i'])
        elif prop == 'C06':
            C06.r61(db, ctx)
            C06.r62(db, ctx)
            C06.r63b(db, ctx)
            C06.r64(db, ctx)
            C06.r65(db, ctx)
            C06.r68(db, ctx)
        elif prop == 'C05':
            C05.r52(db, ctx)
            C05.r53_54(db, ctx)
