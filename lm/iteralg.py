"""E5b — iterator algebra: loop-form independent view of element accesses.

`for i in 0..n { a[i] = b[i] }`, `for (x, y) in a.iter_mut().zip(b.iter())`, `for (i, x) in a.iter().enumerate()` describe the same
element-wise relation.  `canon(e)` rewrites a recovered expression so that every value obtained from a loop's iterator is expressed through
the iteration position of that loop:

    ('pos', L)                 position (0-based) of the current iteration of the loop with header/id L
    ('at', X, i)               element i of the sequence X  (array / slice index, Vec index, DenseMatrix row index, GenericArray index)

and `extent(L)` gives the number of iterations as a list of component extents (a zip stops at the shortest component):
    ('len', X) | ('rows', X) | ('sub', hi, lo) | ('usize',)  (the typenum constant)  | ('expr', e)

Supported adaptors: slice/array/Vec/GenericArray `iter`, `iter_mut`, `into_iter`; `DenseMatrix::iter(_mut)` (rows); ranges; `enumerate`;
`zip`; `rev`; an iterator bound to a local first (`let rows = a.iter().zip(..); for x in rows`).  Anything else is left untouched, so a
rule that does not find its canonical shape still fails closed.
"""
from . import expr as X
from .match import norm, m

ITER = ('slice::iter', 'slice::iter_mut', 'iter::into_iter', 'IntoIterator::into_iter', 'GenericArray::iter', 'GenericArray::iter_mut',
        'Vec::iter', 'Vec::iter_mut', '::iter', '::iter_mut')
ROWS_ITER = ('DenseMatrix::iter', 'DenseMatrix::iter_mut')


def _mentions_local(node, l):
    """Does the raw MIR JSON node read or write local l (as a place base or as an index projection)?"""
    if isinstance(node, dict):
        if node.get('l') == l and 'pr' in node:
            return True
        if node.get('idx') == l and len(node) == 1:
            return True
        return any(_mentions_local(v, l) for v in node.values())
    if isinstance(node, list):
        return any(_mentions_local(v, l) for v in node)
    return False


def while_counters(fn, rec):
    """Hand-written counters `let mut j = k; while j < N { .. j += 1; }` -> {local: (header, k, N)}; N is None for a counter that merely
    runs in lock-step with the guarded one (`res_row += 1` next to `seq_row += 1`).
    Conditions (all necessary for `j` to be "k + iteration position" at every use in the body):
      * j has exactly two whole definitions: a loop-invariant value outside the loop, and `j = j + 1` inside it;
      * the increment is executed on every iteration (dominates every latch) and nothing in the loop reads j after it
        (no block strictly dominated by the increment's block mentions j, nor a later statement of that block);
      * for the guarded counter: `j < N` is decided by a block of the loop that dominates the body and whose other edge leaves the loop,
        with a loop-invariant N (constant, local defined once outside the loop, rows()/len()/columns() of a place that is not mutated).
    Other exits (an early `return` / `?`) do not change what j is; rules that need *every* position check the exits themselves."""
    from . import guards as G
    out = {}
    if fn is None or rec is None:
        return out
    can = fn.postdominators()
    steppers = {}
    for l, ds in fn.defs().items():
        if len(ds) != 2 or l in getattr(fn, 'borrowed_mut', set()) or fn.partial.get(l):
            continue
        inl = lambda d: [L_ for L_ in fn.loops() if d[0] in L_['body']]

        def is_inc(d):
            if d[1] == 'term' or not inl(d):
                return False
            try:
                b_ = m(('bin', 'Add', '$a', ('k', 1)), norm(rec.rvalue(d[2])))
            except Exception:
                return False
            return b_ is not None and b_['$a'] == ('v', l)
        incs = [d for d in ds if is_inc(d)]
        if len(incs) != 1:
            continue
        bi, si, rv = incs[0]
        L = min(inl(incs[0]), key=lambda L_: len(L_['body']))
        inits = [d for d in ds if d is not incs[0] and d[0] not in L['body'] and d[1] != 'term']
        if len(inits) != 1:
            continue
        try:
            iv = norm(rec.rvalue(inits[0][2]))
        except Exception:
            continue
        if not _invariant(fn, L, iv):
            continue
        if not all(fn.dominates(bi, lt) for lt in L['latches']):
            continue
        late = False
        for bj in L['body']:
            blk = fn.blocks[bj]
            if bj == bi:
                nodes = blk['stmts'][si + 1:] + [blk['term']]
            elif bj != L['header'] and fn.dominates(bi, bj):
                nodes = blk['stmts'] + [blk['term']]
            else:
                continue
            if any(_mentions_local(n, l) for n in nodes):
                late = True
                break
        if late:
            continue
        steppers[l] = (L, bi, iv)
    # the guarded counter of each loop
    guarded = {}
    for l, (L, bi, iv) in steppers.items():
        exits = [(a, c) for a, c in L['exits'] if c in can]
        N = None
        for r in G.relations(fn, rec, bi):
            src_ok = any(a == r[-1] for a, _ in exits) and all(fn.dominates(r[-1], lt) for lt in L['latches'])
            if not src_ok:
                continue
            if r[0] == 'lt' and norm(r[1]) == ('v', l):
                N = norm(r[2])
            elif r[0] == 'gt' and norm(r[2]) == ('v', l):
                N = norm(r[1])
        if N is not None and _invariant(fn, L, N):
            out[l] = (L['header'], iv, N)
            guarded.setdefault(L['header'], l)
    for l, (L, bi, iv) in steppers.items():
        if l not in out and L['header'] in guarded:
            out[l] = (L['header'], iv, None)
    # a counter stepped once per iteration of a `for` loop (`let mut j = 0; for x in xs { .. j += 1; }`) runs in lock-step with the
    # loop's iterator: j = k + position of the element, provided the loop draws exactly one element per iteration (the `next` call is
    # in a block of this loop, not of a nested one, that dominates every latch) from an iterator local defined once outside the loop
    for l, (L, bi, iv) in steppers.items():
        if l in out:
            continue
        nx = []
        for bj in L['body']:
            t = fn.blocks[bj]['term']
            if t.get('k') != 'call':
                continue
            inner = min((L_ for L_ in fn.loops() if bj in L_['body']), key=lambda L_: len(L_['body']))
            if inner['header'] != L['header']:
                continue
            try:
                c = rec.at(bj).call(t)
            except Exception:
                continue
            if c[0] == 'next':
                nx.append((bj, c))
        if len(nx) != 1:
            continue
        bj, c = nx[0]
        it = c[2]
        ds = fn.defs().get(it, [])
        if len(ds) != 1 or ds[0][0] in L['body'] or not all(fn.dominates(bj, lt) for lt in L['latches']):
            continue
        out[l] = (('for', it, c[1]), iv, None)
    return out


def _invariant(fn, L, e):
    if e[0] in ('k', 'kc'):
        return True
    if e[0] == 'v':
        ds = fn.defs().get(e[1], [])
        return len(ds) == 1 and ds[0][0] not in L['body'] and e[1] not in fn.borrowed_mut
    if e[0] == 'p':
        return not fn.defs().get(e[1]) and e[1] not in fn.borrowed_mut
    if e[0] == 'fld':
        r = e
        while r[0] in ('fld', 'deref', 'ref'):
            r = r[1]
        return r[0] == 'p' and not fn.defs().get(r[1]) and r[1] not in fn.borrowed_mut and not fn.local_ty(r[1]).startswith('&mut') and not fn.partial.get(r[1])
    if e[0] == 'call' and e[1].endswith(('::rows', '::len', '::columns')) and len(e[2]) == 1:
        r = e[2][0]
        while r[0] in ('fld', 'deref', 'ref'):
            r = r[1]
        return r[0] == 'p' and not fn.local_ty(r[1]).startswith('&mut') and r[1] not in fn.borrowed_mut and not fn.defs().get(r[1])
    return False


class Canon:
    def __init__(self, fn=None, rec=None):
        self.fn, self.rec = fn, rec
        self.extents = {}       # loop id -> list of component extents
        self._wc = None

    def counters(self):
        if self._wc is None:
            try:
                self._wc = while_counters(self.fn, self.rec)
            except Exception:
                self._wc = {}
        return self._wc

    # ---- iterator expressions -------------------------------------------------------------------------------------------------
    def _resolve_local(self, S):
        """An iterator held in a local (`let it = ..; for x in it`): follow its definitions when they all agree."""
        if S[0] == 'v' and self.fn is not None and self.rec is not None:
            ds = self.fn.defs().get(S[1], [])
            vals = []
            for bi, si, x in ds:
                try:
                    vals.append(norm(self.rec.call(x) if si == 'term' else self.rec.rvalue(x)))
                except Exception:
                    return S
            if vals and all(v == vals[0] for v in vals):
                return vals[0]
        return S

    def elem_of(self, S, L, pos=None):
        """(value, [extents]) of the element produced by iterator S in loop L at position `pos`; None when S is not understood."""
        pos = pos if pos is not None else ('pos', L)
        S = norm(S)
        S = self._resolve_local(S)
        # `window.clone()` of a range value built once and never advanced in place (not mutably borrowed): the same range
        while S[0] == 'call' and S[1].endswith('Clone::clone') and len(S[2]) == 1:
            a = S[2][0]
            while a[0] in ('ref', 'deref'):
                a = a[1]
            if a[0] == 'v' and self.fn is not None and a[1] not in getattr(self.fn, 'borrowed_mut', set()) and \
                    self.fn.local_ty(a[1]).startswith('core::ops::range::Range<') and len(self.fn.defs().get(a[1], [])) == 1:
                S = self._resolve_local(norm(a))
            elif a[0] == 'agg' and isinstance(a[1], tuple) and a[1][1].endswith('ops::range::Range') and len(a[2]) == 2:
                S = a           # expression recovery already replaced the local by the range it was built as
            else:
                break
        if S[0] == 'agg' and isinstance(S[1], tuple) and S[1][1].endswith('ops::range::Range') and len(S[2]) == 2:
            lo, hi = self.canon(S[2][0]), self.canon(S[2][1])
            val = pos if lo == ('k', 0) else ('bin', 'Add', lo, pos)
            return val, [('sub', hi, lo)]
        if S[0] in ('p', 'v') and self.fn is not None and self.fn.local_ty(S[1]).startswith('core::ops::range::Range<'):
            # a `Range<usize>` value iterated directly (`for i in rows`): element = rows.start + position, rows.len() iterations
            lo = ('fld', S, 'start')
            return ('bin', 'Add', lo, pos), [('len', S)]
        if S[0] == 'call':
            name = S[1]
            if name.endswith(ROWS_ITER) and len(S[2]) == 1:
                Xs = self.canon(S[2][0])
                return ('at', Xs, pos), [('rows', Xs)]
            if name.endswith('Iterator::enumerate') and len(S[2]) == 1:
                nf = len(getattr(self, 'filters', {}).get(L, []))
                r = self.elem_of(S[2][0], L, pos)
                if r is None:
                    return None
                if len(getattr(self, 'filters', {}).get(L, [])) != nf:
                    # enumerate *after* a filter counts the elements that passed it: a rank, not the position in the underlying sequence
                    # (seed C16-10: `.filter(..).enumerate()` used the rank among the active sequences as a sequence index)
                    return ('agg', 'tuple', (('rank', L), r[0])), r[1]
                return ('agg', 'tuple', (pos, r[0])), r[1]
            if name.endswith('Iterator::zip') and len(S[2]) == 2:
                a, b = self.elem_of(S[2][0], L, pos), self.elem_of(S[2][1], L, pos)
                if a is None or b is None:
                    return None
                return ('agg', 'tuple', (a[0], b[0])), a[1] + b[1]
            if name.endswith('Iterator::rev') and len(S[2]) == 1:
                inner = self.elem_of(S[2][0], L, ('pos', L))
                if inner is None or len(inner[1]) != 1:
                    return None
                n = self._extent_expr(inner[1][0])
                if n is None:
                    return None
                rp = ('bin', 'Sub', ('bin', 'Sub', n, ('k', 1)), pos)
                return self._subst(inner[0], ('pos', L), rp), inner[1]
            if name.endswith(ITER) and len(S[2]) == 1 and not name.endswith(ROWS_ITER):
                Xs = self.canon(S[2][0])
                return ('at', Xs, pos), [('len', Xs)]
        # a slice / array value iterated directly (`for c in A::symbols()`, `for x in &v`): the loop's iterator local is a plain slice
        # iterator, so S itself is the collection (any adaptor in between would change that type)
        ptypes = getattr(self, 'pipe_types', {})
        if self.fn is not None and ((isinstance(L, int) and 0 <= L < len(self.fn.locals)) or L in ptypes) and not (S[0] == 'call' and 'iter::' in S[1] and 'Iterator::' in S[1]):
            ty = ptypes[L] if L in ptypes else self.fn.local_ty(L)
            # (the adaptors around it — Enumerate<..>, Zip<..> — were peeled structurally on the way here; the leaf must be a slice iterator)
            if any(k in ty for k in ('core::slice::Iter<', 'core::slice::IterMut<', 'core::slice::iter::Iter<', 'core::slice::iter::IterMut<')) \
                    and S[0] in ('v', 'p', 'fld', 'elem', 'call', 'at', 'idx'):
                Xs = self.canon(S)
                return ('at', Xs, pos), [('len', Xs)]
        return None

    def _extent_expr(self, ext):
        if ext[0] == 'len':
            return ('len', ext[1])
        if ext[0] == 'rows':
            return ('call', 'lightmotif::dense::DenseMatrix::rows', (ext[1],))
        if ext[0] == 'sub':
            return ext[1] if ext[2] == ('k', 0) else ('bin', 'Sub', ext[1], ext[2])
        return None

    def _subst(self, e, a, b):
        if e == a:
            return b
        if isinstance(e, tuple):
            return tuple(self._subst(x, a, b) if isinstance(x, tuple) else x for x in e)
        return e

    # ---- expressions ------------------------------------------------------------------------------------------------------------
    def canon(self, e):
        if not isinstance(e, tuple) or not e or not isinstance(e[0], str):
            return e
        e = norm(e)
        t = e[0]
        if t == 'v' and self.fn is not None and e[1] in self.counters():
            h, k0, N = self.counters()[e[1]]
            if isinstance(h, tuple) and h[0] == 'for':
                # lock-step with a `for` loop: only when the loop's iterator is a plain positional view (no filter in between: a counter of
                # iterations after a filter is a rank)
                nf = len(getattr(self, 'filters', {}).get(h[1], []))
                r = self.elem_of(h[2], h[1])
                if r is None or len(getattr(self, 'filters', {}).get(h[1], [])) != nf or getattr(self, 'filters', {}).get(h[1]):
                    return e
                self.extents.setdefault(h[1], r[1])
                return ('pos', h[1]) if k0 == ('k', 0) else ('bin', 'Add', k0, ('pos', h[1]))
            L = ('while', h)
            if N is not None:
                self.extents[L] = [('sub', self.canon(N), k0)]
            else:
                # a lock-step counter: the extent is that of the loop's guarded counter
                g = [v for v in self.counters().values() if v[0] == h and v[2] is not None]
                if g:
                    self.extents[L] = [('sub', self.canon(g[0][2]), g[0][1])]
            return ('pos', L) if k0 == ('k', 0) else ('bin', 'Add', k0, ('pos', L))
        if t == 'elem':
            r = self.elem_of(e[1], e[2])
            if r is not None:
                self.extents[e[2]] = r[1]
                return r[0]
            return e
        if t == 'fld':
            b = self.canon(e[1])
            if b[0] == 'agg' and b[1] == 'tuple' and str(e[2]).isdigit() and int(e[2]) < len(b[2]):
                return b[2][int(e[2])]
            return ('fld', b, e[2])
        if t == 'idx':
            return ('at', self.canon(e[1]), self.canon(e[2]))
        if t == 'call':
            if len(e[2]) == 1 and e[1].endswith(('::as_slice', '::as_mut_slice')):
                return self.canon(e[2][0])      # the whole collection viewed as a slice: same elements, same length
            args = tuple(self.canon(a) for a in e[2])
            if e[1].endswith(('ops::index::Index::index', 'ops::index::IndexMut::index_mut', 'slice::index::index', 'slice::index::index_mut')) and len(args) == 2:
                return ('at', args[0], args[1])
            return ('call', e[1], args)
        out = [t]
        for x in e[1:]:
            if isinstance(x, tuple) and x and isinstance(x[0], str):
                out.append(self.canon(x))
            elif isinstance(x, tuple):
                out.append(tuple(self.canon(y) if isinstance(y, tuple) else y for y in x))
            else:
                out.append(x)
        return tuple(out)


def is_pos(e):
    return isinstance(e, tuple) and len(e) == 2 and e[0] == 'pos'
