// Minimal JSON value + writer (the driver has no cargo dependencies).
pub enum J {
    Null,
    Bool(bool),
    Int(i128),
    Str(String),
    Arr(Vec<J>),
    Obj(Vec<(String, J)>),
}

impl J {
    pub fn obj() -> J {
        J::Obj(Vec::new())
    }
    pub fn set(&mut self, k: &str, v: J) {
        if let J::Obj(o) = self {
            o.push((k.to_string(), v));
        }
    }
    pub fn write(&self, s: &mut String) {
        match self {
            J::Null => s.push_str("null"),
            J::Bool(b) => s.push_str(if *b { "true" } else { "false" }),
            J::Int(i) => s.push_str(&i.to_string()),
            J::Str(t) => esc(t, s),
            J::Arr(a) => {
                s.push('[');
                for (i, x) in a.iter().enumerate() {
                    if i > 0 {
                        s.push(',');
                    }
                    x.write(s);
                }
                s.push(']');
            }
            J::Obj(o) => {
                s.push('{');
                for (i, (k, v)) in o.iter().enumerate() {
                    if i > 0 {
                        s.push(',');
                    }
                    esc(k, s);
                    s.push(':');
                    v.write(s);
                }
                s.push('}');
            }
        }
    }
}

fn esc(t: &str, s: &mut String) {
    s.push('"');
    for c in t.chars() {
        match c {
            '"' => s.push_str("\\\""),
            '\\' => s.push_str("\\\\"),
            '\n' => s.push_str("\\n"),
            '\r' => s.push_str("\\r"),
            '\t' => s.push_str("\\t"),
            c if (c as u32) < 0x20 => s.push_str(&format!("\\u{:04x}", c as u32)),
            c => s.push(c),
        }
    }
    s.push('"');
}
