"""E7 — panic-site inventory: every potential panic site in workspace bodies reachable from a set of entry points."""
from . import expr as X
from .db import short

# external callees that can panic depending on their arguments / receiver state (suffix match on the short path)
MAY_PANIC = {
    'core::option::Option::unwrap': 'unwrap',
    'core::option::Option::expect': 'unwrap',
    'core::result::Result::unwrap': 'unwrap',
    'core::result::Result::expect': 'unwrap',
    'core::result::Result::unwrap_err': 'unwrap',
    'core::result::Result::expect_err': 'unwrap',
    'core::slice::index::index': 'slice-index',
    'core::slice::index::index_mut': 'slice-index',
    'core::str::traits::index': 'str-index',
    'core::str::traits::index_mut': 'str-index',
    'alloc::vec::index': 'slice-index',
    'alloc::vec::index_mut': 'slice-index',
    'alloc::string::index': 'str-index',
    'alloc::string::index_mut': 'str-index',
    'core::array::index': 'slice-index',
    'core::array::index_mut': 'slice-index',
    'generic_array::index': 'slice-index',
    'generic_array::index_mut': 'slice-index',
    'core::slice::copy_within': 'copy_within',
    'core::slice::copy_from_slice': 'copy_from_slice',
    'core::slice::clone_from_slice': 'copy_from_slice',
    'core::slice::split_at': 'split_at',
    'core::slice::split_at_mut': 'split_at',
    'core::str::split_at': 'split_at',
    'core::slice::swap': 'slice-index',
    'core::slice::chunks': 'nonzero-arg',
    'core::slice::chunks_exact': 'nonzero-arg',
    'core::slice::windows': 'nonzero-arg',
    'core::iter::traits::iterator::Iterator::step_by': 'nonzero-arg',
    'alloc::vec::Vec::remove': 'slice-index',
    'alloc::vec::Vec::insert': 'slice-index',
    'alloc::vec::Vec::swap_remove': 'slice-index',
    'alloc::vec::Vec::drain': 'slice-index',
    'alloc::vec::Vec::split_off': 'slice-index',
    'alloc::string::String::remove': 'str-index',
    'alloc::string::String::insert': 'str-index',
    'alloc::string::String::insert_str': 'str-index',
    'alloc::string::String::drain': 'str-index',
    'alloc::string::String::split_off': 'str-index',
    'alloc::string::String::truncate': 'str-index',
    'alloc::string::String::replace_range': 'str-index',
    'core::cell::RefCell::borrow': 'refcell',
    'core::cell::RefCell::borrow_mut': 'refcell',
    'core::ops::index::Index::index': 'generic-index',
    'core::ops::index::IndexMut::index_mut': 'generic-index',
    'core::num::from_str_radix': None,
    'core::char::methods::from_digit': 'nonzero-arg',
    'core::char::methods::to_digit': 'nonzero-arg',
}

PANIC_ENTRY = ('core::panicking::panic', 'core::panicking::panic_fmt', 'core::panicking::panic_display', 'core::panicking::panic_explicit',
               'core::panicking::unreachable_display', 'core::panicking::assert_failed', 'core::panicking::panic_nounwind',
               'std::rt::panic_fmt', 'std::rt::begin_panic', 'core::panicking::panic_str_2015', 'core::option::unwrap_failed',
               'core::option::expect_failed', 'core::result::unwrap_failed', 'core::panicking::panic_bounds_check',
               'core::panicking::panic_const::panic_const_add_overflow')


def macro_of(t):
    ex = t.get('expn') or []
    for name in ex:
        if name in ('unreachable', 'unimplemented', 'todo', 'panic', 'assert', 'assert_eq', 'assert_ne', 'debug_assert',
                    'debug_assert_eq', 'debug_assert_ne'):
            return name
    return None


def sites(fn):
    """Potential panic sites of one body: list of dict(kind, block, detail, span, term)."""
    out = []
    for bi in sorted(fn.reachable()):
        blk = fn.blocks[bi]
        if blk['cleanup']:
            continue
        t = blk['term']
        if t['k'] == 'assert':
            if t['msg'] in ('misaligned', 'nullptr'):
                continue
            out.append({'kind': 'assert:' + t['msg'] + (':' + t['op'] if 'op' in t else ''), 'block': bi, 'span': t['span'], 'term': t})
        elif t['k'] == 'call':
            c = short(t.get('resolved') or t.get('callee') or '')
            if c in PANIC_ENTRY or c.startswith('core::panicking::'):
                mac = macro_of(t) or 'panic'
                # debug UB-check helpers are not panics on input
                if 'precondition_check' in c:
                    continue
                out.append({'kind': 'panic:' + mac, 'block': bi, 'span': t['span'], 'term': t})
            elif c in MAY_PANIC and MAY_PANIC[c]:
                out.append({'kind': 'call:' + MAY_PANIC[c], 'block': bi, 'span': t['span'], 'term': t, 'callee': c})
    return out


def inventory(db, roots, crates, stop=None):
    """All panic sites in bodies of `crates` reachable from roots. Returns (list of (Fn, site), reachable fns, external leaves)."""
    seen, ext = db.reach(roots, stop=stop or (lambda f: f.crate not in crates))
    out = []
    for f in sorted(seen.values(), key=lambda f: f.path):
        if f.crate not in crates or f.promoted_of:
            continue
        for s in sites(f):
            out.append((f, s))
    return out, seen, ext
