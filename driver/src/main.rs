// lmfacts — fact extractor for the lightmotif static checks (engine E1 of DESIGN.md).
//
// Runs as RUSTC_WORKSPACE_WRAPPER under `cargo +nightly check`. For every workspace
// crate it type-checks, it writes ONE json file ($LMFACTS_OUT/<crate>.<kind>.json) with the
// MIR (opt-level 0) of every body, resolved callees, ADT / impl tables, evaluated
// constants and requested layouts. No lightmotif code is executed.
#![feature(rustc_private)]
#![allow(clippy::all)]

extern crate rustc_abi;
extern crate rustc_data_structures;
extern crate rustc_driver;
extern crate rustc_hir;
extern crate rustc_interface;
extern crate rustc_middle;
extern crate rustc_session;
extern crate rustc_span;

mod json;
use json::J;

use rustc_hir::def::DefKind;
use rustc_hir::def_id::{DefId, LocalDefId};
use rustc_middle::mir::{
    self, AggregateKind, BasicBlockData, Body, Operand, Place, ProjectionElem, Rvalue,
    StatementKind, TerminatorKind,
};
use rustc_middle::ty::print::{with_crate_prefix, with_no_trimmed_paths, with_no_visible_paths};
use rustc_middle::ty::print::PrintTraitRefExt;
use rustc_middle::ty::{self, Instance, Ty, TyCtxt, TypingEnv};
use rustc_span::Span;

struct Cb;

impl rustc_driver::Callbacks for Cb {
    fn after_analysis<'tcx>(
        &mut self,
        _c: &rustc_interface::interface::Compiler,
        tcx: TyCtxt<'tcx>,
    ) -> rustc_driver::Compilation {
        let out = match std::env::var("LMFACTS_OUT") {
            Ok(o) => o,
            Err(_) => return rustc_driver::Compilation::Continue,
        };
        let krate = tcx.crate_name(rustc_hir::def_id::LOCAL_CRATE).to_string();
        if krate.starts_with("build_script") {
            return rustc_driver::Compilation::Continue;
        }
        let kinds: Vec<String> =
            tcx.crate_types().iter().map(|k| format!("{:?}", k).to_lowercase()).collect();
        let is_test = tcx.sess.opts.test;
        let j = with_crate_prefix!(with_no_visible_paths!(with_no_trimmed_paths!(extract(tcx, &krate, is_test))));
        let fname = format!(
            "{}/{}.{}{}.json",
            out,
            krate,
            kinds.first().cloned().unwrap_or_default(),
            if is_test { ".test" } else { "" }
        );
        let mut s = String::with_capacity(1 << 22);
        j.write(&mut s);
        let tmp = format!("{}.tmp{}", fname, std::process::id());
        std::fs::write(&tmp, s).expect("write facts");
        std::fs::rename(&tmp, &fname).expect("rename facts");
        rustc_driver::Compilation::Continue
    }
}

fn main() {
    let mut args: Vec<String> = std::env::args().collect();
    // RUSTC_WORKSPACE_WRAPPER: argv[1] is the real rustc path.
    if args.len() > 1 && (args[1].ends_with("rustc") || args[1].contains("/rustc")) {
        args.remove(1);
    }
    rustc_driver::run_compiler(&args, &mut Cb);
}

// ---------------------------------------------------------------------------

fn span_str(tcx: TyCtxt<'_>, sp: Span) -> String {
    let sm = tcx.sess.source_map();
    let sp = sp.source_callsite();
    let lo = sm.lookup_char_pos(sp.lo());
    let name = match &lo.file.name {
        rustc_span::FileName::Real(r) => match r.local_path() {
            Some(p) => p.to_string_lossy().to_string(),
            None => format!("{:?}", r),
        },
        other => format!("{:?}", other),
    };
    format!("{}:{}:{}", name, lo.line, lo.col.0 + 1)
}

fn expn_chain(sp: Span) -> Vec<String> {
    // names of the macros this span was expanded from (innermost first)
    let mut v = Vec::new();
    let mut sp = sp;
    let mut n = 0;
    while sp.from_expansion() && n < 8 {
        let d = sp.ctxt().outer_expn_data();
        match d.kind {
            rustc_span::ExpnKind::Macro(_, name) => v.push(name.to_string()),
            rustc_span::ExpnKind::Desugaring(k) => v.push(format!("desugar:{:?}", k)),
            rustc_span::ExpnKind::AstPass(k) => v.push(format!("astpass:{:?}", k)),
            rustc_span::ExpnKind::Root => {}
        }
        sp = d.call_site;
        n += 1;
    }
    v
}

fn jstr<T: std::fmt::Display>(t: T) -> J {
    J::Str(t.to_string())
}

fn extract<'tcx>(tcx: TyCtxt<'tcx>, krate: &str, is_test: bool) -> J {
    let mut top = J::obj();
    top.set("crate", J::Str(krate.to_string()));
    top.set("is_test", J::Bool(is_test));
    top.set("overflow_checks", J::Bool(tcx.sess.overflow_checks()));
    top.set("debug_assertions", J::Bool(tcx.sess.opts.debug_assertions));

    // ---- bodies
    let mut fns = Vec::new();
    for ldid in tcx.mir_keys(()).iter().copied() {
        let did = ldid.to_def_id();
        let kind = tcx.def_kind(did);
        match kind {
            DefKind::Fn | DefKind::AssocFn | DefKind::Closure => {}
            DefKind::Const { .. } | DefKind::AssocConst { .. } | DefKind::Static { .. } | DefKind::AnonConst
            | DefKind::InlineConst => {}
            _ => continue,
        }
        // constructor shims (tuple structs) have no interesting body
        if matches!(kind, DefKind::Fn | DefKind::AssocFn | DefKind::Closure) {
            if !tcx.is_mir_available(did) {
                continue;
            }
            let body: &Body<'tcx> = tcx.optimized_mir(did);
            fns.push(dump_fn(tcx, ldid, kind, body, None));
            // promoted constants of this fn
            let proms = tcx.promoted_mir(did);
            for (pi, pb) in proms.iter_enumerated() {
                fns.push(dump_fn(tcx, ldid, kind, pb, Some(pi.as_usize())));
            }
        } else if matches!(kind, DefKind::AssocConst { .. }) {
            // `const KNOWN: usize = A::K::USIZE - 1;` in an impl: the (polymorphic) initialiser, so that uses of the constant can be read
            // as the expression it abbreviates
            let body: &Body<'tcx> = tcx.mir_for_ctfe(did);
            fns.push(dump_fn(tcx, ldid, kind, body, None));
        } else if matches!(kind, DefKind::Const { .. }) {
            // scalar values are evaluated below in `consts`; the initialiser body of a non-generic named constant is dumped too, so that
            // an array / aggregate constant (`const SYMBOLS: [Nucleotide; 4] = [..]`) can be tabulated like a promoted one
            if !tcx.generics_of(did).requires_monomorphization(tcx) {
                let body: &Body<'tcx> = tcx.mir_for_ctfe(did);
                fns.push(dump_fn(tcx, ldid, kind, body, None));
            }
        }
    }
    top.set("fns", J::Arr(fns));

    // ---- consts (non-generic, scalar)
    let mut consts = J::obj();
    for ldid in tcx.hir_crate_items(()).definitions() {
        let did = ldid.to_def_id();
        if !matches!(tcx.def_kind(did), DefKind::Const { .. }) {
            continue;
        }
        if tcx.generics_of(did).requires_monomorphization(tcx) {
            continue;
        }
        if let Ok(v) = tcx.const_eval_poly(did) {
            let ty = tcx.type_of(did).instantiate_identity().skip_norm_wip();
            let mut o = J::obj();
            o.set("ty", jstr(ty));
            if let Some(si) = v.try_to_scalar_int() {
                o.set("bits", J::Str(format!("{}", si.to_bits_unchecked())));
            }
            consts.set(&tcx.def_path_str(did), o);
        }
    }
    top.set("consts", consts);

    // ---- ADTs, impls, type aliases (layout requests)
    let mut adts = J::obj();
    let mut impls = Vec::new();
    let mut layouts = Vec::new();
    let mut seen_layout = std::collections::HashSet::new();
    for ldid in tcx.hir_crate_items(()).definitions() {
        let did = ldid.to_def_id();
        match tcx.def_kind(did) {
            DefKind::Struct | DefKind::Enum | DefKind::Union => {
                let adt = tcx.adt_def(did);
                let mut o = J::obj();
                o.set("kind", jstr(format!("{:?}", adt.adt_kind())));
                let r = adt.repr();
                let mut ro = J::obj();
                if let Some(a) = r.align {
                    ro.set("align", J::Int(a.bytes() as i128));
                }
                if let Some(p) = r.pack {
                    ro.set("pack", J::Int(p.bytes() as i128));
                }
                if let Some(i) = r.int {
                    ro.set("int", jstr(format!("{:?}", i)));
                }
                ro.set("c", J::Bool(r.c()));
                ro.set("transparent", J::Bool(r.transparent()));
                o.set("repr", ro);
                let mut vars = Vec::new();
                for (vi, v) in adt.variants().iter_enumerated() {
                    let mut vo = J::obj();
                    vo.set("name", jstr(v.name));
                    if adt.is_enum() {
                        let d = adt.discriminant_for_variant(tcx, vi);
                        vo.set("discr", J::Str(format!("{}", d.val)));
                    }
                    let mut fs = Vec::new();
                    for f in v.fields.iter() {
                        let mut fo = J::obj();
                        fo.set("name", jstr(f.name));
                        fo.set(
                            "ty",
                            jstr(tcx.type_of(f.did).instantiate_identity().skip_norm_wip()),
                        );
                        fo.set("vis", jstr(format!("{:?}", f.vis)));
                        fs.push(fo);
                    }
                    vo.set("fields", J::Arr(fs));
                    // #[default] attribute on the variant
                    vo.set(
                        "default_attr",
                        J::Bool(has_attr_named(tcx, v.def_id, "default")),
                    );
                    vars.push(vo);
                }
                o.set("variants", J::Arr(vars));
                o.set("span", J::Str(span_str(tcx, tcx.def_span(did))));
                adts.set(&tcx.def_path_str(did), o);
            }
            DefKind::Impl { .. } => {
                let mut o = J::obj();
                o.set("path", jstr(tcx.def_path_str(did)));
                if let Some(tr) = tcx.impl_opt_trait_ref(did) {
                    let tr = tr.instantiate_identity().skip_norm_wip();
                    o.set("trait", jstr(tr.print_only_trait_path()));
                    o.set("trait_def", jstr(tcx.def_path_str(tr.def_id)));
                }
                o.set("self_ty", jstr(tcx.type_of(did).instantiate_identity().skip_norm_wip()));
                o.set("derived", J::Bool(tcx.is_automatically_derived(did)));
                let mut items = J::obj();
                let mut types = J::obj();
                for it in tcx.associated_items(did).in_definition_order() {
                    items.set(&it.name().to_string(), jstr(tcx.def_path_str(it.def_id)));
                    if it.is_type() {
                        types.set(
                            &it.name().to_string(),
                            jstr(tcx.type_of(it.def_id).instantiate_identity().skip_norm_wip()),
                        );
                    }
                }
                o.set("items", items);
                o.set("types", types);
                o.set("span", J::Str(span_str(tcx, tcx.def_span(did))));
                impls.push(o);
            }
            DefKind::TyAlias => {
                if tcx.generics_of(did).requires_monomorphization(tcx) {
                    continue;
                }
                let ty = tcx.type_of(did).instantiate_identity().skip_norm_wip();
                let name = tcx.def_path_str(did);
                dump_layout(tcx, ty, Some(name), 0, &mut layouts, &mut seen_layout);
            }
            _ => {}
        }
    }
    // ---- layout grid for the dense matrix: DenseMatrix<T, C> for T in prims+local repr(u8) enums, C in a fixed list
    if let Some(grid) = layout_grid(tcx, &mut layouts, &mut seen_layout) {
        top.set("layout_grid", grid);
    }
    top.set("adts", adts);
    top.set("impls", J::Arr(impls));
    top.set("layouts", J::Arr(layouts));

    // ---- trait default methods table: trait -> provided methods
    let mut traits = J::obj();
    for ldid in tcx.hir_crate_items(()).definitions() {
        let did = ldid.to_def_id();
        if tcx.def_kind(did) == DefKind::Trait {
            let mut o = J::obj();
            for it in tcx.associated_items(did).in_definition_order() {
                let mut io = J::obj();
                io.set("path", jstr(tcx.def_path_str(it.def_id)));
                io.set("has_default", J::Bool(it.defaultness(tcx).has_value()));
                io.set("kind", jstr(format!("{:?}", it.tag())));
                o.set(&it.name().to_string(), io);
            }
            traits.set(&tcx.def_path_str(did), o);
        }
    }
    top.set("traits", traits);
    top
}

/// Build typenum unsigned `n` from the UInt/UTerm/B0/B1 ADTs found inside `sample`.
fn typenum_parts<'tcx>(
    tcx: TyCtxt<'tcx>,
    sample: Ty<'tcx>,
    out: &mut std::collections::HashMap<String, rustc_middle::ty::AdtDef<'tcx>>,
) {
    if let ty::Adt(adt, args) = sample.kind() {
        let name = tcx.item_name(adt.did()).to_string();
        out.entry(name).or_insert(*adt);
        for t in args.types() {
            typenum_parts(tcx, t, out);
        }
    }
}

fn mk_typenum<'tcx>(
    tcx: TyCtxt<'tcx>,
    parts: &std::collections::HashMap<String, rustc_middle::ty::AdtDef<'tcx>>,
    n: u64,
) -> Option<Ty<'tcx>> {
    let uterm = Ty::new_adt(tcx, *parts.get("UTerm")?, tcx.mk_args(&[]));
    if n == 0 {
        return Some(uterm);
    }
    let hi = mk_typenum(tcx, parts, n / 2)?;
    let b = if n % 2 == 1 { parts.get("B1")? } else { parts.get("B0")? };
    let bt = Ty::new_adt(tcx, *b, tcx.mk_args(&[]));
    Some(Ty::new_adt(tcx, *parts.get("UInt")?, tcx.mk_args(&[hi.into(), bt.into()])))
}

fn layout_grid<'tcx>(
    tcx: TyCtxt<'tcx>,
    layouts: &mut Vec<J>,
    seen: &mut std::collections::HashSet<String>,
) -> Option<J> {
    // the dense matrix type of this crate (public name `DenseMatrix`, two type parameters)
    let mut dm = None;
    let mut sample = None;
    let mut enums = Vec::new();
    for ldid in tcx.hir_crate_items(()).definitions() {
        let did = ldid.to_def_id();
        match tcx.def_kind(did) {
            DefKind::Struct => {
                if tcx.item_name(did).as_str() == "DenseMatrix" && tcx.generics_of(did).own_params.len() == 2 {
                    dm = Some(tcx.adt_def(did));
                }
            }
            DefKind::Enum => {
                let adt = tcx.adt_def(did);
                if adt.repr().int.is_some() && adt.variants().iter().all(|v| v.fields.is_empty()) {
                    enums.push(adt);
                }
            }
            DefKind::Impl { .. } => {
                for it in tcx.associated_items(did).in_definition_order() {
                    if it.is_type() && sample.is_none() {
                        let t = tcx.type_of(it.def_id).instantiate_identity().skip_norm_wip();
                        if let ty::Adt(a, _) = t.kind() {
                            if tcx.item_name(a.did()).as_str() == "UInt" {
                                sample = Some(t);
                            }
                        }
                    }
                }
            }
            _ => {}
        }
    }
    let dm = dm?;
    let mut parts = std::collections::HashMap::new();
    typenum_parts(tcx, sample?, &mut parts);
    let mut elems: Vec<(String, Ty<'tcx>)> = vec![
        ("u8".into(), tcx.types.u8),
        ("u32".into(), tcx.types.u32),
        ("f32".into(), tcx.types.f32),
        ("u64".into(), tcx.types.u64),
        ("i64".into(), tcx.types.i64),
        ("f64".into(), tcx.types.f64),
    ];
    for e in enums {
        elems.push((tcx.def_path_str(e.did()), Ty::new_adt(tcx, e, tcx.mk_args(&[]))));
    }
    let mut grid = Vec::new();
    for (tn, t) in &elems {
        for c in [1u64, 2, 4, 5, 7, 8, 16, 21, 32, 33, 43, 64] {
            let cty = mk_typenum(tcx, &parts, c)?;
            let m = Ty::new_adt(tcx, dm, tcx.mk_args(&[(*t).into(), cty.into()]));
            let before = layouts.len();
            dump_layout(tcx, m, Some(format!("grid:{}:{}", tn, c)), 0, layouts, seen);
            // annotate the new entries with (elem, C)
            let mut g = J::obj();
            g.set("elem", J::Str(tn.clone()));
            g.set("c", J::Int(c as i128));
            g.set("first", J::Int(before as i128));
            g.set("count", J::Int((layouts.len() - before) as i128));
            let env = TypingEnv::fully_monomorphized();
            if let Ok(l) = tcx.layout_of(env.as_query_input(*t)) {
                g.set("elem_size", J::Int(l.size.bytes() as i128));
            }
            grid.push(g);
        }
    }
    Some(J::Arr(grid))
}

fn has_attr_named(tcx: TyCtxt<'_>, did: DefId, name: &str) -> bool {
    // `#[default]` is a built-in derive helper attribute; look at the raw source text of the
    // variant's span start as a robust fallback (attribute parsing APIs change often).
    if let Some(l) = did.as_local() {
        let hir_id = tcx.local_def_id_to_hir_id(l);
        for a in tcx.hir_attrs(hir_id) {
            if a.has_name(rustc_span::Symbol::intern(name)) {
                return true;
            }
        }
        // fallback: inspect source snippet preceding the item
        let sp = tcx.def_span(did);
        let sm = tcx.sess.source_map();
        if let Ok(prev) = sm.span_to_prev_source(sp) {
            let tail: String = prev.chars().rev().take(40).collect::<String>().chars().rev().collect();
            if tail.trim_end().ends_with(&format!("#[{}]", name)) {
                return true;
            }
        }
    }
    false
}

fn dump_layout<'tcx>(
    tcx: TyCtxt<'tcx>,
    ty: Ty<'tcx>,
    alias: Option<String>,
    depth: usize,
    out: &mut Vec<J>,
    seen: &mut std::collections::HashSet<String>,
) {
    let key = ty.to_string();
    if depth > 3 {
        return;
    }
    if !seen.insert(format!("{}|{:?}", key, alias.is_some())) && alias.is_none() {
        return;
    }
    let env = TypingEnv::fully_monomorphized();
    let lay = match tcx.layout_of(env.as_query_input(ty)) {
        Ok(l) => l,
        Err(_) => return,
    };
    let mut o = J::obj();
    if let Some(a) = alias {
        o.set("alias", J::Str(a));
    }
    o.set("ty", J::Str(key));
    o.set("size", J::Int(lay.size.bytes() as i128));
    o.set("align", J::Int(lay.align.abi.bytes() as i128));
    let mut fields = Vec::new();
    if let ty::Adt(adt, args) = ty.kind() {
        o.set("adt", jstr(tcx.def_path_str(adt.did())));
        if adt.is_struct() {
            let v = adt.non_enum_variant();
            for (fi, f) in v.fields.iter_enumerated() {
                let fty = f.ty(tcx, args);
                let fty = tcx.normalize_erasing_regions(env, rustc_middle::ty::Unnormalized::new_wip(fty));
                let mut fo = J::obj();
                fo.set("name", jstr(f.name));
                fo.set("ty", jstr(fty));
                fo.set("offset", J::Int(lay.fields.offset(fi.as_usize()).bytes() as i128));
                if let Ok(fl) = tcx.layout_of(env.as_query_input(fty)) {
                    fo.set("size", J::Int(fl.size.bytes() as i128));
                    fo.set("align", J::Int(fl.align.abi.bytes() as i128));
                }
                fields.push(fo);
                // descend: named ADTs and the element type of Vec<..>
                descend_layout(tcx, fty, depth + 1, out, seen);
            }
        }
    }
    o.set("fields", J::Arr(fields));
    out.push(o);
}

fn descend_layout<'tcx>(
    tcx: TyCtxt<'tcx>,
    ty: Ty<'tcx>,
    depth: usize,
    out: &mut Vec<J>,
    seen: &mut std::collections::HashSet<String>,
) {
    if let ty::Adt(adt, args) = ty.kind() {
        let p = tcx.def_path_str(adt.did());
        if p == "alloc::vec::Vec" || p == "std::vec::Vec" {
            if let Some(t) = args.types().next() {
                dump_layout(tcx, t, None, depth, out, seen);
            }
        } else if adt.did().is_local() {
            if adt.is_struct() && !p.starts_with("core::") && !p.starts_with("alloc::") && !p.starts_with("std::") {
                dump_layout(tcx, ty, None, depth, out, seen);
            }
        }
    }
}

// ---------------------------------------------------------------------------

fn dump_fn<'tcx>(
    tcx: TyCtxt<'tcx>,
    ldid: LocalDefId,
    kind: DefKind,
    body: &Body<'tcx>,
    promoted: Option<usize>,
) -> J {
    let did = ldid.to_def_id();
    let mut o = J::obj();
    let mut path = tcx.def_path_str(did);
    if let Some(p) = promoted {
        path = format!("{}::promoted[{}]", path, p);
        o.set("promoted_of", jstr(tcx.def_path_str(did)));
    }
    o.set("path", J::Str(path));
    o.set("kind", jstr(format!("{:?}", kind)));
    o.set("span", J::Str(span_str(tcx, tcx.def_span(did))));
    o.set("expn", J::Arr(expn_chain(tcx.def_span(did)).into_iter().map(J::Str).collect()));
    if matches!(kind, DefKind::Closure) {
        o.set("parent", jstr(tcx.def_path_str(tcx.typeck_root_def_id(did))));
        o.set("iparent", jstr(tcx.def_path_str(tcx.parent(did))));
        let mut ups = Vec::new();
        for cap in tcx.closure_captures(ldid) {
            let mut u = J::obj();
            u.set("name", jstr(cap.to_symbol()));
            u.set("by_ref", J::Bool(cap.is_by_ref()));
            u.set("place", jstr(format!("{:?}", cap.place.projections.iter().map(|p| format!("{:?}", p.kind)).collect::<Vec<_>>())));
            ups.push(u);
        }
        o.set("upvars", J::Arr(ups));
    }
    if matches!(kind, DefKind::Fn | DefKind::AssocFn) {
        let sig = tcx.fn_sig(did).instantiate_identity().skip_norm_wip();
        o.set("unsafe", J::Bool(sig.safety().is_unsafe()));
        o.set("sig", jstr(sig));
        // where-clauses (own and inherited from the impl / trait): trait bounds are facts too (`C: MultipleOf<U16>`)
        let preds: Vec<J> = tcx
            .predicates_of(did)
            .instantiate_identity(tcx)
            .predicates
            .iter()
            .map(|p| jstr(format!("{:?}", p.skip_norm_wip())))
            .collect();
        o.set("preds", J::Arr(preds));
        o.set("vis", jstr(format!("{:?}", tcx.visibility(did))));
        let attrs = tcx.codegen_fn_attrs(did);
        let tf: Vec<J> = attrs.target_features.iter().map(|f| jstr(f.name)).collect();
        o.set("target_features", J::Arr(tf));
        o.set("inline", jstr(format!("{:?}", attrs.inline)));
        // enclosing impl
        if let Some(imp) = tcx.impl_of_assoc(did) {
            o.set("impl", jstr(tcx.def_path_str(imp)));
            o.set("impl_self", jstr(tcx.type_of(imp).instantiate_identity().skip_norm_wip()));
            if let Some(tr) = tcx.impl_opt_trait_ref(imp) {
                let tr = tr.instantiate_identity().skip_norm_wip();
                o.set("impl_trait", jstr(tr.print_only_trait_path()));
                o.set("impl_trait_def", jstr(tcx.def_path_str(tr.def_id)));
            }
            o.set("derived", J::Bool(tcx.is_automatically_derived(imp)));
        } else if let Some(tr) = tcx.trait_of_assoc(did) {
            o.set("trait_default_of", jstr(tcx.def_path_str(tr)));
        }
        o.set("name", jstr(tcx.item_name(did)));
    }
    o.set("arg_count", J::Int(body.arg_count as i128));

    // locals
    let mut names: Vec<Option<String>> = vec![None; body.local_decls.len()];
    let mut dbg = Vec::new();
    for vdi in &body.var_debug_info {
        let mut d = J::obj();
        d.set("name", jstr(vdi.name));
        match &vdi.value {
            mir::VarDebugInfoContents::Place(p) => {
                if p.projection.is_empty() {
                    names[p.local.as_usize()] = Some(vdi.name.to_string());
                }
                d.set("place", dump_place(tcx, body, p));
            }
            mir::VarDebugInfoContents::Const(c) => {
                d.set("const", jstr(c.const_));
            }
        }
        dbg.push(d);
    }
    o.set("debug", J::Arr(dbg));
    let mut locals = Vec::new();
    for (li, ld) in body.local_decls.iter_enumerated() {
        let mut l = J::obj();
        l.set("ty", jstr(ld.ty));
        if let Some(n) = &names[li.as_usize()] {
            l.set("name", J::Str(n.clone()));
        }
        l.set("mut", J::Bool(ld.mutability.is_mut()));
        locals.push(l);
    }
    o.set("locals", J::Arr(locals));

    let tenv = TypingEnv::post_analysis(tcx, did);
    let mut blocks = Vec::new();
    for (_bb, bd) in body.basic_blocks.iter_enumerated() {
        blocks.push(dump_block(tcx, body, bd, tenv));
    }
    o.set("blocks", J::Arr(blocks));
    o
}

fn dump_block<'tcx>(
    tcx: TyCtxt<'tcx>,
    body: &Body<'tcx>,
    bd: &BasicBlockData<'tcx>,
    tenv: TypingEnv<'tcx>,
) -> J {
    let mut b = J::obj();
    b.set("cleanup", J::Bool(bd.is_cleanup));
    let mut stmts = Vec::new();
    for st in &bd.statements {
        match &st.kind {
            StatementKind::Assign(bx) => {
                let (pl, rv) = &**bx;
                let mut s = J::obj();
                s.set("k", J::Str("assign".into()));
                s.set("p", dump_place(tcx, body, pl));
                s.set("rv", dump_rvalue(tcx, body, rv));
                s.set("span", J::Str(span_str(tcx, st.source_info.span)));
                if st.source_info.span.from_expansion() {
                    s.set(
                        "expn",
                        J::Arr(expn_chain(st.source_info.span).into_iter().map(J::Str).collect()),
                    );
                }
                stmts.push(s);
            }
            StatementKind::SetDiscriminant { place, variant_index } => {
                let mut s = J::obj();
                s.set("k", J::Str("setdiscr".into()));
                s.set("p", dump_place(tcx, body, place));
                s.set("variant", J::Int(variant_index.as_usize() as i128));
                stmts.push(s);
            }
            StatementKind::Intrinsic(i) => {
                let mut s = J::obj();
                s.set("k", J::Str("intrinsic".into()));
                s.set("text", jstr(format!("{:?}", i)));
                stmts.push(s);
            }
            _ => {}
        }
    }
    b.set("stmts", J::Arr(stmts));
    let term = bd.terminator();
    let mut t = J::obj();
    let sp = term.source_info.span;
    t.set("span", J::Str(span_str(tcx, sp)));
    if sp.from_expansion() {
        t.set("expn", J::Arr(expn_chain(sp).into_iter().map(J::Str).collect()));
    }
    match &term.kind {
        TerminatorKind::Goto { target } => {
            t.set("k", J::Str("goto".into()));
            t.set("target", J::Int(target.as_usize() as i128));
        }
        TerminatorKind::SwitchInt { discr, targets } => {
            t.set("k", J::Str("switch".into()));
            t.set("discr", dump_operand(tcx, body, discr));
            let mut arms = Vec::new();
            for (v, bb) in targets.iter() {
                arms.push(J::Arr(vec![J::Str(format!("{}", v)), J::Int(bb.as_usize() as i128)]));
            }
            t.set("arms", J::Arr(arms));
            t.set("otherwise", J::Int(targets.otherwise().as_usize() as i128));
            t.set("discr_ty", jstr(discr.ty(body, tcx)));
        }
        TerminatorKind::Return => t.set("k", J::Str("return".into())),
        TerminatorKind::Unreachable => t.set("k", J::Str("unreachable".into())),
        TerminatorKind::UnwindResume => t.set("k", J::Str("resume".into())),
        TerminatorKind::UnwindTerminate(_) => t.set("k", J::Str("terminate".into())),
        TerminatorKind::Drop { place, target, unwind, .. } => {
            t.set("k", J::Str("drop".into()));
            t.set("p", dump_place(tcx, body, place));
            t.set("target", J::Int(target.as_usize() as i128));
            if let mir::UnwindAction::Cleanup(c) = unwind {
                t.set("unwind", J::Int(c.as_usize() as i128));
            }
        }
        TerminatorKind::Call { func, args, destination, target, unwind, fn_span, .. } => {
            t.set("k", J::Str("call".into()));
            let fty = func.ty(body, tcx);
            if !matches!(fty.kind(), ty::FnDef(..)) {
                t.set("func", dump_operand(tcx, body, func));
            }
            match fty.kind() {
                ty::FnDef(def_id, gargs) => {
                    t.set("callee", jstr(tcx.def_path_str(*def_id)));
                    t.set("callee_full", jstr(tcx.def_path_str_with_args(*def_id, gargs)));
                    let ga: Vec<J> = gargs.iter().map(|a| jstr(a)).collect();
                    t.set("gargs", J::Arr(ga));
                    t.set("callee_crate", jstr(tcx.crate_name(def_id.krate)));
                    if let Some(tr) = tcx.trait_of_assoc(*def_id) {
                        t.set("callee_trait", jstr(tcx.def_path_str(tr)));
                    }
                    if let Some(imp) = tcx.impl_of_assoc(*def_id) {
                        t.set(
                            "callee_impl_self",
                            jstr(tcx.type_of(imp).instantiate_identity().skip_norm_wip()),
                        );
                    }
                    if let Ok(Some(inst)) = Instance::try_resolve(tcx, tenv, *def_id, gargs) {
                        let rd = inst.def_id();
                        t.set("resolved", jstr(tcx.def_path_str(rd)));
                        t.set(
                            "resolved_full",
                            jstr(tcx.def_path_str_with_args(rd, inst.args)),
                        );
                        t.set("resolved_kind", jstr(format!("{:?}", std::mem::discriminant(&inst.def))));
                        if let Some(imp) = tcx.impl_of_assoc(rd) {
                            t.set(
                                "resolved_impl_self",
                                jstr(tcx.type_of(imp).instantiate_identity().skip_norm_wip()),
                            );
                        }
                    }
                    let sig = tcx.fn_sig(*def_id).instantiate_identity().skip_norm_wip();
                    t.set("callee_unsafe", J::Bool(sig.safety().is_unsafe()));
                }
                _ => {
                    t.set("callee", J::Null);
                    t.set("func_ty", jstr(fty));
                }
            }
            let a: Vec<J> = args.iter().map(|a| dump_operand(tcx, body, &a.node)).collect();
            t.set("args", J::Arr(a));
            t.set("dest", dump_place(tcx, body, destination));
            if let Some(tg) = target {
                t.set("target", J::Int(tg.as_usize() as i128));
            }
            if let mir::UnwindAction::Cleanup(c) = unwind {
                t.set("unwind", J::Int(c.as_usize() as i128));
            }
            t.set("fn_span", J::Str(span_str(tcx, *fn_span)));
        }
        TerminatorKind::Assert { cond, expected, msg, target, .. } => {
            t.set("k", J::Str("assert".into()));
            t.set("cond", dump_operand(tcx, body, cond));
            t.set("expected", J::Bool(*expected));
            let (mk, ops): (&str, Vec<&Operand<'tcx>>) = match &**msg {
                mir::AssertKind::BoundsCheck { len, index } => ("bounds", vec![len, index]),
                mir::AssertKind::Overflow(op, a, b) => {
                    t.set("op", jstr(format!("{:?}", op)));
                    ("overflow", vec![a, b])
                }
                mir::AssertKind::OverflowNeg(a) => ("overflow_neg", vec![a]),
                mir::AssertKind::DivisionByZero(a) => ("div_zero", vec![a]),
                mir::AssertKind::RemainderByZero(a) => ("rem_zero", vec![a]),
                mir::AssertKind::MisalignedPointerDereference { .. } => ("misaligned", vec![]),
                mir::AssertKind::NullPointerDereference => ("nullptr", vec![]),
                _ => ("other", vec![]),
            };
            t.set("msg", J::Str(mk.into()));
            t.set("ops", J::Arr(ops.into_iter().map(|o| dump_operand(tcx, body, o)).collect()));
            t.set("target", J::Int(target.as_usize() as i128));
        }
        TerminatorKind::FalseEdge { real_target, .. } => {
            t.set("k", J::Str("goto".into()));
            t.set("target", J::Int(real_target.as_usize() as i128));
        }
        TerminatorKind::FalseUnwind { real_target, .. } => {
            t.set("k", J::Str("goto".into()));
            t.set("target", J::Int(real_target.as_usize() as i128));
        }
        other => {
            t.set("k", J::Str("other".into()));
            t.set("text", jstr(format!("{:?}", other)));
        }
    }
    b.set("term", t);
    b
}

fn dump_place<'tcx>(tcx: TyCtxt<'tcx>, body: &Body<'tcx>, p: &Place<'tcx>) -> J {
    let mut o = J::obj();
    o.set("l", J::Int(p.local.as_usize() as i128));
    let mut proj = Vec::new();
    let mut cur = mir::PlaceTy::from_ty(body.local_decls[p.local].ty);
    for e in p.projection.iter() {
        match e {
            ProjectionElem::Deref => proj.push(J::Str("*".into())),
            ProjectionElem::Field(f, fty) => {
                let mut fo = J::obj();
                fo.set("f", J::Int(f.as_usize() as i128));
                // field name if ADT
                if let ty::Adt(adt, _) = cur.ty.kind() {
                    let v = match cur.variant_index {
                        Some(vi) => adt.variant(vi),
                        None if !adt.is_enum() => adt.non_enum_variant(),
                        None => adt.variant(rustc_abi::FIRST_VARIANT),
                    };
                    if let Some(fd) = v.fields.get(f) {
                        fo.set("n", jstr(fd.name));
                    }
                    fo.set("adt", jstr(tcx.def_path_str(adt.did())));
                }
                fo.set("ty", jstr(fty));
                proj.push(fo);
            }
            ProjectionElem::Index(l) => {
                let mut io = J::obj();
                io.set("idx", J::Int(l.as_usize() as i128));
                proj.push(io);
            }
            ProjectionElem::ConstantIndex { offset, min_length, from_end } => {
                let mut io = J::obj();
                io.set("cidx", J::Int(offset as i128));
                io.set("min_len", J::Int(min_length as i128));
                io.set("from_end", J::Bool(from_end));
                proj.push(io);
            }
            ProjectionElem::Subslice { from, to, from_end } => {
                let mut io = J::obj();
                io.set("sub_from", J::Int(from as i128));
                io.set("sub_to", J::Int(to as i128));
                io.set("from_end", J::Bool(from_end));
                proj.push(io);
            }
            ProjectionElem::Downcast(name, vi) => {
                let mut io = J::obj();
                io.set("variant", J::Int(vi.as_usize() as i128));
                if let Some(n) = name {
                    io.set("vn", jstr(n));
                }
                proj.push(io);
            }
            ProjectionElem::OpaqueCast(t) => {
                let mut io = J::obj();
                io.set("opaque", jstr(t));
                proj.push(io);
            }
            ProjectionElem::UnwrapUnsafeBinder(t) => {
                let mut io = J::obj();
                io.set("unbind", jstr(t));
                proj.push(io);
            }
        }
        cur = cur.projection_ty(tcx, e);
    }
    o.set("pr", J::Arr(proj));
    o
}

fn dump_const<'tcx>(tcx: TyCtxt<'tcx>, c: &mir::ConstOperand<'tcx>) -> J {
    let mut o = J::obj();
    let ty = c.const_.ty();
    o.set("ty", jstr(ty));
    o.set("text", jstr(c.const_));
    match ty.kind() {
        ty::FnDef(def_id, gargs) => {
            o.set("fn", jstr(tcx.def_path_str(*def_id)));
            o.set("fn_full", jstr(tcx.def_path_str_with_args(*def_id, gargs)));
        }
        ty::Closure(def_id, _) => {
            o.set("closure", jstr(tcx.def_path_str(*def_id)));
        }
        _ => {}
    }
    // scalar value if already evaluated
    match c.const_ {
        mir::Const::Val(v, _) => {
            if let Some(si) = v.try_to_scalar_int() {
                o.set("bits", J::Str(format!("{}", si.to_bits_unchecked())));
                o.set("size", J::Int(si.size().bytes() as i128));
            }
        }
        mir::Const::Ty(_, ct) => {
            if let Some(v) = ct.try_to_value() {
                if let Some(si) = v.try_to_leaf() {
                    o.set("bits", J::Str(format!("{}", si.to_bits_unchecked())));
                    o.set("size", J::Int(si.size().bytes() as i128));
                }
            }
        }
        mir::Const::Unevaluated(uv, _) => {
            o.set("uneval", jstr(tcx.def_path_str_with_args(uv.def, uv.args)));
            if let Some(p) = uv.promoted {
                o.set("promoted", J::Int(p.as_usize() as i128));
            }
            // try to evaluate when it does not depend on generics
            if !uv.args.iter().any(|a| a.has_param_or_infer()) {
                if let Ok(v) = tcx.const_eval_resolve(
                    TypingEnv::fully_monomorphized(),
                    uv,
                    rustc_span::DUMMY_SP,
                ) {
                    if let Some(si) = v.try_to_scalar_int() {
                        o.set("bits", J::Str(format!("{}", si.to_bits_unchecked())));
                        o.set("size", J::Int(si.size().bytes() as i128));
                    }
                }
            }
        }
    }
    o
}

trait HasParam {
    fn has_param_or_infer(&self) -> bool;
}
impl<'tcx> HasParam for ty::GenericArg<'tcx> {
    fn has_param_or_infer(&self) -> bool {
        use rustc_middle::ty::TypeVisitableExt;
        self.has_param() || self.has_infer() || self.has_aliases()
    }
}

fn dump_operand<'tcx>(tcx: TyCtxt<'tcx>, body: &Body<'tcx>, op: &Operand<'tcx>) -> J {
    let mut o = J::obj();
    match op {
        Operand::Copy(p) => o.set("c", dump_place(tcx, body, p)),
        Operand::Move(p) => o.set("m", dump_place(tcx, body, p)),
        Operand::Constant(c) => o.set("k", dump_const(tcx, c)),
        #[allow(unreachable_patterns)]
        other => o.set("other", jstr(format!("{:?}", other))),
    }
    o
}

fn dump_rvalue<'tcx>(tcx: TyCtxt<'tcx>, body: &Body<'tcx>, rv: &Rvalue<'tcx>) -> J {
    let mut o = J::obj();
    match rv {
        Rvalue::Use(op, ..) => {
            o.set("k", J::Str("use".into()));
            o.set("a", dump_operand(tcx, body, op));
        }
        Rvalue::Repeat(op, n) => {
            o.set("k", J::Str("repeat".into()));
            o.set("a", dump_operand(tcx, body, op));
            o.set("n", jstr(n));
        }
        Rvalue::Ref(_, bk, p) => {
            o.set("k", J::Str("ref".into()));
            o.set("mut", J::Bool(matches!(bk, mir::BorrowKind::Mut { .. })));
            o.set("p", dump_place(tcx, body, p));
        }
        Rvalue::RawPtr(k, p) => {
            o.set("k", J::Str("rawptr".into()));
            o.set("mut", J::Bool(matches!(k, mir::RawPtrKind::Mut)));
            o.set("p", dump_place(tcx, body, p));
        }
        Rvalue::Cast(ck, op, ty) => {
            o.set("k", J::Str("cast".into()));
            o.set("ck", jstr(format!("{:?}", ck)));
            o.set("a", dump_operand(tcx, body, op));
            o.set("from", jstr(op.ty(body, tcx)));
            o.set("ty", jstr(ty));
        }
        Rvalue::BinaryOp(op, bx) => {
            o.set("k", J::Str("bin".into()));
            o.set("op", jstr(format!("{:?}", op)));
            o.set("a", dump_operand(tcx, body, &bx.0));
            o.set("b", dump_operand(tcx, body, &bx.1));
            o.set("ty", jstr(bx.0.ty(body, tcx)));
        }
        Rvalue::UnaryOp(op, a) => {
            o.set("k", J::Str("un".into()));
            o.set("op", jstr(format!("{:?}", op)));
            o.set("a", dump_operand(tcx, body, a));
        }
        Rvalue::Discriminant(p) => {
            o.set("k", J::Str("discr".into()));
            o.set("p", dump_place(tcx, body, p));
            o.set("ty", jstr(p.ty(body, tcx).ty));
        }
        Rvalue::Aggregate(ak, ops) => {
            o.set("k", J::Str("agg".into()));
            match &**ak {
                AggregateKind::Array(t) => {
                    o.set("ak", J::Str("array".into()));
                    o.set("ty", jstr(t));
                }
                AggregateKind::Tuple => o.set("ak", J::Str("tuple".into())),
                AggregateKind::Adt(did, vi, _args, _, _) => {
                    o.set("ak", J::Str("adt".into()));
                    o.set("adt", jstr(tcx.def_path_str(*did)));
                    let adt = tcx.adt_def(*did);
                    let v = adt.variant(*vi);
                    o.set("variant", jstr(v.name));
                    o.set("vi", J::Int(vi.as_usize() as i128));
                    let fnames: Vec<J> = v.fields.iter().map(|f| jstr(f.name)).collect();
                    o.set("fields", J::Arr(fnames));
                }
                AggregateKind::Closure(did, _) => {
                    o.set("ak", J::Str("closure".into()));
                    o.set("closure", jstr(tcx.def_path_str(*did)));
                }
                other => {
                    o.set("ak", J::Str("other".into()));
                    o.set("text", jstr(format!("{:?}", other)));
                }
            }
            o.set("ops", J::Arr(ops.iter().map(|x| dump_operand(tcx, body, x)).collect()));
        }
        Rvalue::CopyForDeref(p) => {
            o.set("k", J::Str("use".into()));
            let mut c = J::obj();
            c.set("c", dump_place(tcx, body, p));
            o.set("a", c);
        }
        other => {
            o.set("k", J::Str("other".into()));
            o.set("text", jstr(format!("{:?}", other)));
        }
    }
    o
}
