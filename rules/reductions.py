"""Loop-form independent view of the few scalar reductions the properties rest on (built on lm/reduce.py, E5c)."""
from lm import expr as X, reduce as RD, iteralg as IA
from lm.match import norm, m
from . import common


def returned_reduction(db, f):
    """The one reduction whose result the function returns, in canonical form (see lm.reduce), with its RCanon; (None, reason) otherwise.
    Forms: an accumulator loop whose accumulator is the returned local | the returned expression is an iterator pipeline ending in
    sum / fold / min_by / max_by."""
    R = X.Rec(f)
    C = RD.RCanon(db, f, R)
    e = common.return_expr_single_path_allow(f)
    if e is None:
        return None, 'several return paths'
    e = norm(e)
    r = RD.of_expr(C, e)
    if r is not None:
        return (r, C), None
    loops = [l for l in RD.loops_in(db, f, R, C) if e == ('v', l['local'])]
    if len(loops) == 1:
        l = dict(loops[0])
        if not l['every_iteration'] or not l['single_exit']:
            return None, 'the accumulation is not executed on every iteration or the loop can be left early'
        ids = RD.pos_ids(l['term'])
        if l['nested'] != 1 or len(ids) != 1:
            return None, f'accumulator loop nest of depth {l["nested"]} over positions {sorted(map(str, ids))}'
        l['L'] = next(iter(ids))
        if isinstance(l['L'], tuple):
            hdr = l['L'][1] if l['L'][0] == 'while' else None
        else:
            hdr = common.loop_of_elem(f, ('elem', None, l['L']))
        if hdr != l['header']:
            return None, 'the accumulated term is not driven by the iterator of the accumulating loop'
        l['extents'] = C.extents.get(l['L'])
        return (l, C), None
    return None, f'returned value {X.show(e, 100)} is not a recognised reduction ({len(loops)} accumulator loops)'


def extent_is_rows(ext, data):
    """The iteration runs over every row of `data`, once: rows iterator, or 0..data.rows()."""
    if not ext or len(ext) != 1:
        return False
    x = ext[0]
    if x == ('rows', data):
        return True
    return x[0] == 'sub' and x[2] == ('k', 0) and common.is_call_on(x[1], 'DenseMatrix::rows', data)


def slice_view(e):
    """('at', X, range-aggregate) -> (X, lo, hi) with hi None = to the end; None when e is not a range slice."""
    if e[0] == 'at' and e[2][0] == 'agg' and isinstance(e[2][1], tuple) and len(e[2][1]) > 1 and 'ops::range::' in str(e[2][1][1]):
        nm = e[2][1][1].rsplit('::', 1)[-1]
        a = e[2][2]
        if nm == 'RangeTo' and len(a) == 1:
            return e[1], ('k', 0), a[0]
        if nm == 'Range' and len(a) == 2:
            return e[1], a[0], a[1]
        if nm == 'RangeFull':
            return e[1], ('k', 0), None
        if nm == 'RangeFrom' and len(a) == 1:
            return e[1], a[0], None
    return None
