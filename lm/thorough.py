"""Thorough-tier extras: additional build configurations, compile-fail witnesses (E10), sensitivity self-test."""
import os, re, shutil, subprocess, sys, time
from . import extract, db as dbm, report

VERIF = extract.VERIF

# properties whose rules only need the core crate can also be evaluated on `--no-default-features`
CORE_ONLY = {'C01', 'C02', 'C03', 'C04', 'C05', 'C06', 'C07', 'C08', 'C09', 'C19'}
WITNESS_PROPS = {'C06': ['UninitializedIsUnsafe', 'RavelIsUnsafe', 'Avx2U8OnlyForDna', 'Sse2NeedsMultipleOf16', 'Avx2Needs32Columns', 'KernelsArePrivate', 'RowIsPrivate'],
                 'C19': ['UninitializedIsUnsafe', 'RavelIsUnsafe', 'RowIsPrivate']}


# properties with backend-specific rules that are re-run on the aarch64 build, where the Arm NEON arm is compiled (rules/neon.py)
NEON_PROPS = {'C01', 'C02', 'C03', 'C05', 'C06', 'C08'}


def configs_for(prop):
    c = ['default', 'nooverflow']
    if prop in CORE_ONLY:
        c.append('nodefault')
    if prop in NEON_PROPS:
        c.append('aarch64')
    return c


def run_witnesses(ctx, names):
    """cargo +nightly test --doc on the witness crate (path-depends on the repo under analysis)."""
    ctx.rule('R-E10', 'type-level witnesses: each forbidden program fails to compile with the expected error code while its twin (differing only by the offending line) compiles')
    wdir = os.path.join(VERIF, 'witness')
    repo = extract.REPO
    tmpl = open(os.path.join(wdir, 'Cargo.toml.in')).read().replace('@REPO@', repo)
    open(os.path.join(wdir, 'Cargo.toml'), 'w').write(tmpl)
    shutil.copy(os.path.join(repo, 'Cargo.lock'), os.path.join(wdir, 'Cargo.lock'))
    env = dict(os.environ, CARGO_TARGET_DIR=os.path.join(extract.CACHE, 'target-witness'), CARGO_NET_OFFLINE='true')
    r = subprocess.run(['cargo', '+nightly', 'test', '--doc', '--offline'], cwd=wdir, env=env, capture_output=True, text=True)
    out = r.stdout + r.stderr
    res = {}
    for mm in re.finditer(r'^test src/lib\.rs - (\w+) \(line \d+\)( - compile fail)? \.\.\. (\w+)', out, re.M):
        res.setdefault(mm.group(1), {})['fail' if mm.group(2) else 'twin'] = mm.group(3)
    for n in names:
        got = res.get(n, {})
        if got.get('fail') == 'ok' and got.get('twin') == 'ok':
            ctx.ok('R-E10', 'witness::' + n, 'forbidden program rejected by rustc with the expected error code; twin compiles', ['compile_fail doc-test', 'compiling twin'])
        elif not got:
            ctx.fail('R-E10', 'witness::' + n, 'witness did not run', 'reason=anchor-missing: ' + out[-600:])
        else:
            ctx.fail('R-E10', 'witness::' + n, 'type-level bound no longer enforced', f'compile-fail witness: {got.get("fail")}, compiling twin: {got.get("twin")} — the program that must not type-check is accepted (or its twin broke)')


def sensitivity(prop, budget_s=240):
    """Apply the self-test mutants of this property to scratch copies and count how many the check catches.
    Informative only (never changes the verdict)."""
    sys.path.insert(0, os.path.join(VERIF, 'selftest'))
    try:
        import mutants
    except Exception as e:
        return {'error': str(e)}
    scratch = '/var/tmp/lm-sensitivity-%d' % os.getpid()
    out = {'applied': 0, 'caught': 0, 'missed': [], 'skipped': 0}
    t0 = time.time()
    try:
        for mt in mutants.MUTANTS:
            props = mt['prop'] if isinstance(mt['prop'], list) else [mt['prop']]
            if prop not in props:
                continue
            if time.time() - t0 > budget_s:
                out['skipped'] += 1
                continue
            subprocess.check_call(['rsync', '-a', '--delete', '--exclude', 'target', '--exclude', '.git', extract.REPO + '/', scratch + '/'])
            ok = True
            if mt.get('patch'):
                r = subprocess.run(['patch', '-p1', '-s', '-i', os.path.join(VERIF, mt['patch'])], cwd=scratch, capture_output=True)
                if r.returncode != 0:
                    out['skipped'] += 1
                    continue
            for e in mt.get('edits', [mt] if 'file' in mt else []):
                path = os.path.join(scratch, e['file'])
                try:
                    s = open(path).read()
                except OSError:
                    ok = False
                    break
                n = s.count(e['old'])
                occ = e.get('occ')
                if n == 0 or (occ is None and n != 1):
                    ok = False
                    break
                if occ is None or occ == 'all':
                    s = s.replace(e['old'], e['new'])
                else:
                    parts = s.split(e['old'])
                    if occ + 1 >= len(parts):
                        ok = False
                        break
                    s = e['old'].join(parts[:occ + 1]) + e['new'] + e['old'].join(parts[occ + 1:])
                open(path, 'w').write(s)
            if not ok:
                out['skipped'] += 1
                continue
            env = dict(os.environ, LM_REPO=scratch, LM_NO_EVIDENCE='1', VERIF_TIER='quick')
            r = subprocess.run([os.path.join(VERIF, 'check'), prop, '--tier', 'quick'], env=env, capture_output=True, text=True, cwd=VERIF)
            txt = r.stdout + r.stderr
            if 'reason=extract-failed' in txt:
                out['skipped'] += 1
                continue
            out['applied'] += 1
            if r.returncode == 1 and 'VIOLATION' in txt:
                out['caught'] += 1
            else:
                out['missed'].append(mt['id'])
    finally:
        shutil.rmtree(scratch, ignore_errors=True)
    out['wall_s'] = round(time.time() - t0, 1)
    return out
