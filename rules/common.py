"""Helpers shared by the per-property rule modules."""
import re
from lm.db import short
from lm import tables, expr as X


def typenum(s):
    """Evaluate a printed typenum unsigned type (UInt<UInt<UTerm,B1>,B0> ...) to an int; None if not one."""
    s = re.sub(r'[A-Za-z_0-9:]*::(?=UInt|UTerm|B0|B1)', '', s.replace(' ', ''))
    pos = 0

    def parse():
        nonlocal pos
        if s.startswith('UTerm', pos):
            pos += 5
            return 0
        if s.startswith('UInt<', pos):
            pos += 5
            hi = parse()
            if s[pos] != ',':
                raise ValueError
            pos += 1
            if s.startswith('B1', pos):
                b = 1
            elif s.startswith('B0', pos):
                b = 0
            else:
                raise ValueError
            pos += 2
            if s[pos] != '>':
                raise ValueError
            pos += 1
            return hi * 2 + b
        raise ValueError
    try:
        v = parse()
        return v if pos == len(s) else None
    except (ValueError, IndexError):
        return None


def alphabets(db):
    """Every `impl Alphabet for X` of the workspace with its resolved pieces."""
    out = []
    for im in db.impls:
        if im.get('trait_def') and short(im['trait_def']) == 'lightmotif::abc::Alphabet':
            a = {'name': im['self_ty'].rsplit('::', 1)[-1], 'self_ty': im['self_ty'], 'impl': im}
            a['symbol_ty'] = im.get('types', {}).get('Symbol')
            a['K'] = typenum(im.get('types', {}).get('K', ''))
            a['symbols_fn'] = db.fns.get(im['items'].get('symbols'))
            a['as_str_fn'] = db.fns.get(im['items'].get('as_str'))
            # Symbol impl for the symbol type
            for im2 in db.impls:
                if im2.get('trait_def') and short(im2['trait_def']) == 'lightmotif::abc::Symbol' and im2['self_ty'] == a['symbol_ty']:
                    a['symbol_impl'] = im2
                    for m in ('as_index', 'as_ascii', 'from_ascii'):
                        a[m] = db.fns.get(im2['items'].get(m))
                if im2.get('trait_def') and short(im2['trait_def']) == 'lightmotif::abc::ComplementableSymbol' and im2['self_ty'] == a['symbol_ty']:
                    a['complement'] = db.fns.get(im2['items'].get('complement'))
            a['adt'] = db.adts.get(a['symbol_ty'])
            out.append(a)
    out.sort(key=lambda a: a['name'])
    return out


def is_self_discr(e):
    """discr(*self) of a `&self` method, or `self` by value / by copy."""
    if e[0] == 'discr':
        b = e[1]
        while b[0] in ('deref', 'ref'):
            b = b[1]
        return b[0] == 'p' and b[1] == 1
    return False


def is_param(e, i=1):
    while e[0] in ('deref', 'ref') or (e[0] == 'cast' and e[3] == 'IntToInt'):
        e = e[1]
    return e[0] == 'p' and e[1] == i


def variants(adt):
    """name -> discriminant, default variant name."""
    d = {v['name']: int(v['discr']) for v in adt['variants']}
    dflt = [v['name'] for v in adt['variants'] if v.get('default_attr')]
    return d, (dflt[0] if len(dflt) == 1 else None)


def str_const(e):
    """Value of a recovered &str constant ('kc', '"ACTGN"', '&str') -> 'ACTGN'."""
    if e[0] == 'kc' and isinstance(e[1], str):
        m = re.match(r'^(?:const )?"(.*)"$', e[1])
        if m:
            return bytes(m.group(1), 'utf-8').decode('unicode_escape')
    return None


def return_expr_single_path(fn):
    """For a branch-free function: the expression returned."""
    t = tables.decision_table(fn, allow_calls=('',))
    if len(t) != 1:
        return None
    return t[0][1]


def callsites(fn, pred):
    out = []
    for bi, t in fn.calls():
        c = fn.callee_short(t) or ''
        c0 = short(t.get('callee') or '')
        if pred(c) or pred(c0):
            out.append((bi, t))
    return out


def return_expr_single_path_allow(fn):
    """Return expression of a function whose only branching is overflow/bounds asserts (single normal path)."""
    R = X.Rec(fn)
    rets = fn.exits()
    if len(rets) != 1:
        return None
    d = fn.defs().get(0, [])
    if len(d) == 1:
        bi, si, x = d[0]
        return R.call(x) if si == 'term' else R.rvalue(x)
    return None


def promoted_expr(db, uneval, idx):
    """Recovered expression of a promoted constant (the value behind the reference)."""
    from lm.db import short as _s
    cands = [f for f in db.fns.values() if f.promoted_of and f.path.endswith(f'::promoted[{idx}]')
             and (_s(f.promoted_of) == _s(uneval) or f.promoted_of == uneval)]
    if len(cands) != 1:
        return None
    f = cands[0]
    R = X.Rec(f)
    d = f.defs().get(0, [])
    if len(d) != 1:
        return None
    bi, si, x = d[0]
    return R.call(x) if si == 'term' else R.rvalue(x)
