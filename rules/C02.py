"""C02 — scanner yields exactly the positions scoring at or above the threshold."""
from lm import expr as X, guards as G
from lm.match import norm, m
from . import scanner as S, common

LEVEL_NOTE = ('decides (part): no unwrap of an empty block maximum; candidate bounded by the number of valid positions before rescoring; '
              'position formula; inclusive comparisons; block partition; each hit pushed once and only drained by pop; pre-filter compares '
              'over-estimates with an under-estimate threshold (with C08). Not decided: numerical equality of scores (reduced to C01).')

IDS = {'unwrap': 'R2.1', 'bound': 'R2.2', 'formula': 'R2.3', 'cmp': 'R2.4', 'block': 'R2.5', 'once': 'R2.6', 'prefilter': 'R2.4', 'down': 'R2.4'}


def prefilter_conservative(db, ctx):
    """The scanner only never loses a hit if the 8-bit pre-filter over-estimates: re-evaluate the C08 rules as part of this property."""
    from . import C08
    ctx.rule('R2.7', 'pre-filter is conservative (C08 rules R8.1-R8.3 re-evaluated): cells rounded up, threshold rounded down, every 8-bit accumulation saturates')
    before, vb = len(ctx.obligations), len(ctx.violations)
    C08.r81(db, ctx)
    C08.r82(db, ctx)
    C08.r83(db, ctx)
    for o in ctx.obligations[before:]:
        o['rule'] = 'R2.7'
    for v in ctx.violations[vb:]:
        v['key'] = v['key'].replace(v['rule'], 'R2.7', 1)
        v['rule'] = 'R2.7'
    for k in ('R8.1', 'R8.2', 'R8.3', 'R8.3i'):
        ctx.rules_text.pop(k, None)
        if k in ctx.floors:
            ctx.floors['R2.7-' + k] = ctx.floors.pop(k)


def _run(db, ctx):
    ctx.rule('R2.1', 'the block maximum (None on an empty block) is never unwrapped unguarded')
    ctx.rule('R2.2', 'a candidate position is compared with the number of valid positions before it is rescored / reported')
    ctx.rule('R2.3', 'position = col*(rows-wrap) + block start + row')
    ctx.rule('R2.4', 'hits are kept under score >= threshold (inclusive, exact values); 8-bit pre-filter tests are over-estimate >= under-estimate')
    ctx.rule('R2.5', 'blocks partition the sequence rows: self.row..min(self.row+block_size, rows-wrap), advanced once per iteration')
    ctx.rule('R2.6', 'hits are pushed only inside the block loop, which is entered only while the buffer is empty, and drained only by pop')
    a = S.analyse(db, ctx, 'next', IDS)
    if not a:
        return
    f, R = a['f'], a['R']
    # R2.4 exact comparison guarding push
    pushes = [(bi, t) for bi, t in f.calls() if (f.callee_short(t) or '').endswith('Vec::push') and S.self_field(R.operand(t['args'][0]), 'hits')]
    if len(pushes) != 1:
        ctx.fail('R2.6', f, 'hits.push', f'reason=unrecognised-shape: {len(pushes)} pushes to self.hits')
        return
    pbi, pt = pushes[0]
    hit = norm(R.operand(pt['args'][1]))
    b = m(('call~', 'Hit::new', ('$pos', '$score')), hit)
    okp = b and X.canon(b['$pos']) == X.canon(a['idx']) and b['$score'][0] == 'call' and b['$score'][1].endswith('score_position')
    if okp:
        ctx.ok('R2.3', f, 'Hit::new(position, score_position(position)) — the reported position is the rescored one')
    else:
        ctx.fail('R2.3', f, 'hit construction', f'pushed hit is {X.show(hit, 200)}; expected Hit::new(index, score) of the rescored index', span=pt['span'])
    rels = G.relations(f, R, pbi)
    good = None
    for r in rels:
        if r[0] not in ('ge', 'gt', 'le', 'lt'):
            continue
        lhs, rhs, rel = norm(r[1]), norm(r[2]), r[0]
        if rhs[0] == 'call' and rhs[1].endswith('score_position'):
            lhs, rhs, rel = rhs, lhs, {'ge': 'le', 'gt': 'lt', 'le': 'ge', 'lt': 'gt'}[rel]
        if S.self_field(rhs, 'threshold') and lhs[0] == 'call' and lhs[1].endswith('score_position'):
            good = rel
    if good == 'ge':
        ctx.ok('R2.4', f, 'hit kept iff score_position(index) >= self.threshold', ['exact f32 values, inclusive'])
    elif good is None:
        ctx.fail('R2.4', f, 'exact threshold test', 'the push is not guarded by a comparison of the rescored value with self.threshold', span=pt['span'])
    else:
        ctx.fail('R2.4', f, 'exact threshold test', f'comparison is `{good}` instead of `>=`: positions scoring exactly the threshold are lost', span=pt['span'])
    # R2.6
    outer = a['outer']
    ok6 = False
    if outer:
        hdr_rels = G.relations(f, R, a['score_block'])
        ok6 = any(r[0] == 'true' and r[1][0] == 'call' and r[1][1].endswith('is_empty') and S.self_field(r[1][2][0], 'hits') for r in hdr_rels) \
            and pbi in outer['body']
    pops = [(bi, t) for bi, t in f.calls() if S.self_field(R.operand(t['args'][0]) if t['args'] else ('?',), 'hits')
            and not (f.callee_short(t) or '').endswith(('Vec::push', 'Vec::is_empty'))]
    ret_pop = [p for p in pops if (f.callee_short(p[1]) or '').endswith('Vec::pop') and p[1]['dest']['l'] == 0]
    if ok6 and len(pops) == 1 and len(ret_pop) == 1:
        ctx.ok('R2.6', f, 'push only inside the loop guarded by hits.is_empty(); the only consumer is the final pop()')
    else:
        ctx.fail('R2.6', f, 'hit buffer discipline', f'loop-guard-on-empty={ok6}, consumers of self.hits={[f.callee_short(p[1]) for p in pops]}')
    prefilter_conservative(db, ctx)


def run(db, ctx):
    _run(db, ctx)
    # the scanner scores one block of rows per iteration into a reused buffer, including a possibly empty trailing block that starts in the
    # look-ahead rows: every score wrapper must resize (clear) the output on every path, or stale 8-bit scores of the previous block are re-read
    from . import C01
    common.shared_rule(db, ctx, C01.r13, 'R2.8', 'every score_rows_into wrapper the scanner can dispatch to resizes the output buffer on every path '
                       '(to (rows.len(), L + 1 - M), or to (0, 0) when there is nothing to score) — shared with R1.3', ['R1.3'])
    # a block of the 8-bit pre-filter is skipped when its maximum is below the discrete threshold: that maximum must be an upper bound of
    # every cell of the block (all rows, all columns), or qualifying positions are dropped without being rescored
    from . import C07
    common.shared_rule(db, ctx, C07.block_maximum, 'R2.9', 'the block maximum that gates the 8-bit pre-filter covers every row and every column of the block '
                       '(AVX2 max kernel: identity, row range, lane coverage, final reduction; generic: argmax scan over all cells) — shared with R7.1 / R7.4', ['R7.1', 'R7.4'])
    # the scanner scores through the 8-bit kernels, which read the look-ahead rows, and maps a cell back to a position with
    # rows() - wrap(): both rest on configure / configure_wrap keeping their bookkeeping (seeds C02-6, C03-6 broke it for a second configure)
    from . import C04
    common.shared_rule(db, ctx, C04.lookahead_rules, 'R2.10', 'the look-ahead rows and the row count the scanner relies on: configure_wrap computes R = rows - wrap before '
                       'resizing, resizes to rows + m - wrap, copies cell(R+i, j) := cell(i, j+1) for every i < m, sets wrap := m; configure(motif) = configure_wrap(len - 1) '
                       'for every non-empty motif (shared with R4.5 / R4.8)', ['R4.5', 'R4.8'])
    # the cells the scanner rescues from a block are those Threshold::threshold lists: it must list every cell >= the byte threshold
    # (seed C03-7: `>` drops the cells equal to it — saturated windows at threshold = max_score, and accept-all thresholds)
    from . import C07
    common.shared_rule(db, ctx, C07.r75, 'R2.11', 'Threshold::threshold lists every cell of the block whose 8-bit score is >= the byte threshold, '
                       'all rows and all C columns, with the position it stands for (shared with R7.5)', ['R7.5'])
    from . import C03
    C03.hit_order(db, ctx, 'R2.12')
    # the reused score buffer is iterated through its row vector by the default threshold(): stale rows after a shrinking resize are scanned again (seed C02-9)
    from . import C19
    common.shared_rule(db, ctx, C19.storage_rules, 'R2.13', 'every change of a DenseMatrix row count goes with the same change of its row vector (shared with R19.2 / R19.5)', ['R19.2', 'R19.5'])
    common.shared_rule(db, ctx, C04.stripe_rules, 'R2.14', 'the striped matrix the scanner scores is the sequence (shared with R4.1 - R4.4)', ['R4.1', 'R4.2', 'R4.3', 'R4.4'])
    from . import C01
    common.shared_rule(db, ctx, C01.r111, 'R2.15', 'StripedScores::resize stores max_index as given (the scanner bounds candidates by it while scoring one block of rows at a time) '
                       '— shared with R1.11', ['R1.11'])
    common.shared_rule(db, ctx, C01.r15, 'R2.16', 'dispatcher arms and dispatching methods are complete (shared with R1.5)', ['R1.5'])
