"""Helpers shared by the per-property rule modules."""
import re
from lm.db import short
from lm import tables, expr as X
from lm.match import norm, m


def typenum(s):
    """Evaluate a printed typenum unsigned type (UInt<UInt<UTerm,B1>,B0> ...) to an int; None if not one."""
    s = re.sub(r'[A-Za-z_0-9:]*::(?=UInt|UTerm|B0|B1)', '', s.replace(' ', ''))
    pos = 0

    def parse():
        nonlocal pos
        if s.startswith('UTerm', pos):
            pos += 5
            return 0
        if s.startswith('UInt<', pos):
            pos += 5
            hi = parse()
            if s[pos] != ',':
                raise ValueError
            pos += 1
            if s.startswith('B1', pos):
                b = 1
            elif s.startswith('B0', pos):
                b = 0
            else:
                raise ValueError
            pos += 2
            if s[pos] != '>':
                raise ValueError
            pos += 1
            return hi * 2 + b
        raise ValueError
    try:
        v = parse()
        return v if pos == len(s) else None
    except (ValueError, IndexError):
        return None


def alphabets(db):
    """Every `impl Alphabet for X` of the workspace with its resolved pieces."""
    out = []
    for im in db.impls:
        if im.get('trait_def') and short(im['trait_def']) == 'lightmotif::abc::Alphabet':
            a = {'name': im['self_ty'].rsplit('::', 1)[-1], 'self_ty': im['self_ty'], 'impl': im}
            a['symbol_ty'] = im.get('types', {}).get('Symbol')
            a['K'] = typenum(im.get('types', {}).get('K', ''))
            a['symbols_fn'] = db.fns.get(im['items'].get('symbols'))
            a['as_str_fn'] = db.fns.get(im['items'].get('as_str'))
            # Symbol impl for the symbol type
            for im2 in db.impls:
                if im2.get('trait_def') and short(im2['trait_def']) == 'lightmotif::abc::Symbol' and im2['self_ty'] == a['symbol_ty']:
                    a['symbol_impl'] = im2
                    for m in ('as_index', 'as_ascii', 'from_ascii'):
                        a[m] = db.fns.get(im2['items'].get(m))
                if im2.get('trait_def') and short(im2['trait_def']) == 'lightmotif::abc::ComplementableSymbol' and im2['self_ty'] == a['symbol_ty']:
                    a['complement'] = db.fns.get(im2['items'].get('complement'))
            a['adt'] = db.adts.get(a['symbol_ty'])
            out.append(a)
    out.sort(key=lambda a: a['name'])
    return out


def is_self_discr(e):
    """discr(*self) of a `&self` method, or `self` by value / by copy."""
    if e[0] == 'discr':
        b = e[1]
        while b[0] in ('deref', 'ref'):
            b = b[1]
        return b[0] == 'p' and b[1] == 1
    return False


def is_param(e, i=1):
    while e[0] in ('deref', 'ref') or (e[0] == 'cast' and e[3] == 'IntToInt'):
        e = e[1]
    return e[0] == 'p' and e[1] == i


def variants(adt):
    """name -> discriminant, default variant name."""
    d = {v['name']: int(v['discr']) for v in adt['variants']}
    dflt = [v['name'] for v in adt['variants'] if v.get('default_attr')]
    return d, (dflt[0] if len(dflt) == 1 else None)


def str_const(e):
    """Value of a recovered &str constant ('kc', '"ACTGN"', '&str') -> 'ACTGN'."""
    if e[0] == 'kc' and isinstance(e[1], str):
        m = re.match(r'^(?:const )?"(.*)"$', e[1])
        if m:
            return bytes(m.group(1), 'utf-8').decode('unicode_escape')
    return None


def return_expr_single_path(fn):
    """For a branch-free function: the expression returned."""
    t = tables.decision_table(fn, allow_calls=('',))
    if len(t) != 1:
        return None
    return t[0][1]


def callsites(fn, pred):
    out = []
    for bi, t in fn.calls():
        c = fn.callee_short(t) or ''
        c0 = short(t.get('callee') or '')
        if pred(c) or pred(c0):
            out.append((bi, t))
    return out


def return_expr_single_path_allow(fn):
    """Return expression of a function whose only branching is overflow/bounds asserts (single normal path)."""
    R = X.Rec(fn)
    rets = fn.exits()
    if len(rets) != 1:
        return None
    d = fn.defs().get(0, [])
    if len(d) == 1:
        bi, si, x = d[0]
        return R.call(x) if si == 'term' else R.rvalue(x)
    return None


def promoted_expr(db, uneval, idx):
    """Recovered expression of a promoted constant (the value behind the reference)."""
    from lm.db import short as _s
    cands = [f for f in db.fns.values() if f.promoted_of and f.path.endswith(f'::promoted[{idx}]')
             and (_s(f.promoted_of) == _s(uneval) or f.promoted_of == uneval)]
    if len(cands) != 1:
        return None
    f = cands[0]
    R = X.Rec(f)
    d = f.defs().get(0, [])
    if len(d) != 1:
        return None
    bi, si, x = d[0]
    return R.call(x) if si == 'term' else R.rvalue(x)


def is_usize_const(e, of=None):
    """Exactly a typenum constant `<N as Unsigned>::USIZE` (not an expression that merely mentions it, such as K - 1).
    `of` restricts N: 'K' = the alphabet size `<A as Alphabet>::K`, 'C' = the column count / lane count of the backend,
    'Q' = `<C as MultipleOf<U16>>::Quotient` (number of 16-column blocks)."""
    e = norm(e)
    if not (e[0] == 'kc' and e[1].endswith('Unsigned::USIZE')):
        return False
    if of is None:
        return True
    self_ty = usize_self(e)
    if of == 'K':
        return self_ty.endswith('Alphabet>::K') or self_ty in ('K',)
    if of == 'Q':
        return self_ty.endswith('::Quotient')
    if of == 'C':
        return self_ty in ('C',) or self_ty.endswith('Backend>::Lanes')
    return False


def usize_self(e):
    e = norm(e)
    mm = re.match(r'^<(.*)>::[\w:]*Unsigned::USIZE$', e[1]) if e[0] == 'kc' else None
    return mm.group(1) if mm else ''


def is_call_to(e, *suffixes):
    """Exactly a call whose callee path ends with one of the suffixes (after stripping refs / casts / identity conversions)."""
    e = norm(e)
    return e[0] == 'call' and e[1].endswith(tuple(suffixes))


def is_len_of(e, who=None):
    """Exactly the length of a slice / vector / sequence: ('len', x) (PtrMetadata) or a call to `…::len(x)`; optionally of a given x."""
    e = norm(e)
    if e[0] == 'len':
        return who is None or norm(e[1]) == who
    if e[0] == 'call' and e[1].endswith('::len') and len(e[2]) == 1:
        return who is None or norm(e[2][0]) == who
    return False


def is_product_of_calls(e, suffixes):
    """Exactly a product whose factors are calls ending with the given suffixes (each used once, any order)."""
    e = norm(e)

    def factors(x):
        if x[0] == 'bin' and x[1] in ('Mul', 'MulUnchecked'):
            return factors(x[2]) + factors(x[3])
        return [x]
    fs = factors(e)
    if len(fs) != len(suffixes):
        return False
    left = list(suffixes)
    for x in fs:
        hit = [s for s in left if x[0] == 'call' and x[1].endswith(s)]
        if not hit and 'DenseMatrix::columns' in left and x[0] == 'kc' and str(x[1]).endswith('Unsigned::USIZE'):
            hit = ['DenseMatrix::columns']       # columns() is canonically spelled as the type-level constant it returns
        if not hit:
            return False
        left.remove(hit[0])
    return not left


def is_call_on(e, suffix, recv):
    """Exactly `<…suffix>(recv)` where recv is compared canonically (refs/casts transparent)."""
    e = norm(e)
    return e[0] == 'call' and e[1].endswith(suffix) and len(e[2]) >= 1 and X.canon(e[2][0]) == X.canon(recv)


def _lin_LM(e, is_L, is_M):
    """Linear form of e over the two atoms L (sequence length) and M (matrix rows): (cL, cM, c0) or None if anything else occurs."""
    l = X.lin(norm(e))
    cL = cM = 0
    c0 = l.get('', 0)
    for k, v in l.items():
        if k == '':
            continue
        if is_L(k):
            cL += v
        elif is_M(k):
            cM += v
        else:
            return None
    return cL, cM, c0


_IS_L = re.compile(r'lightmotif::seq::StripedSequence(::<[^()]*>)?::len\((arg\d+|_\d+)\)$')
_IS_M = re.compile(r'lightmotif::(dense::DenseMatrix|pwm::ScoringMatrix|pwm::DiscreteMatrix)(::<[^()]*>)?::rows\((arg\d+|_\d+)\)$')


def length_guard_strength(rels, is_L=lambda k: _IS_L.match(k) is not None, is_M=lambda k: _IS_M.match(k) is not None):
    """Among dominating relations find one that bounds L (sequence length) from below by M (matrix rows).
    Returns ('exact', r) when it is equivalent to L >= M, ('stronger', r) when it implies L >= M but also excludes L == M (or more),
    or (None, None).  Recognised: a REL b with both sides linear in L and M (any arrangement / constant), and
    saturating_sub(x, y) != 0 / > 0 (equivalent to x > y)."""
    best = (None, None)
    for r in rels:
        rel = r[0]
        if rel not in ('ge', 'gt', 'le', 'lt', 'ne', 'eq'):
            continue
        a, b = norm(r[1]), norm(r[2])
        # saturating_sub(x, y) != 0  /  > 0   <=>  x > y
        for s_, o in ((a, b), (b, a)):
            if s_[0] == 'call' and s_[1].endswith('saturating_sub') and len(s_[2]) == 2 and o == ('k', 0):
                if rel == 'ne' or (rel == 'gt' and s_ is a) or (rel == 'lt' and s_ is b):
                    a, b, rel = s_[2][0], s_[2][1], 'gt'
                    break
        if rel in ('le', 'lt'):
            a, b = b, a
            rel = {'le': 'ge', 'lt': 'gt'}[rel]
        if rel not in ('ge', 'gt'):
            continue
        la, lb = _lin_LM(a, is_L, is_M), _lin_LM(b, is_L, is_M)
        if la is None or lb is None:
            continue
        cL, cM, c0 = la[0] - lb[0], la[1] - lb[1], la[2] - lb[2]
        if (cL, cM) != (1, -1):
            continue
        # L - M + c0 >= 0 (ge)  or  > 0 (gt)   <=>   L >= M - c0   or   L >= M - c0 + 1
        low = -c0 if rel == 'ge' else -c0 + 1        # L >= M + low
        if low == 0:
            return ('exact', r)
        if low > 0 and best[0] is None:
            best = ('stronger', r)
    return best


def shared_rule(db, ctx, fn, new_id, text, old_ids):
    """Run a rule function of another property module under this property's own rule id (obligations, violations, floors relabelled)."""
    before, vb = len(ctx.obligations), len(ctx.violations)
    fn(db, ctx)
    for o in ctx.obligations[before:]:
        o['rule'] = new_id
    for v in ctx.violations[vb:]:
        v['key'] = v['key'].replace(v['rule'], new_id)
        v['why'] = v['why'].replace('rule ' + v['rule'], 'rule ' + new_id)
        v['rule'] = new_id
    ctx.rules_text[new_id] = text
    for k in old_ids:
        ctx.rules_text.pop(k, None)
        if k in ctx.floors:
            ctx.floors[new_id + '-' + k] = ctx.floors.pop(k)


# ---- loop-form independent views of "the j-th element of a row" ----------------------------------------------------------------------
_ITER_CALLS = ('slice::iter', 'iter::into_iter', 'IntoIterator::into_iter', 'GenericArray::iter', 'slice::iter_mut')


def index_form(e):
    """e is a loop index variable: (loop id, extent expr, sequence or None).
    Forms: `i` of `for i in 0..N`  |  `i` of `for (i, x) in xs.iter().enumerate()` (extent = len(xs))."""
    e = norm(e)
    if e[0] == 'elem' and e[1][0] == 'agg' and len(e[1][2]) == 2 and norm(e[1][2][0]) == ('k', 0):
        return (e[2], norm(e[1][2][1]), None)
    b = m(('fld', ('elem', ('call~', 'Iterator::enumerate', (('call~', _ITER_CALLS, ('$xs',)),)), '$L'), '0'), e)
    if b is not None:
        return (b['$L'], ('len', b['$xs']), b['$xs'])
    return None


def cell_form(e):
    """e denotes xs[j] for a loop index j: (xs, index expr, loop id, extent).
    Forms: `xs[j]` with j an index_form  |  `x` of `for (j, x) in xs.iter().enumerate()`."""
    e = norm(e)
    if e[0] == 'idx':
        ix = index_form(e[2])
        if ix is not None:
            ext = ix[1]
            return (e[1], e[2], ix[0], ext)
    b = m(('fld', ('elem', ('call~', 'Iterator::enumerate', (('call~', _ITER_CALLS, ('$xs',)),)), '$L'), '1'), e)
    if b is not None:
        j = ('fld', ('elem', norm(e)[1][1], b['$L']), '0')
        return (b['$xs'], j, b['$L'], ('len', b['$xs']))
    return None


def covers_all_columns(extent, xs):
    """The loop extent is the full width of the row xs: the typenum constant C::USIZE, or len(xs) for a whole matrix row
    (rows are fixed-size arrays of exactly C elements)."""
    if is_usize_const(extent, 'C'):
        return True
    if extent[0] == 'len' and norm(extent[1]) == norm(xs):
        x = norm(xs)
        whole_row = m(('fld', ('elem', ('call~', 'Iterator::enumerate', (('call~', 'DenseMatrix::iter', ('_',)),)), '_'), '1'), x) is not None \
            or m(('elem', ('call~', 'DenseMatrix::iter', ('_',)), '_'), x) is not None \
            or m(('call~', ('::index', '::index_mut'), ('_', '_')), x) is not None
        return whole_row
    return False


def loop_counter_of(f, R, e):
    """e is a hand-written iteration counter: a local initialised to 0 outside a loop and incremented by exactly 1 once per iteration
    (`let mut i = 0; for x in it { .. i += 1; }`).  Returns the loop header it counts, else None.  Equivalent to `.enumerate()`'s index
    when the increment is on every path through the body (it post-dominates the loop's entry edge)."""
    e = norm(e)
    if e[0] != 'v':
        return None
    l = e[1]
    ds = f.defs().get(l, [])
    if len(ds) != 2:
        return None
    init = [d for d in ds if not any(d[0] in L['body'] for L in f.loops())]
    incs = [d for d in ds if any(d[0] in L['body'] for L in f.loops())]
    if len(init) != 1 or len(incs) != 1 or init[0][1] == 'term' or incs[0][1] == 'term':
        return None
    iv = norm(R.rvalue(init[0][2]))
    if iv != ('k', 0):
        return None
    uv = norm(R.rvalue(incs[0][2]))
    if m(('bin', 'Add', ('v', l), ('k', 1)), uv) is None:
        # AddWithOverflow goes through a temporary tuple: (i + 1).0
        mm = m(('bin', 'Add', '$a', ('k', 1)), uv)
        if mm is None or mm['$a'] != ('v', l):
            return None
    inner = [L for L in f.loops() if incs[0][0] in L['body']]
    if not inner:
        return None
    L = min(inner, key=lambda L_: len(L_['body']))
    # the increment is executed on every iteration: its block dominates every latch of the loop
    if not all(f.dominates(incs[0][0], lt) for lt in L['latches']):
        return None
    return L['header']


def loop_of_elem(f, elem):
    """Header of the loop driven by the iterator behind an ('elem', src, iter-local) expression (expression recovery names a loop by the
    local that holds its iterator; CFG utilities name it by its header block)."""
    it_local = elem[2]
    for bi, t in f.calls():
        c = f.callee_short(t) or ''
        if c.endswith(('Iterator::next', 'range::next')) and t['args']:
            a = t['args'][0]
            pl = a.get('m') or a.get('c')
            # next(&mut iter): the argument is a temporary reference to the iterator local
            cand = {pl['l']} if pl else set()
            for d in f.defs().get(pl['l'], []) if pl else []:
                if d[1] != 'term' and d[2].get('k') in ('ref', 'rawptr'):
                    cand.add(d[2]['p']['l'])
                    for d2 in f.defs().get(d[2]['p']['l'], []):
                        if d2[1] != 'term' and d2[2].get('k') in ('ref', 'rawptr'):
                            cand.add(d2[2]['p']['l'])
            if it_local in cand:
                inner = [L for L in f.loops() if bi in L['body']]
                if inner:
                    return min(inner, key=lambda L_: len(L_['body']))['header']
    return None


def closures_of(db, f):
    """Closure bodies defined directly inside f (their own closures are reached recursively by the callers that need them)."""
    return [c for c in db.fns.values() if c.kind == 'Closure' and c.raw.get('iparent') == f.path]


def range_of_len(f, e):
    """e is the number of elements of a `Range<usize>` place r: `r.len()` (ExactSizeIterator) or `r.end - r.start`.  Returns r or None.
    (`end - start` equals `len()` wherever start <= end, which the non-emptiness guard the callers also demand implies.)"""
    e = norm(e)
    r = None
    if e[0] == 'call' and e[1].endswith('::len') and len(e[2]) == 1:
        r = norm(e[2][0])
    else:
        b = m(('bin', 'Sub', ('fld', '$r', 'end'), ('fld', '$r2', 'start')), e)
        if b is not None and b['$r'] == b['$r2']:
            r = norm(b['$r'])
    if r is not None and r[0] in ('p', 'v') and 'Range<usize>' in f.local_ty(r[1]):
        return r
    return None


def range_nonempty(rels, r=None):
    """A dominating relation says the Range<usize> place r is not empty: `!r.is_empty()` or `r.start < r.end`."""
    for x in rels:
        if x[0] == 'false' and isinstance(x[1], tuple) and x[1][0] == 'call' and x[1][1].endswith('is_empty') and (r is None or norm(x[1][2][0]) == r):
            return True
        if x[0] in ('lt', 'gt') and len(x) >= 3:
            a_, b_ = (x[1], x[2]) if x[0] == 'lt' else (x[2], x[1])
            ba, bb = m(('fld', '$r', 'start'), norm(a_)), m(('fld', '$r', 'end'), norm(b_))
            if ba is not None and bb is not None and ba['$r'] == bb['$r'] and (r is None or norm(ba['$r']) == r):
                return True
    return False


def is_tail_range(rng, start_pred, coll=None):
    """rng denotes `start..` of a collection: RangeFrom{start}, or Range{start, len(coll)} (the same elements)."""
    rng = norm(rng)
    if not (rng[0] == 'agg' and isinstance(rng[1], tuple) and len(rng[1]) > 1 and isinstance(rng[1][1], str)):
        return False
    nm = rng[1][1].rsplit('::', 1)[-1]
    if nm == 'RangeFrom' and len(rng[2]) == 1:
        return start_pred(rng[2][0])
    if nm == 'Range' and len(rng[2]) == 2 and start_pred(rng[2][0]):
        return is_len_of(rng[2][1], coll) if coll is not None else is_len_of(rng[2][1])
    return False


def forwards(db, ctx, rid, f, callee_suffixes, expect, what):
    """Thin wrapper rule: f makes exactly one call to a callee ending with one of `callee_suffixes`, its arguments are the expected
    expressions (in f's own parameters, after normalisation: refs, `as_ref`, `as_bytes` dropped), the call dominates every exit and its result is
    what f returns.  `expect`: {callee argument index: expression}."""
    from lm.match import norm as _norm
    R = X.Rec(f)
    calls = [(bi, t) for bi, t in f.calls() if (f.callee_short(t) or '').endswith(tuple(callee_suffixes))]
    if len(calls) != 1:
        ctx.fail(rid, f, what, f'reason=unrecognised-shape: {len(calls)} calls to {callee_suffixes}')
        return False
    bi, t = calls[0]
    probs = []

    def strip(e):
        e = _norm(e)
        while e[0] == 'call' and len(e[2]) == 1 and e[1].rsplit('::', 1)[-1] in ('as_ref', 'as_bytes', 'as_slice', 'borrow', 'deref', 'as_str'):
            e = _norm(e[2][0])
        return e
    for ai, want in expect.items():
        got = strip(R.at(bi).operand(t['args'][ai]))
        if got != want:
            probs.append(f'argument {ai} of {(f.callee_short(t) or "").rsplit("::", 1)[-1]} is {X.show(got, 80)}, expected {X.show(want, 40)} (the wrapper must forward it unchanged)')
    if not all(f.dominates(bi, x_) for x_ in f.exits()):
        probs.append('the forwarding call is not made on every path')
    if probs:
        ctx.fail(rid, f, what, '; '.join(probs), span=t['span'])
        return False
    ctx.ok(rid, f, what, ['single forwarding call', 'arguments unchanged'])
    return True
