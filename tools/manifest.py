#!/usr/bin/env python3
"""Generate MANIFEST.json from the table below (single source of truth for claimed checks)."""
import json, os
HERE = os.path.dirname(os.path.dirname(os.path.abspath(__file__)))

CLAIMED = {
    'C05': dict(tech='exhaustive finite-table extraction from MIR decision trees + lane-dependence abstract interpretation of the SIMD encoders + must-pass-through / tail hand-off rules',
                text='Static: the alphabet tables (from_ascii over all 256 bytes, as_ascii, as_index, symbols(), as_str(), default symbol) are '
                     'extracted from the MIR of /repo and compared exhaustively; for the AVX2 and SSE2 encoders every byte lane is shown to hold a iff the input byte equals as_str()[a] '
                     '(index and letter in lock-step over 0..K), unknown/error flags accumulate, the error test dominates Ok with a rescan from the start, the generic tail gets seq[i..]/dst[i..] '
                     'with the same i and its result is propagated; the generic encoder and the dispatcher arms are matched; from_str / EncodedSequence::encode forward their whole input. Acceptance is a finite table and the rest is code shape.',
                ref='DESIGN.md §4 C05'),
    'C10': dict(tech='exhaustive complement table + relational summary / sibling cross-check of the four reverse_complement bodies',
                text='Static: complement table proven an involution with the documented pairs; each reverse_complement body is summarised '
                     'as new[i][σ(s)] = old[rows-1-i][σ(comp(s))] and the four siblings compared; an early result other than that construction is confined to the empty matrix; rescale applies per-column ratios in every row (so it commutes with the column permutation); Python wrapper reaches the core method. '
                     'The algebraic consequences (double application = identity, mirrored scores) follow on paper from these facts.',
                ref='DESIGN.md §4 C10'),
}

CLAIMED['C19'] = dict(tech='compiler-computed layouts for a (T,C) grid + paired-update / who-writes rule + derive table + accessor/iterator delegation matching',
    text='Static: rustc layout_of for the row type of DenseMatrix<T,C> over 8 element types x 12 column counts (align 32, size multiple of align and of size_of(T), '
         'size >= C*size_of(T), array at offset 0); every length change of the row vector is paired with the same row-count update; Clone/PartialEq/Eq are derived; '
         'Index/IndexMut/iterators/ravel/fill/from_rows/reserve matched against their defining relations. Holds for every operation sequence because each mutator preserves the invariant.',
    ref='DESIGN.md §4 C19')

CLAIMED['C09'] = dict(tech='guard-dominance + sibling deviance on divisions by background frequencies, relational matching of reductions and validation exits',
    text='Static (part): every division by a background frequency is dominated by a zero test of the same value (deviance rule over 4 sites); the one- and two-step '
         'log-odds routes share the zero convention; min/max score sum a per-row min/max over all non-wildcard columns with the natural order; validation exits '
         'exist with the right polarity and dominate Ok construction, with the extent of each validation (every row, every cell, every frequency); counting increments (position, symbol); '
         'Background::from_counts writes every symbol index; every conversion that takes a background carries that background in its result; to_freq (and its TRANSFAC sibling) is (count + pseudocount) / row total over every row and column; rescale is cell * old[j] / new[j] with the ratio of the cell\'s own column in every row. The floating-point arithmetic itself is not decided.',
    ref='DESIGN.md §4 C09')

CLAIMED['C02'] = dict(tech='guard dominance / check-before-use on the scanner loop, linear-form position formula, estimate-direction (UP/DOWN) classification of the 8-bit comparisons',
    text='Static (part): in Scanner::next the block maximum is never unwrapped unguarded, a candidate index is bounded by the number of valid positions before it is rescored, '
         'the position formula is col*(rows-wrap)+block start+row, the exact and 8-bit comparisons are inclusive with the 8-bit threshold an under-estimate, the block ranges partition the sequence rows, '
         'hits are pushed once and only popped, every score wrapper resizes the reused buffer on every path, every 8-bit accumulation feeding the pre-filter saturates, '
         'the block maximum that gates a block covers all its rows and columns, Threshold::threshold lists every cell >= the byte threshold, and the look-ahead-row bookkeeping (configure / configure_wrap) holds. These are necessary conditions of the property on every input; numerical equality of scores is reduced to C01.',
    ref='DESIGN.md §4 C02')
CLAIMED['C03'] = dict(tech='estimate-direction (UP/DOWN) dataflow on the pruning bound + guard dominance on every update of the best hit',
    text='Static (part): every value assigned to the pruning bound of Scanner::max is scale(exact score) (an under-estimate), all 8-bit tests are inclusive, candidates are bounded before rescoring, '
         'best is seeded from buffered hits >= threshold and replaced only under an exact comparison on every path into the replacement (first candidate: score >= threshold), '
         'the block maximum covers all rows and columns of the block, Threshold::threshold lists every cell >= the byte threshold, hits are ordered by score then position, and the look-ahead-row bookkeeping holds. With C08 these imply exact maximality (paper argument).',
    ref='DESIGN.md §4 C03')
CLAIMED['C08'] = dict(tech='estimate-direction analysis: rounding-direction and field-plumbing rules on to_discrete/scale, saturation inventory over every Score<u8> implementation, orientation of pruning comparisons',
    text='Static: cells are ceil((x-offset_i)/factor) (UP) and the threshold mapping is floor((s-offset)/factor) (DOWN) over the same stored fields; every 8-bit accumulation reachable from a '
         'Score<u8> implementation is inventoried and must saturate; pruning comparisons are UP >= DOWN; the block maximum that lets the scanner skip a block covers every cell of the block. The inequality follows by monotonicity for all matrices/sequences. '
         'One recorded known finding (generic kernel uses +=).',
    ref='DESIGN.md §4 C08')

CLAIMED['C18'] = dict(tech='check-before-use dataflow on every __getitem__, sibling deviance on negative-index normalisation, linear-form pairing of exported extents and strides, format/itemsize/type table',
    text='Static: for each of the 5 __getitem__ the accessor operand must be the variable that passed 0 <= i < len with len the __len__ quantity and negative indices normalised, with no narrowing integer cast on the way; '
         'each 2-D export pairs extent columns() with stride size_of(T) and extent rows() with stride()*size_of(T); format, itemsize and pointer element type agree for the 5 buffer exports; '
         'null-view and writable-request refusals dominate every write to the view; no undischarged panic site in the binding (empty-matrix exports).',
    ref='DESIGN.md §4 C18')

CLAIMED['C14'] = dict(tech='provenance matching of matrix-fill stores, constant-table extraction, who-may-call on stream primitives, must-pass-through state reset, relational summary of buffer compaction, field-plumbing by variable names',
    text='Static (part): at the 8+ matrix-filling sites the row index is the enumerate counter of the value vector and the column the as_index of the paired symbol; JASPAR row order [A,C,G,T]; duplicate-symbol '
         'rejection; only read_until/read_line reach the stream (so records are a function of the byte stream, whatever the chunking); state reset dominates every returned record; compaction keeps buffer[start..]; '
         'Record/Motif fields and the TRANSFAC tag table are not crossed; one-line parsers cannot cross their line end, blank separator lines are recognised by content, blanks next to a delimiter token are optional and the description of a header is the rest of its line. Acceptance of arbitrary well-formed text by the nom grammar is not decided.',
    ref='DESIGN.md §4 C14')
CLAIMED['C15'] = dict(tech='panic-site inventory over the call graph reachable from the 8 reader entry points with re-verified discharge rules; reachability of Incomplete-producing parsers; table agreement; loop-exit analysis',
    text='Static: every Assert terminator, panicking call (unwrap/expect/panic!/unreachable!/unimplemented!) and may-panic std call (slice/str indexing, split_at, copy_within) in the 119 workspace bodies '
         'reachable from the readers is listed and must be discharged by a proof rule that is re-evaluated on every run (guards, enumerate-of-same, symbol-index, nonempty-by-producer, table agreement, '
         'suffix-length, buffer-offset invariant); undischarged sites are violations. No nom streaming parser reachable; read loops have EOF exits.',
    ref='DESIGN.md §4 C15')

CLAIMED['C16'] = dict(tech='relational effect summaries of include/exclude/_new compared under the `inverse` relation, who-writes-state rule, call-order (dominance) rule, linear-form start ranges, who-may-call on randomness sources',
    text='Static (part): the invariant "state = recomputation from the alignment" has a structural inductive proof that is checked: _new establishes it (include summary on zeroed state per active sequence), '
         'include/exclude are exact inverses on the same cells under complementary guards, nothing else writes the state, next() calls exclude(z) -> prepare_pssm -> update_holdout(z) -> include(z) and yields the '
         'matrices computed without z, start ranges keep windows inside sequences, every random draw uses the caller-supplied RNG (determinism), and the striped layout the sampler reads through (configure_wrap bookkeeping, index and counting formulas) satisfies the C04 rules; count_matrix / active_sequences / active_starts report the maintained state.',
    ref='DESIGN.md §4 C16')

CLAIMED['C17'] = dict(tech='wrapper/core callee agreement over the call graph, finite table of the method-string match, unused-argument dataflow, guard-polarity deviance, dominance (configure before score), panic-site inventory of the binding',
    text='Static (part): the binding adds no arithmetic, so what is checked is plumbing: 18 wrappers reach the core method(s) of the same name for both alphabets (p-value/score via the "meme"/"tfmpvalue" table), '
         'every named argument is read and threshold/block_size reach the scanner, log_odds rescales exactly when the background differs, configure dominates scoring with the same operands, '
         'create/from_counts share the conversion chain, and all 100+ panic sites of the binding\'s own bodies are discharged so argument errors are exceptions; Python file objects are transported byte-exactly (request buf.len(), refuse only longer answers, copy and return the answer length); no user number is narrowed to f32 and widened again, and no body of the binding does floating-point arithmetic. Numerical equality is inherited from C01-C10, C14.',
    ref='DESIGN.md §4 C17')

CLAIMED['C01'] = dict(tech='lane-dependence abstract interpretation of the SIMD kernels (vector = tuple of byte provenance terms, loops summarised on symbolic carried values), linear-form bookkeeping rules, dispatcher arm table',
    text='Static (part): for the 4 SIMD scoring kernels every stored lane is shown to be Σ_j T_j[seq(row+j, c)] for its own column c (identity lane permutation after all shuffles/permutes), accumulators start at the '
         'additive identity, table/sequence/result pointers advance by their own strides, the sequence row is the range element and the result row its position, all columns stored once; the scalar kernel, '
         'the L+1-M bookkeeping of the 5 wrappers, the 6 index<->(row,col) sites, the 18 dispatcher arms and the K<=8 guard are matched; the inputs the kernels read are covered by re-evaluating the striping rules (C04 R4.1-R4.4) and the look-ahead-row rules (R4.5, R4.8). Floating-point rounding and the cfg-excluded NEON arm are not decided.',
    ref='DESIGN.md §4 C01')

CLAIMED['C07'] = dict(tech='lane-dependence abstract interpretation of the max/argmax kernels (reduction identity in the element domain, value/index mask pairing, lane->column map of the spilled indices), guard dominance, relational matching of threshold',
    text='Static (part): every SIMD max/argmax accumulator starts at a lower bound of its element domain; value and index accumulators are blended under one mask comparing the cell of their own column; '
         'element t of the spilled index array is shown to hold the candidate of column t, the column the scalar epilogue attributes to it; all 32 (or C) columns participate; is_empty guards dominate row 0; '
         'the default threshold is inclusive and visits each cell once with no overriding backend; dispatcher arms; Scores::max / argmax in pipeline form; the reverse complement carries the wildcard column (padding cells stay -inf). NaN / rounding not decided.',
    ref='DESIGN.md §4 C07')

CLAIMED['C04'] = dict(tech='lane-dependence abstract interpretation of the AVX2 transpose network, relational summaries of the scalar placement / fill / wrap-row construction, who-writes-field rule, ceil-div formula agreement',
    text='Static (part): the 5-stage unpack network plus 32 stores of stripe_avx2 is shown to be the byte transposition out[i+k][c] = seq[c*s+i+k] (1024 lane obligations), block bookkeeping in lock-step, scalar tail and fill '
         'placement, the generic i -> (i mod R, i div R) placement with R = ceil(len/C) at every site, the wrap-row relation of configure_wrap (idempotent, R taken before the resize), buffer reuse through '
         'StripedSequence::new (wrap = 0) with wrap/length written nowhere else, dispatcher arms and index formulas. Striping moves bytes, so nothing data-dependent remains; NEON not analysable here.',
    ref='DESIGN.md §4 C04')

CLAIMED['C06'] = dict(tech='pointer provenance / alignment classification and linear bounds entailment (Fourier-Motzkin) on the memory-access log of the lane engine, guard dominance on kernel call sites, who-may-call inventory of unsafe code',
    text='Static (part): every unsafe fn and unsafe call of the core crate is inventoried and claimed by a rule; each scoring kernel has one caller whose call is dominated by the wrap check, the resize and the early '
         'return; all 60+ aligned loads/stores/streams are on row-derived pointers at offsets and steps that are multiples of the access width (Row layout from rustc); every vector access through a slice pointer '
         '(encoders, AVX2 striping: 36 accesses) is proved in bounds from the loop guard by linear entailment; row-pointer accesses stay inside their row; the 13 vector accesses to local scratch buffers stay inside them; uninitialised storage escapes only when fully written; the one library caller that passes row blocks, the scanner, ends every block within the sequence rows. '
         'Documented gap: caller-supplied row ranges outside the sequence rows (out of contract); std/generic-array/intrinsics trusted.',
    ref='DESIGN.md §4 C06')

NA = {
    'C11': 'numeric agreement of a tabulated distribution with the exact tail probability: quantifies over run-time floating-point values; no sound static argument in reach (DESIGN.md §6)',
    'C12': 'bounds computed probability ranges by exact tail probabilities at a granularity: run-time numerics, no structural necessary condition (DESIGN.md §6)',
    'C13': 'iterative threshold refinement over run-time values compared with exact probabilities: not decidable from code shape (DESIGN.md §6)',
}


def main():
    props = [json.loads(l) for l in open(os.path.join(HERE, 'properties.jsonl'))]
    checks = []
    na = []
    for p in props:
        pid = p['id']
        if pid in CLAIMED:
            c = CLAIMED[pid]
            import importlib, sys
            sys.path.insert(0, HERE)
            note = getattr(importlib.import_module(f'rules.{pid}'), 'LEVEL_NOTE', '')
            checks.append({
                'property_id': pid,
                'quick_cmd': f'./check {pid} --tier quick',
                'thorough_cmd': f'./check {pid} --tier thorough',
                'evidence_file': f'/verif/evidence/{pid}.json',
                'replay_cmd_template': f'./check {pid} --replay {{path}}',
                'engine': 'lmfacts+rules',
                'level_claimed': {'category': 'other', 'text': c['text'], 'design_ref': c['ref']},
                'level_note': note,
                'technique': 'static analysis: ' + c['tech'],
            })
        elif pid in NA:
            na.append({'property_id': pid, 'reason': NA[pid]})
        else:
            na.append({'property_id': pid, 'reason': 'check under construction (DESIGN.md §8 build order); not claimed yet'})
    m = {
        'version': 1,
        'setup_cmd': './setup.sh',
        'hooks': {
            'guard': 'lightmotif_verif',
            'enable': 'none needed: the static analysis reads every dispatcher arm as a call site, nothing is executed',
            'baseline_off_cmd': 'cd /repo && cargo test --workspace --no-fail-fast --offline',
            'source_commits': [],
            'add_only': True,
        },
        'engines': [
            {'name': 'lmfacts', 'path': 'driver/', 'serves_properties': sorted(CLAIMED), 'kind_free_text': 'rustc_private driver dumping typed MIR, resolved callees, ADT/impl tables, layouts (E1)'},
            {'name': 'rules', 'path': 'rules/', 'serves_properties': sorted(CLAIMED), 'kind_free_text': 'python rule engines over the fact base: tables (E4), expression recovery and sibling cross-check (E5), dominance (E3), call graph (E2), panic inventory (E7), units (E6), lanes (E8), pointers (E9), layouts (E10)'},
        ],
        'checks': checks,
        'not_applicable': na,
        'notes': 'Technique family: static analysis. See DESIGN.md. known_findings.json lists recorded findings and fixed defects.',
    }
    json.dump(m, open(os.path.join(HERE, 'MANIFEST.json'), 'w'), indent=1)
    print(f'{len(checks)} checks, {len(na)} not_applicable')


main()
