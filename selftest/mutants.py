"""Single-edit mutants (must fire, naming the rule) and benign edits (must stay silent)."""
ABC = 'lightmotif/src/abc.rs'
PWM = 'lightmotif/src/pwm/mod.rs'

DENSE = 'lightmotif/src/dense.rs'

SCAN = 'lightmotif/src/scan.rs'

AVX2 = 'lightmotif/src/pli/platform/avx2.rs'

PYLIB = 'lightmotif-py/lightmotif/lib.rs'

IO = 'lightmotif-io/src/'

PYIO = 'lightmotif-py/lightmotif/io.rs'

SAMP = 'lightmotif/src/sampler.rs'

SSE2F = 'lightmotif/src/pli/platform/sse2.rs'
PLI = 'lightmotif/src/pli/mod.rs'
DISP = 'lightmotif/src/pli/dispatch.rs'
SCORES = 'lightmotif/src/scores.rs'
SEQ = 'lightmotif/src/seq.rs'

MUTANTS = [
    # ---- C05
    dict(id='c05-accept-lowercase', prop='C05', rule='R5.1', file=ABC, old="b'N' => Ok(Nucleotide::N),", new="b'N' | b'n' => Ok(Nucleotide::N),"),
    dict(id='c05-U-as-T', prop='C05', rule='R5.1', file=ABC, old="b'T' => Ok(Nucleotide::T),", new="b'T' | b'U' => Ok(Nucleotide::T),"),
    dict(id='c05-symbols-order', prop='C05', rule='R5.1', file=ABC,
         old="            Nucleotide::T,\n            Nucleotide::G,\n            Nucleotide::N,", new="            Nucleotide::G,\n            Nucleotide::T,\n            Nucleotide::N,"),
    dict(id='c05-as-str-order', prop='C05', rule='R5.1', file=ABC, old='"ACTGN"', new='"ACGTN"'),
    dict(id='c05-protein-swap', prop='C05', rule='R5.1', file=ABC, old="b'V' => Ok(AminoAcid::V),", new="b'V' => Ok(AminoAcid::W),"),
    dict(id='c05-err-wrong-char', prop='C05', rule='R5.1', file=ABC, old="_ => Err(InvalidSymbol(c as char)),", new="_ => Err(InvalidSymbol('?')),", occ=0),
    dict(id='c05-enc-index-offbyone', prop='C05', rule='R5.2', file=AVX2, old="let index = _mm256_set1_epi8(a as i8);", new="let index = _mm256_set1_epi8((a + 1) as i8);"),
    dict(id='c05-enc-unknown-not-cleared', prop='C05', rule='R5.2', file=SSE2F, old="unknown = _mm_andnot_si128(m, unknown);", new="unknown = _mm_and_si128(m, unknown);"),
    dict(id='c05-enc-error-overwritten', prop='C05', rule='R5.2', file=AVX2, old="error = _mm256_or_si256(error, unknown);", new="error = unknown;"),
    dict(id='c05-enc-tail-ignored', prop='C05', rule='R5.4', file=AVX2, old="            g.encode_into(&seq[i..], &mut dst[i..])?;", new="            let _ = g.encode_into(&seq[i..], &mut dst[i..]);"),
    dict(id='c05-enc-tail-offset', prop='C05', rule='R5.4', file=SSE2F, old="            g.encode_into(&seq[i..], &mut dst[i..])?;", new="            g.encode_into(&seq[i..], &mut dst[i + 1..])?;"),
    dict(id='c05-enc-rescan-from-i', prop='C05', rule='R5.3', file=AVX2, old="            for s in seq.iter() {\n                A::Symbol::from_ascii(*s)?;", new="            for s in seq[i.saturating_sub(32)..].iter().rev() {\n                A::Symbol::from_ascii(*s)?;"),
    dict(id='c05-generic-wrong-slot', prop='C05', rule='R5.5', file=PLI, old="            dst[i] = A::Symbol::from_ascii(*c)?;", new="            dst[dst.len() - 1 - i] = A::Symbol::from_ascii(*c)?;"),
    # ---- C10
    dict(id='c10-complement-GT', prop='C10', rule='R10.1', file=ABC, old="Nucleotide::G => Nucleotide::C,", new="Nucleotide::G => Nucleotide::T,"),
    dict(id='c10-drop-rev', prop='C10', rule='R10.2', file=PWM, old="for (i, row) in self.data.iter().rev().enumerate() {", new="for (i, row) in self.data.iter().enumerate() {", occ=2),
    dict(id='c10-complement-both', prop='C10', rule='R10.2', file=PWM, old="data[i][s.as_index()] = row[A::complement(s).as_index()];", new="data[i][A::complement(s).as_index()] = row[A::complement(s).as_index()];", occ=1),
    dict(id='c10-complement-none', prop='C10', rule='R10.2', file=PWM, old="data[i][s.as_index()] = row[A::complement(s).as_index()];", new="data[i][s.as_index()] = row[s.as_index()];", occ=3),
    dict(id='c10-rev-outside-enumerate', prop='C10', rule='R10.2', file=PWM, old="for (i, row) in self.data.iter().rev().enumerate() {", new="for (i, row) in self.data.iter().enumerate().rev() {", occ=0),
    # ---- C01
    dict(id='c01-shuffle-mask', prop='C01', rule='R1.1', file=AVX2, old="        0xFFFFFF07, 0xFFFFFF06, 0xFFFFFF05, 0xFFFFFF04,\n        0xFFFFFF07, 0xFFFFFF06, 0xFFFFFF05, 0xFFFFFF04,\n    );", new="        0xFFFFFF07, 0xFFFFFF06, 0xFFFFFF05, 0xFFFFFF04,\n        0xFFFFFF07, 0xFFFFFF05, 0xFFFFFF06, 0xFFFFFF04,\n    );", occ=1),
    dict(id='c01-permute-imm', prop='C01', rule='R1.1', file=AVX2, old="let r2 = _mm256_permute2f128_ps(s3, s4, 0x20);", new="let r2 = _mm256_permute2f128_ps(s3, s4, 0x31);", occ=1),
    dict(id='c01-store-offsets', prop='C01', rule='R1.1', file=AVX2, old="        _mm256_stream_ps(rowptr.add(0x08), r2);\n        _mm256_stream_ps(rowptr.add(0x10), r3);", new="        _mm256_stream_ps(rowptr.add(0x10), r2);\n        _mm256_stream_ps(rowptr.add(0x08), r3);", occ=0),
    dict(id='c01-pssmptr-stride', prop='C01', rule='R1.1', file=AVX2, old="pssmptr = pssmptr.add(pssm.stride());", new="pssmptr = pssmptr.add(8);", occ=1),
    dict(id='c01-acc-reset-in-loop', prop='C01', rule='R1.1', file=AVX2, old="            let y = _mm256_shuffle_epi8(t, x);\n            // add scores to the running sum\n            s = _mm256_adds_epu8(s, y);", new="            let y = _mm256_shuffle_epi8(t, x);\n            // add scores to the running sum\n            s = _mm256_adds_epu8(_mm256_setzero_si256(), y);"),
    dict(id='c01-gather-scale', prop='C01', rule='R1.1', file=AVX2, old="let b3 = _mm256_i32gather_ps(pssmptr, x3, std::mem::size_of::<f32>() as i32);", new="let b3 = _mm256_i32gather_ps(pssmptr, x3, 8);"),
    dict(id='c01-seq-row-position', prop='C01', rule='R1.1', file=AVX2, old="    for i in rows {\n        // reset sums for current position\n        let mut s = _mm256_setzero_si256();\n        // reset pointers to row\n        let mut seqptr = seq.matrix()[i].as_ptr();", new="    for (i, _r) in rows.enumerate() {\n        // reset sums for current position\n        let mut s = _mm256_setzero_si256();\n        // reset pointers to row\n        let mut seqptr = seq.matrix()[i].as_ptr();"),
    dict(id='c01-sse2-unpack-swap', prop='C01', rule='R1.1', file=SSE2F, old="                let x2 = _mm_unpackhi_epi8(lo, zero);\n                let x3 = _mm_unpacklo_epi8(hi, zero);", new="                let x2 = _mm_unpacklo_epi8(hi, zero);\n                let x3 = _mm_unpackhi_epi8(lo, zero);"),
    dict(id='c01-sse2-lut-index', prop='C01', rule='R1.1', file=SSE2F, old="let lut = _mm_load1_ps(pssmptr.add(k));", new="let lut = _mm_load1_ps(pssmptr.add((k + 1) % A::K::USIZE));"),
    dict(id='c01-sse2-acc-init', prop='C01', rule='R1.1', file=SSE2F, old="            let mut s3 = _mm_setzero_ps();\n            let mut s4 = _mm_setzero_ps();\n            // reset position", new="            let mut s3 = _mm_set1_ps(1.0);\n            let mut s4 = _mm_setzero_ps();\n            // reset position"),
    dict(id='c01-generic-col', prop='C01', rule='R1.1', file=PLI, old="let symbol = seq.matrix()[seq_row + j][col];", new="let symbol = seq.matrix()[seq_row + j][(col + 1) % C::USIZE];"),
    dict(id='c01-k-guard', prop='C01', rule='R1.2', file=AVX2, old="        if A::K::USIZE <= 8 {\n            Self::score_f32_rows_into_permute", new="        if A::K::USIZE <= 32 {\n            Self::score_f32_rows_into_permute"),
    dict(id='c01-resize-offbyone', prop='C01', rule='R1.3', file=AVX2, old="scores.resize(rows.len(), (seq.len() + 1).saturating_sub(pssm.rows()));", new="scores.resize(rows.len(), seq.len().saturating_sub(pssm.rows()));", occ=1),
    dict(id='c01-resize-rows-end', prop='C01', rule='R1.3', file=SSE2F, old="scores.resize(rows.len(), (seq.len() + 1).saturating_sub(pssm.rows()));", new="scores.resize(rows.end, (seq.len() + 1).saturating_sub(pssm.rows()));"),
    dict(id='c01-scores-index-swap', prop='C01', rule='R1.4', file=SCORES, old="        let col = index / self.data.rows();\n        let row = index % self.data.rows();\n        &self.data[row][col]\n    }\n}\n\nimpl<T: MatrixElement, C: PositiveLength> From<StripedScores", new="        let col = index % self.data.rows();\n        let row = index / self.data.rows();\n        &self.data[row][col]\n    }\n}\n\nimpl<T: MatrixElement, C: PositiveLength> From<StripedScores"),
    dict(id='c01-seq-index-with-wrap', prop='C01', rule='R1.4', file=SEQ, old="        let rows = self.data.rows() - self.wrap;\n        let col = index / rows;", new="        let rows = self.data.rows();\n        let col = index / rows;"),
    dict(id='c01-dispatch-arm', prop='C01', rule='R1.5', file=DISP, old="Dispatch::Avx2 => Avx2::argmax_f32(scores),", new="Dispatch::Avx2 => Sse2::argmax(scores),"),
    dict(id='c01-dispatch-op', prop='C01', rule='R1.5', file=DISP, old="Dispatch::Avx2 => Avx2::max_u8(scores),", new="Dispatch::Avx2 => Avx2::argmax_u8(scores).map(|c| scores.matrix()[c] / 2),"),
    dict(id='c01-score-position-offset', prop='C01', rule='R1.6', file=PWM, old="            score += row[s[pos + j].as_index()]\n        }\n        score\n    }\n\n    /// Get a discrete matrix", new="            score += row[s[pos + j + 1].as_index()]\n        }\n        score\n    }\n\n    /// Get a discrete matrix"),
    # ---- C04
    dict(id='c04-unpack-width', prop='C04', rule='R4.1', file=AVX2, old="        unpack!(epi16, r05, r07);", new="        unpack!(epi32, r05, r07);"),
    dict(id='c04-unpack-pairing', prop='C04', rule='R4.1', file=AVX2, old="        unpack!(epi64, r06, r14);\n        unpack!(epi64, r01, r09);", new="        unpack!(epi64, r06, r09);\n        unpack!(epi64, r01, r14);"),
    dict(id='c04-store-swapped', prop='C04', rule='R4.1', file=AVX2, old="        _mm256_stream_si256(out.add(0x01 * out_stride) as _, r08);\n        _mm256_stream_si256(out.add(0x02 * out_stride) as _, r04);", new="        _mm256_stream_si256(out.add(0x01 * out_stride) as _, r04);\n        _mm256_stream_si256(out.add(0x02 * out_stride) as _, r08);"),
    dict(id='c04-src-advance', prop='C04', rule='R4.2', file=AVX2, old="        src = src.add(0x20);", new="        src = src.add(0x10);"),
    dict(id='c04-tail-transposed', prop='C04', rule='R4.3', file=AVX2, old="                matrix[i][j] = s[j * src_stride + i];", new="                matrix[i][j] = s[i * 32 + j];"),
    dict(id='c04-fill-formula', prop='C04', rule='R4.3', file=AVX2, old="matrix[k % src_stride][k / src_stride] = A::Symbol::default();", new="matrix[k / 32][k % 32] = A::Symbol::default();"),
    dict(id='c04-generic-swap', prop='C04', rule='R4.4', file=PLI, old="            data[i % rows][i / rows] = x;", new="            data[i / C::USIZE][i % C::USIZE] = x;"),
    dict(id='c04-generic-rows-floor', prop='C04', rule='R4.4', file=PLI, old="let rows = (length + (C::USIZE - 1)) / C::USIZE;\n        let capacity = rows + crate::seq::DEFAULT_EXTRA_ROWS;\n\n        // get the data", new="let rows = (length + C::USIZE) / C::USIZE;\n        let capacity = rows + crate::seq::DEFAULT_EXTRA_ROWS;\n\n        // get the data"),
    dict(id='c04-wrap-resize-second-call', prop='C04', rule='R4.5', file=SEQ, old="self.data.resize(self.data.rows() + m - self.wrap);", new="self.data.resize(self.data.rows() + m);"),
    dict(id='c04-wrap-rows-after-resize', prop='C04', rule='R4.5', file=SEQ, old="            let rows = self.data.rows() - self.wrap;\n            self.data.resize(self.data.rows() + m - self.wrap);", new="            self.data.resize(self.data.rows() + m - self.wrap);\n            let rows = self.data.rows() - self.wrap;"),
    dict(id='c04-wrap-no-shift', prop='C04', rule='R4.5', file=SEQ, old="self.data[rows + i][j] = self.data[i][j + 1];", new="self.data[rows + i][j] = self.data[i][j];"),
    dict(id='c04-wrap-not-recorded', prop='C04', rule='R4.5', file=SEQ, old="            self.wrap = m;\n", new="            self.wrap = m.max(1);\n"),
    dict(id='c04-reuse-keeps-wrap', prop='C04', rule='R4.6', file=SEQ, old="                length,\n                wrap: 0,\n", new="                wrap: length % 1 + 1,\n                length,"),
    dict(id='c04-count-with-wrap', prop='C04', rule='R4.7', file=SEQ, old="        let rows = self.data.rows() - self.wrap;\n        let l = self.len();\n\n        for i in 0..rows {\n            let row = &self.data[i];\n            for j in 0..self.data.columns() {\n                let index = j * rows + i;\n                if index < l {\n                    counts", new="        let rows = self.data.rows();\n        let l = self.len();\n\n        for i in 0..rows {\n            let row = &self.data[i];\n            for j in 0..self.data.columns() {\n                let index = j * rows + i;\n                if index < l {\n                    counts"),
    # ---- C06
    dict(id='c06-stripe-overread', prop='C06', rule='R6.5', file=AVX2, old="    while i + <Avx2 as Backend>::Lanes::USIZE <= src_stride\n        && 0x1f * src_stride + i + <Avx2 as Backend>::Lanes::USIZE <= length\n    {", new="    while i + <Avx2 as Backend>::Lanes::USIZE <= src_stride {"),
    dict(id='c06-stripe-guard-weaker', prop='C06', rule='R6.5', file=AVX2, old="&& 0x1f * src_stride + i + <Avx2 as Backend>::Lanes::USIZE <= length", new="&& 0x1e * src_stride + i + <Avx2 as Backend>::Lanes::USIZE <= length"),
    dict(id='c06-encode-guard', prop='C06', rule='R6.5', file=AVX2, old="        while i + STRIDE <= l {", new="        while i <= l {"),
    dict(id='c06-encode-sse2-guard', prop='C06', rule='R6.5', file=SSE2F, old="        while i + STRIDE < l {", new="        while i + 8 < l {"),
    dict(id='c06-encode-assert-removed', prop='C06', rule='R6.5', file=AVX2, old="    let l = seq.len();\n    assert_eq!(seq.len(), dst.len());\n\n    unsafe {\n        // Use raw pointers since we cannot be sure `seq` and `dst` are aligned.\n        let mut i = 0;\n        let mut src_ptr = seq.as_ptr();\n        let mut dst_ptr = dst.as_mut_ptr();\n\n        // Store a flag to know if invalid letters have been encountered.\n        let mut error = _mm256_setzero_si256();", new="    let l = seq.len();\n\n    unsafe {\n        // Use raw pointers since we cannot be sure `seq` and `dst` are aligned.\n        let mut i = 0;\n        let mut src_ptr = seq.as_ptr();\n        let mut dst_ptr = dst.as_mut_ptr();\n\n        // Store a flag to know if invalid letters have been encountered.\n        let mut error = _mm256_setzero_si256();"),
    dict(id='c06-loadu-to-load', prop='C06', rule='R6.4', file=AVX2, old="let letters = _mm256_loadu_si256(src_ptr as *const __m256i);", new="let letters = _mm256_load_si256(src_ptr as *const __m256i);"),
    dict(id='c06-row-offset-misaligned', prop='C06', rule='R6.4', file=AVX2, old="        _mm256_stream_ps(rowptr.add(0x08), r2);", new="        _mm256_stream_ps(rowptr.add(0x04), r2);", occ=0),
    dict(id='c06-spill-aligned-store', prop='C06', rule='R6.4', file=AVX2, old="_mm256_storeu_ps(x.as_mut_ptr() as *mut _, m);", new="_mm256_store_ps(x.as_mut_ptr() as *mut _, m);"),
    dict(id='c06-wrap-check-removed', prop='C06', rule='R6.2', file=AVX2, old="        if seq.wrap() < pssm.rows() - 1 {\n            panic!(\n                \"not enough wrapping rows for motif of length {}\",\n                pssm.rows()\n            );\n        }\n\n        if seq.len() < pssm.rows() || rows.is_empty() {\n            scores.resize(0, 0);\n            return;\n        }\n\n        scores.resize(rows.len(), (seq.len() + 1).saturating_sub(pssm.rows()));\n        #[cfg(any(target_arch = \"x86\", target_arch = \"x86_64\"))]\n        unsafe {\n            score_u8_avx2_shuffle", new="        if seq.len() < pssm.rows() || rows.is_empty() {\n            scores.resize(0, 0);\n            return;\n        }\n\n        scores.resize(rows.len(), (seq.len() + 1).saturating_sub(pssm.rows()));\n        #[cfg(any(target_arch = \"x86\", target_arch = \"x86_64\"))]\n        unsafe {\n            score_u8_avx2_shuffle"),
    dict(id='c06-wrap-check-weaker', prop='C06', rule='R6.2', file=SSE2F, old="        if seq.wrap() < pssm.rows() - 1 {", new="        if seq.wrap() + 2 < pssm.rows() {"),
    dict(id='c06-second-caller', prop='C06', rule='R6.2', file=AVX2, old="    #[allow(unused)]\n    pub fn argmax_f32(", new="    #[allow(unused)]\n    pub fn score_u8_fast<A: Alphabet>(pssm: &DenseMatrix<u8, A::K>, seq: &StripedSequence<A, <Avx2 as Backend>::Lanes>, rows: Range<usize>, scores: &mut StripedScores<u8, <Avx2 as Backend>::Lanes>) {\n        scores.resize(rows.len(), seq.len());\n        unsafe { score_u8_avx2_shuffle(pssm, seq, rows, scores) }\n    }\n\n    #[allow(unused)]\n    pub fn argmax_f32("),
    dict(id='c06-resize-missing', prop='C06', rule='R6.2', file=AVX2, old="        scores.resize(rows.len(), (seq.len() + 1).saturating_sub(pssm.rows()));\n        #[cfg(any(target_arch = \"x86\", target_arch = \"x86_64\"))]\n        unsafe {\n            score_f32_avx2_gather", new="        scores.resize(rows.len().min(1), (seq.len() + 1).saturating_sub(pssm.rows()));\n        #[cfg(any(target_arch = \"x86\", target_arch = \"x86_64\"))]\n        unsafe {\n            score_f32_avx2_gather"),
    dict(id='c06-row-overrun', prop='C06', rule='R6.3', file=AVX2, old="                let r4 = _mm256_load_ps(dataptr.add(0x18) as *const _);", new="                let r4 = _mm256_load_ps(dataptr.add(0x20) as *const _);"),
    dict(id='c06-uninit-new-caller', prop='C06', rule='R6.1', file=DENSE, old="    pub fn with_capacity(rows: usize, capacity: usize) -> Self {\n        let data = Vec::with_capacity(capacity);\n        let mut matrix = Self { data, rows: 0 };\n        matrix.resize(rows);\n        matrix", new="    pub fn with_capacity(rows: usize, capacity: usize) -> Self {\n        let mut matrix = unsafe { Self::uninitialized(rows) };\n        matrix.data.reserve(capacity.saturating_sub(rows));\n        matrix"),
    dict(id='c06-encode-raw-returns-on-err', prop='C06', rule='R6.6', file=PLI, old="            Ok(_) => Ok(buffer),\n            Err(e) => Err(e),", new="            Ok(_) => Ok(buffer),\n            Err(e) if s.is_empty() => Err(e),\n            Err(_) => Ok(buffer),"),
    # ---- C07
    dict(id='c07-max-zero-init', prop='C07', rule='R7.1', file=AVX2, old="let mut m3 = _mm256_set1_ps(f32::NEG_INFINITY);", new="let mut m3 = _mm256_setzero_ps();"),
    dict(id='c07-max-epi8', prop='C07', rule='R7.1', file=AVX2, old="m = _mm256_max_epu8(m, r);", new="m = _mm256_max_epi8(m, r);"),
    dict(id='c07-argmax-u8-order', prop='C07', rule='R7.2', file=AVX2, old="_mm256_permute2x128_si256(p1, p2, 0x31),", new="_mm256_permute2x128_si256(p1, p2, 0x13),"),
    dict(id='c07-argmax-blend-other-mask', prop='C07', rule='R7.2', file=AVX2, old="p2 = _mm256_blendv_epi8(p2, index, _mm256_castps_si256(c2));", new="p2 = _mm256_blendv_epi8(p2, index, _mm256_castps_si256(c1));"),
    dict(id='c07-argmax-f32-store-swap', prop='C07', rule='R7.2', file=AVX2, old="            _mm256_storeu_si256(x[0x08..].as_mut_ptr() as *mut _, p2);\n            _mm256_storeu_si256(x[0x10..].as_mut_ptr() as *mut _, p3);", new="            _mm256_storeu_si256(x[0x10..].as_mut_ptr() as *mut _, p2);\n            _mm256_storeu_si256(x[0x08..].as_mut_ptr() as *mut _, p3);"),
    dict(id='c07-argmax-load-offset', prop='C07', rule='R7.2', file=AVX2, old="                let r3 = _mm256_load_ps(dataptr.add(0x10));\n                let r4 = _mm256_load_ps(dataptr.add(0x18));\n                // compare scores", new="                let r3 = _mm256_load_ps(dataptr.add(0x18));\n                let r4 = _mm256_load_ps(dataptr.add(0x10));\n                // compare scores"),
    dict(id='c07-sse2-init-zero', prop='C07', rule='R7.1', file=SSE2F, old="let mut best_score = -f32::INFINITY;", new="let mut best_score = 0.0;"),
    dict(id='c07-sse2-store-order', prop='C07', rule='R7.2', file=SSE2F, old="                _mm_storeu_si128(outptr.add(0x04) as *mut _, _mm_castps_si128(p2));\n                _mm_storeu_si128(outptr.add(0x08) as *mut _, _mm_castps_si128(p3));", new="                _mm_storeu_si128(outptr.add(0x08) as *mut _, _mm_castps_si128(p2));\n                _mm_storeu_si128(outptr.add(0x04) as *mut _, _mm_castps_si128(p3));"),
    dict(id='c07-empty-guard-removed', prop='C07', rule='R7.3', file=AVX2, old="unsafe fn max_u8_avx2(scores: &StripedScores<u8, <Avx2 as Backend>::Lanes>) -> Option<u8> {\n    if scores.is_empty() {", new="unsafe fn max_u8_avx2(scores: &StripedScores<u8, <Avx2 as Backend>::Lanes>) -> Option<u8> {\n    if scores.max_index() == usize::MAX {"),
    dict(id='c07-threshold-strict', prop='C07', rule='R7.5', file=PLI, old="if row[col] >= threshold {", new="if row[col] > threshold {"),
    dict(id='c07-generic-argmax-col', prop='C07', rule='R7.4', file=PLI, old="                    best_row = i;\n                    best_col = j;", new="                    best_row = i;\n                    best_col = C::USIZE - 1 - j;"),
    dict(id='c07-dispatch-max-arm', prop='C07', rule='R7.7', file=DISP, old="Dispatch::Avx2 => Avx2::max_f32(scores),", new="Dispatch::Avx2 => Avx2::argmax_f32(scores).map(|c| c.row as f32),"),
    # ---- C02 / C03
    dict(id='c02-unwrap-back', prop='C02', rule='R2.1', file=SCAN, old="if self.pipeline.max(&self.dscores).map_or(false, |m| m >= t) {", new="if self.pipeline.max(&self.dscores).unwrap() >= t {"),
    dict(id='c02-bound-removed', prop='C02', rule='R2.2', file=SCAN, old="if index < self.dscores.max_index() {", new="if index <= self.dscores.max_index() {"),
    dict(id='c02-bound-wrong-var', prop='C02', rule='R2.2', file=SCAN, old="if index < self.dscores.max_index() {", new="if c.row < self.dscores.max_index() {"),
    dict(id='c02-drop-block-offset', prop='C02', rule='R2.3', file=SCAN, old="let index = c.col * (seq.matrix().rows() - seq.wrap()) + self.row + c.row;", new="let index = c.col * (seq.matrix().rows() - seq.wrap()) + c.row;"),
    dict(id='c02-rows-with-wrap', prop='C02', rule='R2.3', file=SCAN, old="let index = c.col * (seq.matrix().rows() - seq.wrap()) + self.row + c.row;", new="let index = c.col * seq.matrix().rows() + self.row + c.row;"),
    dict(id='c02-strict-exact', prop='C02', rule='R2.4', file=SCAN, old="                        if score >= self.threshold {\n                            self.hits.push", new="                        if score > self.threshold {\n                            self.hits.push"),
    dict(id='c02-strict-prefilter', prop='C02', rule='R2.4', file=SCAN, old="map_or(false, |m| m >= t)", new="map_or(false, |m| m > t)"),
    dict(id='c02-threshold-rounded-up', prop='C02', rule='R2.4', file=SCAN, old="let t = self.dm.scale(self.threshold);", new="let t = self.dm.scale(self.threshold).saturating_add(1);"),
    dict(id='c02-block-end-unclipped', prop='C02', rule='R2.5', file=SCAN, old="(self.row + self.block_size).min(seq.matrix().rows().saturating_sub(seq.wrap()));", new="(self.row + self.block_size).min(seq.matrix().rows());"),
    dict(id='c02-advance-twice', prop='C02', rule='R2.5', file=SCAN, old="            // Proceed to the next block.\n            self.row += self.block_size;\n        }\n        self.hits.pop()", new="            // Proceed to the next block.\n            self.row += self.block_size + 1;\n        }\n        self.hits.pop()"),
    dict(id='c02-map-or-true', prop='C02', rule='R2.1', file=SCAN, old="map_or(false, |m| m >= t)", new="map_or(true, |m| m >= t)"),
    dict(id='c02-matches-strict', prop='C02', rule='R2.4', file=SCAN, old="if self.pipeline.max(&self.dscores).map_or(false, |m| m >= t) {", new="if matches!(self.pipeline.max(&self.dscores), Some(m) if m > t) {"),
    dict(id='c03-best-discrete-up', prop='C03', rule='R3.1', file=SCAN, old="best_discrete = self.dm.scale(score);", new="best_discrete = dscore;"),
    dict(id='c03-first-candidate', prop='C03', rule='R3.4', file=SCAN, old="} else if score >= self.threshold {", new="} else {"),
    dict(id='c03-replace-on-lower', prop='C03', rule='R3.4', file=SCAN, old="if (score > hit.score) | (score == hit.score && index > hit.position) {", new="if (score < hit.score) | (score == hit.score && index > hit.position) {"),
    dict(id='c03-seed-unfiltered', prop='C03', rule='R3.3', file=SCAN, old="            .filter(|hit| hit.score >= self.threshold)\n", new=""),
    dict(id='c03-bound-removed', prop='C03', rule='R3.2', file=SCAN, old="if dscore >= best_discrete && index < self.dscores.max_index() {", new="if dscore >= best_discrete {"),
    dict(id='c03-strict-dscore', prop='C03', rule='R3.1', file=SCAN, old="if dscore >= best_discrete && index", new="if dscore > best_discrete && index"),
    dict(id='c03-scale-other-matrix', prop='C03', rule='R3.1', file=SCAN, old="            None => self.dm.scale(self.threshold),", new="            None => self.dm.scale(self.threshold + 1.0),"),
    # ---- C08
    dict(id='c08-ceil-to-round', prop='C08', rule='R8.1', file=PWM, old="((pssm[i][j] - offsets[i]) / factor).ceil() as u8", new="((pssm[i][j] - offsets[i]) / factor).round() as u8"),
    dict(id='c08-ceil-to-floor', prop='C08', rule='R8.1', file=PWM, old="((pssm[i][j] - offsets[i]) / factor).ceil() as u8", new="((pssm[i][j] - offsets[i]) / factor).floor() as u8"),
    dict(id='c08-scale-ceil', prop='C08', rule='R8.2', file=PWM, old="((score - self.offset) / self.factor).floor() as u8", new="((score - self.offset) / self.factor).ceil() as u8"),
    dict(id='c08-offset-field', prop='C08', rule='R8.1', file=PWM, old="            offsets,\n            offset,\n        }", new="            offsets,\n            offset: max_score,\n        }"),
    dict(id='c08-factor-field', prop='C08', rule='R8.1', file=PWM, old="            data,\n            factor,\n            offsets,", new="            data,\n            factor: factor * 0.5,\n            offsets,"),
    dict(id='c08-adds-to-add', prop='C08', rule='R8.3', file=AVX2, old="s = _mm256_adds_epu8(s, y);", new="s = _mm256_add_epi8(s, y);"),
    dict(id='c08-score-position-wraps', prop='C08', rule='R8.3', file=PWM, old="score = score.saturating_add(row[s[pos + j].as_index()]);", new="score = score.wrapping_add(row[s[pos + j].as_index()]);"),
    dict(id='c08-wrong-row-offset', prop='C08', rule='R8.1', file=PWM, old="((pssm[i][j] - offsets[i]) / factor).ceil() as u8", new="((pssm[i][j] - offsets[0]) / factor).ceil() as u8"),
    dict(id='c08-prefilter-up-threshold', prop='C08', rule='R8.4', file=SCAN, old="best_discrete = self.dm.scale(score);", new="best_discrete = dscore;"),
    # ---- C14
    dict(id='c14-transposed-fill', prop='C14', rule='R14.1', file=IO+'jaspar16/parse.rs', old="            matrix[i][s.as_index()] = x\n", new="            matrix[s.as_index() % 1 + i][(i + s.as_index()) % A::K::USIZE] = x\n"),
    dict(id='c14-row-offset', prop='C14', rule='R14.1', file=IO+'uniprobe/parse.rs', old="            matrix[i][s.as_index()] = x\n", new="            let r = matrix.rows() - 1 - i;\n            matrix[r][s.as_index()] = x\n"),
    dict(id='c14-transfac-wrong-symbol', prop='C14', rule='R14.1', file=IO+'transfac/parse.rs', old="                        matrix[i][s.as_index()] = c;", new="                        matrix[i][symbols[0].as_index()] = c;"),
    dict(id='c14-jaspar-row-order', prop='C14', rule='R14.2', file=IO+'jaspar/parse.rs', old="let symbols = &[Nucleotide::A, Nucleotide::C, Nucleotide::G, Nucleotide::T];", new="let symbols = &[Nucleotide::A, Nucleotide::C, Nucleotide::T, Nucleotide::G];"),
    dict(id='c14-jaspar-array-order', prop='C14', rule='R14.2', file=IO+'jaspar/parse.rs', old="let g = GenericArray::from([a, c, g, t]);", new="let g = GenericArray::from([a, g, c, t]);"),
    dict(id='c14-done-not-marked', prop='C14', rule='R14.3', file=IO+'jaspar16/parse.rs', old="        done[s.as_index()] = true;\n", new=""),
    dict(id='c14-fill-buf', prop='C14', rule='R14.4', file=IO+'uniprobe/mod.rs', old="            match self.bufread.read_line(&mut self.buffer) {\n                Err(e) => return Some(Err(Error::from(e))),\n                Ok(0) => return None,", new="            if let Ok(b) = self.bufread.fill_buf() { if b.is_empty() { return None; } }\n            match self.bufread.read_line(&mut self.buffer) {\n                Err(e) => return Some(Err(Error::from(e))),\n                Ok(0) => return None,"),
    dict(id='c14-transfac-no-clear', prop='C14', rule='R14.5', file=IO+'transfac/reader.rs', old="            self.buffer.clear();\n            self.last = 0;\n            Some(Ok(record))", new="            self.last = 0;\n            Some(Ok(record))"),
    dict(id='c14-compaction-shift', prop='C14', rule='R14.5b', file=IO+'jaspar/mod.rs', old="self.buffer.copy_within(self.start.., 0);", new="self.buffer.copy_within(self.start + 1.., 0);"),
    dict(id='c14-crossed-fields', prop='C14', rule='R14.6', file=IO+'jaspar/parse.rs', old="            id: id.to_string(),\n            description: description.map(String::from),", new="            id: description.unwrap_or(id).to_string(),\n            description: Some(id.to_string()),"),
    dict(id='c14-py-crossed', prop='C14', rule='R14.6', file=PYIO, old="                description,\n                accession,\n                id,", new="                description,\n                accession: id,\n                id: accession,"),
    dict(id='c14-tag-crossed', prop='C14', rule='R14.6', file=IO+'transfac/parse.rs', old='                let (rest, line) = preceded(tag("NA"), parse_line)(input)?;\n                name = Some(line.trim().to_string());', new='                let (rest, line) = preceded(tag("NA"), parse_line)(input)?;\n                id = Some(line.trim().to_string());'),
    # ---- C16
    dict(id='c16-exclude-missing-bg', prop='C16', rule='R16.1', file=SAMP, old="            for symbol in 0..A::K::USIZE {\n                self.background_counts[symbol] -= counts[symbol];\n            }\n", new=""),
    dict(id='c16-include-window-shift', prop='C16', rule='R16.1', file=SAMP, old="            for j in start..start + self.width {\n                self.background_counts[seq[j].as_index()] -= 1;\n            }\n            self.active.set(z);", new="            for j in start + 1..start + self.width {\n                self.background_counts[seq[j].as_index()] -= 1;\n            }\n            self.active.set(z);"),
    dict(id='c16-exclude-plus', prop='C16', rule='R16.1', file=SAMP, old="self.motif[MatrixCoordinates::new(i, seq[j].as_index())] -= 1;", new="self.motif[MatrixCoordinates::new(i, seq[j].as_index())] += 1;"),
    dict(id='c16-missing-set', prop='C16', rule='R16.1', file=SAMP, old="            self.active.set(z);\n", new=""),
    dict(id='c16-new-other-seq', prop='C16', rule='R16.2', file=SAMP, old="                for j in start..start + width {\n                    background_counts[seq[j].as_index()] -= 1;", new="                for j in start..start + width {\n                    background_counts[data.sequences.as_ref()[0][j].as_index()] -= 1;"),
    dict(id='c16-pssm-after-include', prop='C16', rule='R16.4', file=SAMP, old="        let (cm, pssm) = self.prepare_pssm();\n        // select new start position for sequence Z\n        self.update_holdout(z, &pssm);\n        // add new holdout sequence position to motif counts\n        self.include_sequence(z);", new="        let (_c, pssm) = self.prepare_pssm();\n        // select new start position for sequence Z\n        self.update_holdout(z, &pssm);\n        // add new holdout sequence position to motif counts\n        self.include_sequence(z);\n        let (cm, _p) = self.prepare_pssm();"),
    dict(id='c16-include-other-z', prop='C16', rule='R16.4', file=SAMP, old="        self.include_sequence(z);\n\n        // in Zoops", new="        self.include_sequence((z + 1) % self.starts.len());\n\n        // in Zoops"),
    dict(id='c16-start-range', prop='C16', rule='R16.5', file=SAMP, old="rng.sample(Uniform::new(0, seq.len() - width + 1))", new="rng.sample(Uniform::new(0, seq.len() - width + 2))"),
    dict(id='c16-thread-rng', prop='C16', rule='R16.6', file=SAMP, old="            self.starts[z] = dist.sample(&mut self.rng);", new="            self.starts[z] = dist.sample(&mut rand::thread_rng());"),
    dict(id='c16-starts-written-elsewhere', prop='C16', rule='R16.3', file=SAMP, old="        let z = self.select_holdout();\n", new="        let z = self.select_holdout();\n        if self.step == 7 { self.starts[z] = 0; }\n"),
    # ---- C15
    dict(id='c15-new-underflow', prop='C15', rule='R15.1', file=IO+'jaspar/mod.rs', old="            .unwrap_or(1)\n            .saturating_sub(1);", new="            .unwrap_or(1)\n            - 1;"),
    dict(id='c15-unimplemented', prop='C15', rule='R15.1', file=IO+'jaspar/parse.rs', old="        Err(_) => Err(nom::Err::Failure(nom::error::Error::new(\n            input,\n            nom::error::ErrorKind::Verify,\n        ))),", new="        Err(_) => unimplemented!(),"),
    dict(id='c15-uniprobe-empty', prop='C15', rule='R15.1', file=IO+'uniprobe/parse.rs', old="    if input.is_empty() {\n        return Err(InvalidData);\n    }\n", new=""),
    dict(id='c15-streaming', prop='C15', rule='R15.2', file=IO+'transfac/parse.rs', old="use nom::character::complete::space1;", new="use nom::character::streaming::space1;"),
    dict(id='c15-advance-underflow', prop='C15', rule='R15.1', file=IO+'jaspar16/mod.rs', old="self.start += text.len() - rest.len();", new="self.start += n + 1 - rest.len();"),
    dict(id='c15-new-unwrap', prop='C15', rule='R15.1', file=IO+'uniprobe/mod.rs', old="        let id = match self::parse::id(&self.buffer) {\n            Err(e) => return Some(Err(Error::from(e))),\n            Ok((_, x)) => x.to_string(),\n        };", new="        let id = self::parse::id(&self.buffer).unwrap().1.to_string();"),
    dict(id='c15-len-check-removed', prop='C15', rule='R15.1', file=IO+'jaspar16/parse.rs', old="        if counts.len() != matrix.rows() {\n            return Err(InvalidData);\n        }\n", new=""),
    dict(id='c15-many0', prop='C15', rule='R15.1', file=IO+'jaspar16/parse.rs', old="map_res(nom::multi::many1(matrix_column::<A>), build_matrix::<A>)(input)", new="map_res(nom::multi::many0(matrix_column::<A>), build_matrix::<A>)(input)"),
    dict(id='c15-tag-added', prop='C15', rule='R15.1', file=IO+'transfac/parse.rs', old='| "RN" | "XX" | "//" => Ok((rest, tag)),', new='| "RN" | "XX" | "//" | "OS" => Ok((rest, tag)),'),
    dict(id='c15-loop-no-eof', prop='C15', rule='R15.4', file=IO+'transfac/reader.rs', old="                Err(e) => return Some(Err(Error::from(e))),\n                Ok(0) => break,\n                Ok(n) => {", new="                Err(e) => return Some(Err(Error::from(e))),\n                Ok(n) => {"),
    dict(id='c15-last-not-reset', prop='C15', rule='R15.1', file=IO+'transfac/reader.rs', old="            self.buffer.clear();\n            self.last = 0;\n            Some(Ok(record))", new="            self.buffer.clear();\n            Some(Ok(record))"),
    dict(id='c15-compaction-offby1', prop='C15', rule='R15.1', file=IO+'jaspar/mod.rs', old="self.buffer.truncate(n - self.start);", new="self.buffer.truncate(n - self.start - 1);"),
    dict(id='c15-index-wrong-vec', prop='C15', rule='R15.1', file=IO+'jaspar/parse.rs', old="        for (i, x) in counts.into_iter().enumerate() {\n            matrix[i][s.as_index()] = *x", new="        for (i, x) in counts.into_iter().enumerate() {\n            matrix[i + 1][s.as_index()] = *x"),
    # ---- C17
    dict(id='c17-pvalue-calls-score', prop='C17', rule='R17.1', file=PYLIB, old="ScoreDistributionData::Dna(dna) => Ok(dna.pvalue(score as f32)),", new="ScoreDistributionData::Dna(dna) => Ok(dna.score(score) as f64),"),
    dict(id='c17-method-crossed', prop='C17', rule='R17.1', file=PYLIB, old='            "meme" => {\n                let dist = Self::score_distribution(slf)?;\n                match &dist.bind(py).borrow().data {\n                    ScoreDistributionData::Dna(dna) => Ok(dna.score(pvalue) as f64),', new='            "meme2" => {\n                let dist = Self::score_distribution(slf)?;\n                match &dist.bind(py).borrow().data {\n                    ScoreDistributionData::Dna(dna) => Ok(dna.score(pvalue) as f64),'),
    dict(id='c17-threshold-constant', prop='C17', rule='R17.2', file=PYLIB, old="scanner.threshold(threshold);", new="scanner.threshold(0.0);"),
    dict(id='c17-block-size-dropped', prop='C17', rule='R17.2', file=PYLIB, old="                    scanner.block_size(block_size);\n", new=""),
    dict(id='c17-log-odds-arms', prop='C17', rule='R17.3', file=PYLIB, old="                    true => $data.rescale(bg),\n                    false => $data.clone(),", new="                    false => $data.rescale(bg),\n                    true => $data.clone(),"),
    dict(id='c17-configure-dropped', prop='C17', rule='R17.4', file=PYLIB, old="                dna.configure(pssm);\n", new=""),
    dict(id='c17-configure-after', prop='C17', rule='R17.4', file=PYLIB, old="                prot.configure(pssm);\n                Ok(slf.py().allow_threads(|| pli.score(pssm, prot)).into())", new="                let r = slf.py().allow_threads(|| pli.score(pssm, &*prot));\n                prot.configure(pssm);\n                Ok(r.into())"),
    dict(id='c17-create-pseudocount', prop='C17', rule='R17.5', file=PYLIB, old="            let weights = data.to_freq(0.0).to_weight(None);", new="            let weights = data.to_freq(0.1).to_weight(None);"),
    dict(id='c17-as-ptr-unguarded', prop='C17', rule='R17.6', file=PYLIB, old="        let data = if slf.scores.matrix().rows() == 0 {\n            std::ptr::NonNull::<f32>::dangling().as_ptr() as *const f32\n        } else {\n            slf.scores.matrix()[0].as_ptr()\n        };", new="        let data = slf.scores.matrix()[0].as_ptr();"),
    dict(id='c17-new-unwrap', prop='C17', rule='R17.6', file=PYLIB, old='        let seq = sequence.to_str()?;\n        let py = sequence.py();', new='        let seq = sequence.to_str().unwrap();\n        let py = sequence.py();'),
    dict(id='c17-key-len-check', prop='C17', rule='R17.6', file=PYLIB, old="        if key.len() != 1 {", new="        if key.len() > 1 {"),
    dict(id='c17-overlong-read', prop='C17', rule='R17.6', file='lightmotif-py/lightmotif/pyfile.rs', old="                        if b.len() > buf.len() {", new="                        if b.len() > buf.len() + 1 {"),
    # ---- C18
    dict(id='c18-raw-index', prop='C18', rule='R18.1', file=PYLIB, old="let row = slf.data.get(index_ as usize);", new="let row = slf.data.get(index as usize);", occ=1),
    dict(id='c18-scores-no-normalise', prop='C18', rule='R18.2', file=PYLIB, old="        if index < 0 {\n            index += self.scores.max_index() as isize;\n        }\n", new=""),
    dict(id='c18-bound-not-len', prop='C18', rule='R18.2', file=PYLIB, old="if index < self.scores.max_index() as isize && index >= 0 {", new="if index < (self.scores.matrix().rows() * 32) as isize && index >= 0 {"),
    dict(id='c18-scoring-shape-swapped', prop='C18', rule='R18.3', file=PYLIB, old="let shape = [rows as Py_ssize_t, cols as Py_ssize_t];\n        let strides = [\n            (stride", new="let shape = [cols as Py_ssize_t, rows as Py_ssize_t];\n        let strides = [\n            (stride"),
    dict(id='c18-scores-strides-swapped', prop='C18', rule='R18.3', file=PYLIB, old="            std::mem::size_of::<f32>() as Py_ssize_t,\n            (scores.matrix().stride() * std::mem::size_of::<f32>()) as Py_ssize_t,", new="            (scores.matrix().stride() * std::mem::size_of::<f32>()) as Py_ssize_t,\n            std::mem::size_of::<f32>() as Py_ssize_t,"),
    dict(id='c18-format-d-for-f32', prop='C18', rule='R18.4', file=PYLIB, old='b"f\\0"', new='b"d\\0"', occ=0),
    dict(id='c18-itemsize-u8-for-f32', prop='C18', rule='R18.4', file=PYLIB, old="(*view).itemsize = std::mem::size_of::<f32>() as isize;", new="(*view).itemsize = std::mem::size_of::<u8>() as isize;", occ=0),
    dict(id='c18-writable-not-refused', prop='C18', rule='R18.4', file=PYLIB, old="        if (flags & pyo3::ffi::PyBUF_WRITABLE) == pyo3::ffi::PyBUF_WRITABLE {\n            return Err(PyBufferError::new_err(\"Object is not writable\"));\n        }\n", new="", occ=2),
    dict(id='c18-readonly-zero', prop='C18', rule='R18.4', file=PYLIB, old="(*view).readonly = 1;", new="(*view).readonly = 0;", occ=3),
    dict(id='c18-len-columns', prop='C18', rule='R18.5', file=PYLIB, old="    pub fn __len__(&self) -> usize {\n        self.data.rows()\n    }", new="    pub fn __len__(&self) -> usize {\n        self.data.columns()\n    }", occ=1),
    dict(id='c18-dist-len-elems', prop='C18', rule='R18.4', file=PYLIB, old="(*view).len = (array.len() * std::mem::size_of::<f64>()) as isize;", new="(*view).len = array.len() as isize;"),
    # ---- C09
    dict(id='c09-rescale-unguarded', prop='C09', rule='R9.1', file=PWM, old="                    if new_freqs[j] == 0.0 {\n                        row[j] = 0.0;\n                    } else {\n                        row[j] *= old_freqs[j] / new_freqs[j];\n                    }", new="                    row[j] *= old_freqs[j] / new_freqs[j];"),
    dict(id='c09-to-weight-unguarded', prop='C09', rule='R9.1', file=PWM, old="                if f == 0.0 {\n                    dst[j] = 0.0;\n                } else {\n                    dst[j] = x / f;\n                }", new="                dst[j] = x / f;"),
    dict(id='c09-guard-wrong-value', prop='C09', rule='R9.1', file=PWM, old="                if f == 0.0 {\n                    dst[j] = 0.0;", new="                if x == 0.0 {\n                    dst[j] = 0.0;"),
    dict(id='c09-into-scoring-zero', prop='C09', rule='R9.2', file=PWM, old="*x = f32::NEG_INFINITY;", new="*x = 0.0;"),
    dict(id='c09-min-uses-max', prop='C09', rule='R9.4', file=PWM, old=".min_by(|a, b| a.partial_cmp(b).unwrap())", new=".max_by(|a, b| a.partial_cmp(b).unwrap())"),
    dict(id='c09-max-reversed-cmp', prop='C09', rule='R9.4', file=PWM, old=".max_by(|a, b| a.partial_cmp(b).unwrap())", new=".max_by(|a, b| b.partial_cmp(a).unwrap())"),
    dict(id='c09-min-fewer-cols', prop='C09', rule='R9.4', file=PWM, old="row[..A::K::USIZE - 1]\n                    .iter()\n                    .min_by(|a, b|", new="row[..A::K::USIZE - 2]\n                    .iter()\n                    .min_by(|a, b|"),
    dict(id='c09-len-check-removed', prop='C09', rule='R9.5', file=PWM, old="            if seq.len() != d.rows() {\n                return Err(InvalidData);\n            }", new="            if seq.len() > d.rows() {\n                return Err(InvalidData);\n            }"),
    dict(id='c09-bg-sum-check', prop='C09', rule='R9.5', file=ABC, old="        if sum != 1.0 {\n            return Err(InvalidData);\n        }", new="        if sum > 1.0 {\n            return Err(InvalidData);\n        }"),
    dict(id='c09-bg-range', prop='C09', rule='R9.5', file=ABC, old="if !(0.0..=1.0).contains(&f) {", new="if !(-1.0..=1.0).contains(&f) {"),
    dict(id='c09-count-wrong-cell', prop='C09', rule='R9.6', file=PWM, old="d[i][x.as_index()] += 1;", new="d[i][(x.as_index() + 1) % A::K::USIZE] += 1;"),
    dict(id='c09-log-base-swap', prop='C09', rule='R9.2', file=PWM, old="2.0 => item.log2(),\n                    10.0 => item.log10(),", new="2.0 => item.log10(),\n                    10.0 => item.log2(),"),
    dict(id='c09-freq-tolerance', prop='C09', rule='R9.5', file=PWM, old=".all(|row| (row.iter().sum::<f32>() - 1.0).abs() < 0.01)", new=".all(|row| (row.iter().sum::<f32>() - 1.0).abs() < 1.01)"),
    # ---- C19
    dict(id='c19-resize-forgets-rows', prop='C19', rule='R19.2', file=DENSE, old="        self.data.resize_with(rows, Default::default);\n        self.rows = rows;", new="        self.data.resize_with(rows, Default::default);\n        self.rows = self.rows.max(rows);"),
    dict(id='c19-uninit-rows-off', prop='C19', rule='R19.2', file=DENSE, old="        m.data.set_len(rows);\n        m.rows = rows;", new="        m.data.set_len(rows);\n        m.rows = rows + 0 * m.rows;"),
    dict(id='c19-drop-align', prop='C19', rule='R19.1', file=DENSE, old='#[cfg_attr(target_arch = "x86_64", repr(align(32)))]', new='#[cfg_attr(target_arch = "x86_64", repr(align(16)))]'),
    dict(id='c19-manual-eq', prop='C19', rule='R19.3', file=DENSE, edits=[
        dict(file=DENSE, old="#[derive(Clone, PartialEq, Eq)]\npub struct DenseMatrix", new="#[derive(Clone, Eq)]\npub struct DenseMatrix"),
        dict(file=DENSE, old="// --- Iter ---", new="impl<T: MatrixElement + PartialEq, C: ArrayLength> PartialEq for DenseMatrix<T, C> { fn eq(&self, o: &Self) -> bool { unsafe { self.ravel() == o.ravel() } } }\n// --- Iter ---"),
    ]),
    dict(id='c19-next-back-forward', prop='C19', rule='R19.4', file=DENSE, old="self.it.next_back().map(|row| Self::get(row))", new="self.it.next().map(|row| Self::get(row))"),
    dict(id='c19-ravel-columns', prop='C19', rule='R19.5', file=DENSE, old="std::slice::from_raw_parts(self.data.as_ptr() as *mut T, self.rows() * self.stride())", new="std::slice::from_raw_parts(self.data.as_ptr() as *mut T, self.rows() * self.columns())"),
    dict(id='c19-stride-columns', prop='C19', rule='R19.1', file=DENSE, old="std::mem::size_of::<Row<T, C>>() / std::mem::size_of::<T>()", new="std::mem::size_of::<generic_array::GenericArray<T, C>>() / std::mem::size_of::<T>()"),
    dict(id='c19-index-coords-swapped', prop='C19', rule='R19.4', file=DENSE, old="&self.data[index.row].a[index.col]", new="&self.data[index.col].a[index.row]"),
    dict(id='c19-resize-filler', prop='C19', rule='R19.2', file=DENSE, old="self.data.resize_with(rows, Default::default);", new="let last = self.data.last().cloned().unwrap_or_default(); self.data.resize_with(rows, || last.clone());"),
]

BENIGN = [
    dict(id='c06-sse2-guard-le', prop='C06', file=SSE2F, old="        while i + STRIDE < l {", new="        while i + STRIDE <= l {"),
    dict(id='c06-avx2-guard-lt', prop='C06', file=AVX2, old="        while i + STRIDE <= l {", new="        while i + STRIDE < l {"),
    dict(id='c06-wrap-check-form', prop='C06', file=AVX2, old="        if seq.wrap() < pssm.rows() - 1 {", new="        if seq.wrap() + 1 < pssm.rows() {", occ=2),
    dict(id='c04-guard-form', prop='C04', file=SEQ, old="        if m > self.wrap {", new="        if m >= self.wrap + 1 {"),
    dict(id='c07-argmax-strict-generic', prop='C07', file=PLI, old="if row[j] >= best_score {", new="if row[j] > best_score {"),
    dict(id='c07-cmp-lt', prop='C07', file=AVX2, old="let c3 = _mm256_cmp_ps(s3, r3, _CMP_LE_OS);", new="let c3 = _mm256_cmp_ps(s3, r3, _CMP_LT_OS);"),
    dict(id='c07-max-init-first-row', prop='C07', file=AVX2, old="let mut m1 = _mm256_set1_ps(f32::NEG_INFINITY);", new="let mut m1 = _mm256_load_ps(dataptr);"),
    dict(id='c01-reorder-intrinsics', prop='C01', file=AVX2, occ=0, old="            s1 = _mm256_add_ps(s1, b1);\n            s2 = _mm256_add_ps(s2, b2);\n            s3 = _mm256_add_ps(s3, b3);\n            s4 = _mm256_add_ps(s4, b4);", new="            s4 = _mm256_add_ps(s4, b4);\n            s2 = _mm256_add_ps(s2, b2);\n            s3 = _mm256_add_ps(s3, b3);\n            s1 = _mm256_add_ps(s1, b1);"),
    dict(id='c01-length-plain', prop='C01', file=SSE2F, old="scores.resize(rows.len(), (seq.len() + 1).saturating_sub(pssm.rows()));", new="scores.resize(rows.len(), seq.len() - pssm.rows() + 1);"),
    dict(id='c15-guard-in-reader', prop='C15', file=IO+'uniprobe/mod.rs', old="        let matrix = match self::parse::build_matrix::<A>(columns) {", new="        if columns.is_empty() {\n            return Some(Err(Error::InvalidData));\n        }\n        let matrix = match self::parse::build_matrix::<A>(columns) {"),
    dict(id='c08-factor-256', prop='C08', file=PWM, old="let factor = (max_score - offset) / (u8::MAX as f32);", new="let factor = (max_score - offset) / 256.0;"),
    dict(id='c08-offsets-are-maxima', prop='C08', file=PWM, old="                    .min_by(|x, y| x.partial_cmp(y).unwrap())\n                    .unwrap()\n            })\n            .cloned()", new="                    .max_by(|x, y| x.partial_cmp(y).unwrap())\n                    .unwrap()\n            })\n            .cloned()"),
    dict(id='c02-if-let-form', prop='C02', file=SCAN, old="if self.pipeline.max(&self.dscores).map_or(false, |m| m >= t) {", new="if matches!(self.pipeline.max(&self.dscores), Some(m) if m >= t) {"),
    dict(id='c02-block-size-128', prop=['C02', 'C03'], file=SCAN, old="block_size: 256,", new="block_size: 128,"),
    dict(id='c02-bound-via-len', prop='C02', file=SCAN, old="if index < self.dscores.max_index() {", new="if index + self.pssm.as_ref().len() <= seq.len() {"),
    dict(id='c09-guard-inverted-form', prop='C09', file=PWM, old="                if f == 0.0 {\n                    dst[j] = 0.0;\n                } else {\n                    dst[j] = x / f;\n                }", new="                if f != 0.0 {\n                    dst[j] = x / f;\n                } else {\n                    dst[j] = 0.0;\n                }"),
    dict(id='c09-min-full-range', prop='C09', file=PWM, old="row[..A::K::USIZE - 1]\n                    .iter()\n                    .max_by(|a, b|", new="row[..]\n                    .iter()\n                    .max_by(|a, b|"),
    dict(id='c19-resize-order', prop='C19', file=DENSE, old="        self.data.resize_with(rows, Default::default);\n        self.rows = rows;", new="        self.rows = rows;\n        self.data.resize_with(rows, Default::default);"),
    dict(id='c10-index-form', prop='C10', file=PWM, occ=0,
         old="""        for (i, row) in self.data.iter().rev().enumerate() {
            for &s in A::symbols() {
                data[i][s.as_index()] = row[A::complement(s).as_index()];
            }
        }""",
         new="""        for i in 0..self.data.rows() {
            let row = &self.data[self.data.rows() - 1 - i];
            for &s in A::symbols() {
                data[i][s.as_index()] = row[A::complement(s).as_index()];
            }
        }"""),
    dict(id='c10-swap-direction', prop='C10', file=PWM, occ=0,
         old="data[i][s.as_index()] = row[A::complement(s).as_index()];", new="data[i][A::complement(s).as_index()] = row[s.as_index()];"),
]
