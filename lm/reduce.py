"""E5c — closure application and reductions: one view of `fold`, `map(..).sum()`, `min_by`, accumulator loops.

`it.map(f).map(g).sum()`, `it.fold(0, |acc, x| acc + g(f(x)))` and `let mut acc = 0; for x in it { acc += g(f(x)) }` compute the same reduction.
This module
  * beta-reduces closure values and function items applied to recovered expressions (`apply_fn`), for callees whose body has a single normal
    path (overflow / bounds asserts allowed) — a closure with branches is left alone and the caller fails closed;
  * extends the iterator algebra (`RCanon`) with `map`, `cloned`, `copied` stages;
  * lists the reductions of a function body in the canonical form

        dict(op, init, term, L, extents, block, how)

    op      'add' | 'sat_add' | 'min_by' | 'max_by' | 'min' | 'max'
    init    recovered initial value (None for min/max of an iterator)
    term    the per-iteration operand, canonical in ('pos', L) / ('at', X, i)
    L       loop id of the reduction's own iteration; extents = list of component extents (see iteralg)
    cmp     comparator function value for *_by
    how     'sum' | 'fold' | 'loop' | 'min_by' | ...  (informative)
"""
from . import expr as X, iteralg
from .match import norm, m

_SAT = ('saturating_add',)


def _single_path_return(fn):
    R = X.Rec(fn)
    if len(fn.exits()) != 1:
        return None
    d = fn.defs().get(0, [])
    if len(d) == 2:
        # `if c { a } else { b }` / a two-armed match as the whole body: one value, if-converted
        try:
            v = X.Rec(fn, ite=True).if_converted(0, 0)
        except Exception:
            v = None
        return norm(v) if v is not None else None
    if len(d) != 1:
        return None
    bi, si, x = d[0]
    try:
        return norm(R.call(x) if si == 'term' else R.rvalue(x))
    except Exception:
        return None


def _subst(e, env):
    if isinstance(e, tuple):
        if e in env:
            return env[e]
        return tuple(_subst(x, env) if isinstance(x, tuple) else x for x in e)
    return e


def fn_value(e):
    """('closure', path, captures) | ('fn', path) | None for a recovered callable value."""
    e = norm(e)
    if e[0] == 'agg' and isinstance(e[1], tuple) and e[1][0] == 'closure':
        return ('closure', e[1][1], e[2])
    if e[0] == 'kc' and len(e) >= 3 and isinstance(e[2], str) and e[2].startswith('fn'):
        return ('fn', e[1])
    if e[0] == 'fnitem':
        return ('fn', e[2] if len(e) > 2 else e[1])
    return None


def _lookup(db, path):
    f = db.fns.get(path)
    if f is not None:
        return f
    try:
        return db.fn(path)
    except Exception:
        return None


def apply_fn(db, fv, args, depth=0):
    """Recovered result of applying the callable value `fv` to the recovered argument expressions; None when not understood."""
    v = fn_value(fv)
    if v is None or depth > 3:
        return None
    f = _lookup(db, v[1])
    if f is None or getattr(f, 'blocks', None) is None:
        return None
    ret = _single_path_return(f)
    if ret is None:
        return None
    env = {}
    if v[0] == 'closure':
        for i, a in enumerate(args):
            env[('p', i + 2)] = a
        caps = v[2]
        names = f.raw.get('upvars') or []
        for i, c in enumerate(caps):
            env[('fld', ('p', 1), str(i))] = c
            env[('fld', ('p', 1), i)] = c
            if i < len(names):
                nm = names[i].get('name') if isinstance(names[i], dict) else names[i]
                if isinstance(nm, str):
                    env[('fld', ('p', 1), nm)] = c
    else:
        for i, a in enumerate(args):
            env[('p', i + 1)] = a
    # a remaining reference to the closure environment means a capture was not resolved: give up rather than guess
    if v[0] == 'closure' and _mentions(_subst(ret, {k: ('hole',) for k in env}), ('p', 1)):
        return None
    return norm(_subst(ret, env))


def _mentions(e, x):
    if e == x:
        return True
    if isinstance(e, tuple):
        return any(_mentions(y, x) for y in e if isinstance(y, tuple))
    return False


class RCanon(iteralg.Canon):
    """Iterator algebra + map / cloned / copied / filter / take / flat_map stages (closures applied) and iterator-returning helpers.

    `filters[L]` collects the predicates an element of loop L has passed (`filter`); a `flat_map` introduces a nested position
    ('pos', ('in', L)) whose extents are recorded under that id."""

    def __init__(self, db, fn=None, rec=None):
        super().__init__(fn, rec)
        self.db = db
        self.filters = {}

    def elem_of(self, S, L, pos=None):
        S0 = norm(S)
        S1 = self._resolve_local(S0)
        if S1[0] == 'call':
            name = S1[1]
            if name.endswith(('Iterator::cloned', 'Iterator::copied')) and len(S1[2]) == 1:
                return self.elem_of(S1[2][0], L, pos)
            if name.endswith('StripedScores::iter') and len(S1[2]) == 1:
                # one score per valid position, in position order (scores.rs Iter: indices 0..max_index)
                Xs = self.canon(S1[2][0])
                return ('at', Xs, pos if pos is not None else ('pos', L)), [('maxidx', Xs)]
            if name.endswith(iteralg.ITER) and len(S1[2]) == 1:
                inner = norm(S1[2][0])
                inner = self._resolve_local(inner)
                if inner[0] == 'call' and inner[1].endswith('Iterator::collect') and len(inner[2]) == 1:
                    # a pipeline collected into a Vec and iterated again yields the same elements in the same order
                    return self.elem_of(inner[2][0], L, pos)
            if name.endswith('Iterator::filter') and len(S1[2]) == 2:
                r = self.elem_of(S1[2][0], L, pos)
                if r is None:
                    return None
                cond = apply_fn(self.db, S1[2][1], [r[0]])
                if cond is None:
                    return None
                self.filters.setdefault(L, []).append(self.canon(cond))
                return r
            if name.endswith('Iterator::filter_map') and len(S1[2]) == 2:
                # filter_map(|x| if c(x) { Some(v(x)) } else { None })  (also `c(x).then_some(v(x))`, normalised to the same value)
                r = self.elem_of(S1[2][0], L, pos)
                if r is None:
                    return None
                body = apply_fn(self.db, S1[2][1], [r[0]])
                body = norm(body) if body is not None else None
                if body is None or body[0] != 'ite':
                    return None
                some, none, cond = body[2], body[3], body[1]
                is_none = lambda x_: x_[0] == 'agg' and isinstance(x_[1], tuple) and len(x_[1]) > 2 and x_[1][2] == 'None'
                is_some = lambda x_: x_[0] == 'agg' and isinstance(x_[1], tuple) and len(x_[1]) > 2 and x_[1][2] == 'Some' and len(x_[2]) == 1
                if is_some(some) and is_none(none):
                    self.filters.setdefault(L, []).append(self.canon(cond))
                    return some[2][0], r[1]
                if is_none(some) and is_some(none):
                    self.filters.setdefault(L, []).append(self.canon(('un', 'Not', cond)))
                    return none[2][0], r[1]
                return None
            if name.endswith('Iterator::take') and len(S1[2]) == 2:
                r = self.elem_of(S1[2][0], L, pos)
                if r is None:
                    return None
                return r[0], r[1] + [('sub', self.canon(S1[2][1]), ('k', 0))]        # a zip-like minimum with the range 0..n
            if name.endswith('Iterator::flat_map') and len(S1[2]) == 2:
                outer = self.elem_of(S1[2][0], L, pos)
                if outer is None:
                    return None
                inner_it = apply_fn(self.db, S1[2][1], [outer[0]])
                if inner_it is None:
                    return None
                Li = ('in', L)
                inner = self.elem_of(inner_it, Li)
                if inner is None:
                    return None
                self.extents[Li] = inner[1]
                return inner[0], outer[1]
            if name.startswith(('lightmotif', '<lightmotif')) and self.db is not None:
                # a private helper that returns an iterator (`fn cells(&self) -> impl Iterator<..>`): the iterator it builds, in our terms
                cands = [g for g in self.db.by_short.get(name, []) if g.kind != 'Closure' and not g.promoted_of]
                if len(cands) == 1 and 'Iterator' in (cands[0].raw.get('sig') or ''):
                    body = apply_fn(self.db, ('fnitem', name, cands[0].path), list(S1[2]))
                    if body is not None and body != S1:
                        return self.elem_of(body, L, pos)
            if name.endswith('Iterator::map') and len(S1[2]) == 2:
                r = self.elem_of(S1[2][0], L, pos)
                if r is None:
                    return None
                v = apply_fn(self.db, S1[2][1], [r[0]])
                if v is None:
                    return None
                return self.canon(v), r[1]
        return super().elem_of(S, L, pos)


_counter = [0]


def _fresh():
    _counter[0] += 1
    return ('pipe', _counter[0])


def of_expr(C, e):
    """Reduction denoted by the expression e (an iterator pipeline ending in sum / fold / min_by / max_by / min / max), or None."""
    e = norm(e)
    if e[0] == 'call' and e[1].endswith(('Option::unwrap', 'Option::expect')) and e[2]:
        r = of_expr(C, e[2][0])
        if r is not None and r['op'] in ('min_by', 'max_by', 'min', 'max'):
            r = dict(r)
            r['unwrapped'] = True
            return r
        return None
    if e[0] == 'fld' and str(e[2]) == '0' and e[1][0] == 'down' and e[1][2] == 'Some':
        r = try_fold_view(C, e[1][1])
        if r is not None:
            return r
    if e[0] != 'call':
        return None
    name = e[1]
    L = _fresh()
    if name.endswith('Iterator::count') and len(e[2]) == 1:
        r = C.elem_of(e[2][0], L)
        if r is None:
            return None
        C.extents[L] = r[1]
        return dict(op='count', init=('k', 0), term=r[0], L=L, extents=r[1], how='count', filters=list(C.filters.get(L, [])))
    if name.endswith('Iterator::sum') and len(e[2]) == 1:
        r = C.elem_of(e[2][0], L)
        if r is None:
            return None
        C.extents[L] = r[1]
        return dict(op='add', init=('k', 0), term=r[0], L=L, extents=r[1], how='sum')
    for suf, op in (('Iterator::min_by', 'min_by'), ('Iterator::max_by', 'max_by')):
        if name.endswith(suf) and len(e[2]) == 2:
            r = C.elem_of(e[2][0], L)
            if r is None:
                return None
            C.extents[L] = r[1]
            return dict(op=op, init=None, term=r[0], L=L, extents=r[1], how=op, cmp=e[2][1])
    for suf, op in (('Iterator::min', 'min'), ('Iterator::max', 'max')):
        if name.endswith(suf) and len(e[2]) == 1:
            r = C.elem_of(e[2][0], L)
            if r is None:
                return None
            C.extents[L] = r[1]
            return dict(op=op, init=None, term=r[0], L=L, extents=r[1], how=op)
    if name.endswith('Iterator::fold') and len(e[2]) == 3:
        r = C.elem_of(e[2][0], L)
        if r is None:
            return None
        C.extents[L] = r[1]
        acc = ('acc', L)
        body = apply_fn(C.db, e[2][2], [acc, r[0]])
        if body is None:
            return None
        body = C.canon(body)
        op_term = _accumulate(body, acc)
        if op_term is None:
            return None
        return dict(op=op_term[0], init=norm(e[2][1]), term=op_term[1], L=L, extents=r[1], how='fold')
    return None


def try_fold_view(C, e):
    """`it.try_fold(init, |acc, x| if p(x) { Some(acc + t(x)) } else { None })`: the sum of t over all elements, defined (Some) exactly when
    every element satisfies p.  Returns the reduction dict with `cond` = p in canonical form (the payload of the Some result), or None."""
    e = norm(e)
    if not (e[0] == 'call' and e[1].endswith('Iterator::try_fold') and len(e[2]) == 3):
        return None
    L = _fresh()
    r = C.elem_of(e[2][0], L)
    if r is None:
        return None
    C.extents[L] = r[1]
    acc = ('acc', L)
    body = apply_fn(C.db, e[2][2], [acc, r[0]])
    if body is None or body[0] != 'ite':
        return None
    cond, a_, b_ = body[1], C.canon(body[2]), C.canon(body[3])
    some, none = (a_, b_)
    flip = False
    if a_[0] == 'agg' and not a_[2]:
        some, none, flip = b_, a_, True
    if not (some[0] == 'agg' and len(some[2]) == 1 and none[0] == 'agg' and not none[2]):
        return None
    ot = _accumulate(some[2][0], acc)
    if ot is None:
        return None
    from . import guards as G
    alts = G.expr_alternatives(C.canon(cond), not flip)
    if len(alts) != 1:
        return None
    return dict(op=ot[0], init=norm(e[2][1]), term=ot[1], L=L, extents=r[1], how='try_fold', cond=alts[0])


def _accumulate(body, acc):
    """body = acc + term | term + acc (integers only commute; callers of float sums must check order themselves) | saturating_add(acc, term)."""
    b = m(('bin', 'Add', '$a', '$b'), body)
    if b is not None:
        if b['$a'] == acc and not _mentions(b['$b'], acc):
            return ('add', b['$b'])
        return None
    if body[0] == 'call' and body[1].endswith(_SAT) and len(body[2]) == 2:
        a, t = body[2]
        if norm(a) == acc and not _mentions(t, acc):
            return ('sat_add', t)
    return None


def loops_in(db, f, R=None, C=None):
    """Accumulator loops of f: `let mut acc = init; for .. { acc = acc (+) term }` with the update on every iteration and one normal exit."""
    R = R or X.Rec(f)
    C = C or RCanon(db, f, R)
    out = []
    can = f.postdominators()
    for l in range(len(f.locals)):
        ds = f.defs().get(l, [])
        if len(ds) != 2:
            continue
        inl = lambda d: [L_ for L_ in f.loops() if d[0] in L_['body']]
        init = [d for d in ds if not inl(d)]
        upd = [d for d in ds if inl(d)]
        if len(init) != 1 or len(upd) != 1 or init[0][1] == 'term':
            continue
        bi, si, x = upd[0]
        try:
            v = norm(R.call(x) if si == 'term' else R.rvalue(x))
            iv = norm(R.rvalue(init[0][2]))
        except Exception:
            continue
        acc = ('v', l)
        ot = _accumulate(v, acc)
        if ot is None:
            continue
        Ls = inl(upd[0])
        Lp = min(Ls, key=lambda L_: len(L_['body']))
        every = all(f.dominates(bi, lt) for lt in Lp['latches'])
        exits = [(a, b) for a, b in Lp['exits'] if b in can]
        term = C.canon(ot[1])
        out.append(dict(op=ot[0], init=iv, term=term, L=None, header=Lp['header'], extents=None, how='loop', block=bi, local=l,
                        every_iteration=every, single_exit=len(exits) == 1, nested=len(Ls)))
    return out


def pos_ids(e):
    s = set()

    def go(x):
        if isinstance(x, tuple):
            if len(x) == 2 and x[0] == 'pos':
                s.add(x[1])
                return
            for y in x:
                go(y)
    go(e)
    return s


# ---- universally quantified facts -------------------------------------------------------------------------------------------------
def _exhaustion_exit(f, L):
    """The exit edge of loop L taken when its iterator is exhausted / its `while` guard fails: the edge leaving L from a block that
    switches on the result of the `next()` call (or on the guard) evaluated in the loop header.  None when not identifiable."""
    can = f.postdominators()
    h = L['header']
    ht = f.term(h)
    cands = []
    for a, b in L['exits']:
        if b not in can:
            continue
        t = f.term(a)
        if t['k'] != 'switch':
            continue
        if a == h:
            cands.append((a, b))            # while-guard decided in the header itself
            continue
        # for-loop: header calls next(), the unique successor switches on its discriminant
        if ht['k'] == 'call' and (f.callee_short(ht) or '').endswith(('Iterator::next', 'range::next')) and f.succs(h) and a in f.succs(h):
            cands.append((a, b))
    return cands[0] if len(cands) == 1 else None


def forall_facts(db, f, R, C, block):
    """Facts that hold for *every* position of a completed iteration when `block` is reached.
    Each fact: dict(rel=(op, a, b) | ('true'|'false', e), L=loop id or header, extents=.., how='all' | 'loop').
      * `it.all(clo)` known true at `block`                      -> clo(elem) for every element of `it`;
      * a loop before `block` whose only exit leading to `block` is the exhaustion of its iterator (every other exit cannot reach it)
                                                                   -> the relations that dominate the loop's latch, decided inside the body."""
    from . import guards as G
    out = []
    for r in G.relations(f, R, block):
        if r[0] == 'switch' and isinstance(r[1], tuple) and r[1][0] == 'discr':
            # `it.try_fold(..)` returned Some (directly, or seen through `.ok_or(..)?`): its predicate held for every element
            x, want = norm(r[1][1]), None
            if x[0] == 'call' and x[1].endswith('Try::branch') and len(x[2]) == 1 and r[2] == ('eq', 0):
                x = norm(x[2][0])
                if x[0] == 'call' and x[1].endswith(('Option::ok_or', 'Option::ok_or_else')) and x[2]:
                    x, want = norm(x[2][0]), True
            elif r[2] == ('eq', 1):
                want = True
            tf = try_fold_view(C, x) if want else None
            if tf is not None:
                for q in tf['cond']:
                    out.append(dict(rel=tuple(q[:-1]) if len(q) > 3 else q, L=tf['L'], pos={tf['L']}, extents={tf['L']: tf['extents']}, how='try_fold'))
            continue
        if r[0] == 'false' and isinstance(r[1], tuple) and r[1][0] == 'call' and r[1][1].endswith('Iterator::any') and len(r[1][2]) == 2:
            # !it.any(p)  =  for every element, !p
            L = _fresh()
            el = C.elem_of(r[1][2][0], L)
            body = apply_fn(db, r[1][2][1], [el[0]]) if el is not None else None
            if body is not None:
                for alt in [G.expr_alternatives(C.canon(body), False)]:
                    if len(alt) == 1:
                        for q in alt[0]:
                            out.append(dict(rel=q, L=L, pos={L}, extents={L: el[1]}, how='not-any'))
            continue
        if r[0] == 'true' and isinstance(r[1], tuple) and r[1][0] == 'call' and r[1][1].endswith('Iterator::all') and len(r[1][2]) == 2:
            L = _fresh()
            el = C.elem_of(r[1][2][0], L)
            if el is None:
                continue
            body = apply_fn(db, r[1][2][1], [el[0]])
            if body is None:
                continue
            out.append(dict(rel=G.as_relation(C.canon(body), True), L=L, pos={L}, extents={L: el[1]}, how='all'))
    reach_cache = {}

    def reaches(a, b):
        if a not in reach_cache:
            seen, st = set(), [a]
            while st:
                x = st.pop()
                if x in seen:
                    continue
                seen.add(x)
                st.extend(f.succs(x))
            reach_cache[a] = seen
        return b in reach_cache[a]
    can = f.postdominators()
    for L in f.loops():
        if block in L['body'] or not f.dominates(L['header'], block):
            continue
        ex = _exhaustion_exit(f, L)
        if ex is None:
            continue
        others = [(a, b) for a, b in L['exits'] if (a, b) != ex and b in can and reaches(b, block)]
        if others or not reaches(ex[1], block) or len(L['latches']) != 1:
            continue
        latch = L['latches'][0]
        for r in G.relations(f, R, latch):
            if r[-1] in L['body'] and r[-1] != ex[0] and r[0] != 'switch':
                rel = tuple(C.canon(x) if isinstance(x, tuple) else x for x in r[:-1])
                ids = pos_ids(rel)
                out.append(dict(rel=rel, L=L['header'], pos=ids, extents={i: C.extents.get(i) for i in ids}, how='loop'))
    return out


def completed_before(f, header, block):
    """`block` is only reached after the loop with this header ran to the exhaustion of its iterator: every other exit of the loop
    (early return, break) cannot reach `block`."""
    Ls = [L for L in f.loops() if L['header'] == header]
    if not Ls or block in Ls[0]['body'] or not f.dominates(header, block):
        return False
    L = Ls[0]
    ex = _exhaustion_exit(f, L)
    if ex is None:
        return False
    can = f.postdominators()

    def reaches(a, b):
        seen, st = set(), [a]
        while st:
            x = st.pop()
            if x in seen:
                continue
            seen.add(x)
            st.extend(f.succs(x))
        return b in seen
    others = [(a, b) for a, b in L['exits'] if (a, b) != ex and b in can and reaches(b, block)]
    return not others and reaches(ex[1], block)


def sum_view(db, f, R, C, e, block):
    """e denotes a sum that is complete when `block` is reached: an iterator pipeline (`sum`, `fold`), or the accumulator of a loop that
    ran to exhaustion before `block`.  Returns the canonical reduction dict (op, init, term, L, extents) or None."""
    e = norm(e)
    r = of_expr(C, e)
    if r is not None:
        return r
    if e[0] == 'v':
        ls = [l_ for l_ in loops_in(db, f, R, C) if l_['local'] == e[1] and l_['every_iteration'] and l_['nested'] == 1]
        if len(ls) == 1 and (ls[0]['single_exit'] or completed_before(f, ls[0]['header'], block)):
            r = dict(ls[0])
            ids = pos_ids(r['term'])
            if len(ids) != 1:
                return None
            r['L'] = next(iter(ids))
            r['extents'] = C.extents.get(r['L'])
            return r
    return None


def closure_env(db, fv, args):
    """(closure body fn, substitution) for applying the closure value fv to recovered argument expressions."""
    v = fn_value(fv)
    if v is None or v[0] != 'closure':
        return None, None
    g = _lookup(db, v[1])
    if g is None:
        return None, None
    env = {}
    for i, a in enumerate(args):
        env[('p', i + 2)] = a
    names = g.raw.get('upvars') or []
    for i, c in enumerate(v[2]):
        env[('fld', ('p', 1), str(i))] = c
        env[('fld', ('p', 1), i)] = c
        if i < len(names):
            nm = names[i].get('name') if isinstance(names[i], dict) else names[i]
            if isinstance(nm, str):
                env[('fld', ('p', 1), nm)] = c
    return g, env


def foreach_stores(db, f, R, C):
    """Stores performed by the closure of every `it.for_each(|x| ..)` in f, expressed in f's terms with x = the element of `it`:
    list of dict(target, value, L, extents, span, block) in canonical form — the same effects a `for x in it { .. }` loop would show."""
    out = []
    for bi, t in f.calls():
        if not (f.callee_short(t) or '').endswith('Iterator::for_each') or len(t['args']) != 2:
            continue
        e = norm(R.call(t))
        L = _fresh()
        # the type of the iterator for_each is called on (its Self type) tells whether a component is a plain slice iterator
        if not hasattr(C, 'pipe_types'):
            C.pipe_types = {}
        C.pipe_types[L] = t.get('callee_full') or ''
        el = C.elem_of(e[2][0], L)
        if el is None:
            continue
        C.extents[L] = el[1]
        g, env = closure_env(db, e[2][1], [el[0]])
        if g is None:
            continue
        Rg = X.Rec(g)
        for s_ in X.stores(g, Rg):
            tg = C.canon(_subst(norm(s_['target']), env))
            vl = C.canon(_subst(norm(s_['value']), env))
            out.append(dict(target=tg, value=vl, L=L, extents=el[1], span=s_.get('span'), block=bi, raw=s_))
    return out
