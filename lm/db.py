"""Fact base: typed MIR of every workspace body + tables, with CFG helpers (E1 consumer, E2/E3 basis)."""
import json, os, re, pickle
from collections import defaultdict


def strip_generics(p):
    """Remove `::<...>` and `<...>` generic argument lists from a def path (balanced)."""
    if p is None:
        return None
    out = []
    depth = 0
    i = 0
    n = len(p)
    # keep leading '<T as Trait>' qualified-self syntax: handled by caller via short_q
    while i < n:
        c = p[i]
        if c == '<':
            # drop a preceding '::'
            if depth == 0 and out[-2:] == [':', ':']:
                out.pop(); out.pop()
            depth += 1
        elif c == '>' and i > 0 and p[i - 1] != '-':
            depth -= 1
        elif depth == 0:
            out.append(c)
        i += 1
    return ''.join(out)


_q = re.compile(r'^<(.+) as (.+)>::(.+)$')


def short(p):
    """Canonical short name for matching: generic args removed; `<T as Trait>::m` -> `Trait::m`."""
    if p is None:
        return None
    m = None
    if p.startswith('<'):
        # find matching '>' of the qualified self
        depth = 0
        for i, c in enumerate(p):
            if c == '<':
                depth += 1
            elif c == '>' and p[i - 1] != '-':
                depth -= 1
                if depth == 0:
                    inner = p[1:i]
                    rest = p[i + 1:]
                    # split inner at top-level ' as '
                    d2 = 0
                    for j in range(len(inner)):
                        ch = inner[j]
                        if ch == '<':
                            d2 += 1
                        elif ch == '>' and inner[j - 1] != '-':
                            d2 -= 1
                        elif d2 == 0 and inner.startswith(' as ', j):
                            tr = inner[j + 4:]
                            return strip_generics(tr) + strip_generics(rest)
                    return strip_generics(inner) + strip_generics(rest)
        return p
    return strip_generics(p)


def qself(p):
    """For `<T as Trait>::m` return T (raw), else None."""
    if p and p.startswith('<'):
        depth = 0
        for i, c in enumerate(p):
            if c == '<':
                depth += 1
            elif c == '>' and p[i - 1] != '-':
                depth -= 1
                if depth == 0:
                    inner = p[1:i]
                    d2 = 0
                    for j in range(len(inner)):
                        ch = inner[j]
                        if ch == '<':
                            d2 += 1
                        elif ch == '>' and inner[j - 1] != '-':
                            d2 -= 1
                        elif d2 == 0 and inner.startswith(' as ', j):
                            return inner[:j]
                    return inner
    return None


def self_head(ty):
    """Head ADT path of a type string: strips refs, generics; None for params/projections/primitives."""
    if not ty:
        return None
    t = ty.strip()
    while t.startswith('&'):
        t = t[1:].lstrip()
        if t.startswith("'"):
            t = t.split(' ', 1)[1] if ' ' in t else t
        if t.startswith('mut '):
            t = t[4:]
    if t.startswith('<') or t.startswith('[') or t.startswith('(') or t.startswith('dyn ') or t.startswith('impl '):
        return None
    h = t.split('<', 1)[0]
    return h


_PARAM = re.compile(r'^[A-Z][A-Za-z0-9]*$')


def is_concrete_head(h):
    return not _PARAM.match(h)


class Fn:
    def __init__(self, raw, crate):
        self.raw = raw
        self.crate = crate
        self.path = raw['path']
        self.short = short(self.path)
        self.kind = raw['kind']
        self.blocks = raw['blocks']
        self.locals = raw['locals']
        self.arg_count = raw['arg_count']
        self.span = raw.get('span', '')
        self.name = raw.get('name') or self.path.rsplit('::', 1)[-1]
        self.unsafe = raw.get('unsafe', False)
        self.parent = raw.get('parent')
        self.promoted_of = raw.get('promoted_of')
        self._succ = None
        self._pred = None
        self._dom = None
        self._pdom = None
        self._defs = None
        self._loops = None

    def __repr__(self):
        return f'<Fn {self.path}>'

    # ---- CFG (normal edges only; cleanup blocks ignored)
    def term(self, b):
        return self.blocks[b]['term']

    def succs(self, b):
        if self._succ is None:
            self._succ = []
            for blk in self.blocks:
                t = blk['term']
                k = t['k']
                s = []
                if k == 'goto':
                    s = [t['target']]
                elif k == 'switch':
                    s = [a[1] for a in t['arms']] + [t['otherwise']]
                elif k in ('drop', 'assert'):
                    s = [t['target']]
                elif k == 'call':
                    if 'target' in t:
                        s = [t['target']]
                # dedupe, keep order
                seen = []
                for x in s:
                    if x not in seen:
                        seen.append(x)
                self._succ.append(seen)
        return self._succ[b]

    def preds(self, b):
        if self._pred is None:
            self._pred = [[] for _ in self.blocks]
            for i in range(len(self.blocks)):
                for s in self.succs(i):
                    self._pred[s].append(i)
        return self._pred[b]

    def reachable(self):
        seen = {0}
        st = [0]
        while st:
            b = st.pop()
            for s in self.succs(b):
                if s not in seen:
                    seen.add(s)
                    st.append(s)
        return seen

    def rpo(self):
        seen = set()
        order = []

        def dfs(b):
            stack = [(b, iter(self.succs(b)))]
            seen.add(b)
            while stack:
                node, it = stack[-1]
                adv = False
                for s in it:
                    if s not in seen:
                        seen.add(s)
                        stack.append((s, iter(self.succs(s))))
                        adv = True
                        break
                if not adv:
                    order.append(node)
                    stack.pop()
        dfs(0)
        order.reverse()
        return order

    def dominators(self):
        """dom[b] = set of blocks dominating b (including b)."""
        if self._dom is None:
            order = self.rpo()
            allb = set(order)
            dom = {b: set(allb) for b in order}
            dom[0] = {0}
            changed = True
            while changed:
                changed = False
                for b in order:
                    if b == 0:
                        continue
                    ps = [p for p in self.preds(b) if p in dom]
                    new = set.intersection(*[dom[p] for p in ps]) if ps else set()
                    new = new | {b}
                    if new != dom[b]:
                        dom[b] = new
                        changed = True
            self._dom = dom
        return self._dom

    def dominates(self, a, b):
        d = self.dominators()
        return b in d and a in d[b]

    def exits(self):
        """Blocks ending in return."""
        return [i for i in self.reachable() if self.term(i)['k'] == 'return']

    def postdominators(self):
        """pdom[b] = set of blocks post-dominating b, w.r.t. *return* exits only (diverging paths ignored)."""
        if self._pdom is None:
            reach = self.reachable()
            exits = set(self.exits())
            # blocks that can reach a return
            can = set(exits)
            changed = True
            while changed:
                changed = False
                for b in reach:
                    if b not in can and any(s in can for s in self.succs(b)):
                        can.add(b)
                        changed = True
            pdom = {b: set(can) for b in can}
            for e in exits:
                pdom[e] = {e}
            changed = True
            while changed:
                changed = False
                for b in can:
                    if b in exits:
                        continue
                    ss = [s for s in self.succs(b) if s in can]
                    new = set.intersection(*[pdom[s] for s in ss]) if ss else set()
                    new = new | {b}
                    if new != pdom[b]:
                        pdom[b] = new
                        changed = True
            self._pdom = pdom
        return self._pdom

    def loops(self):
        """Natural loops: list of dict(header, latches, body(set), exits[(from,to)])."""
        if self._loops is None:
            dom = self.dominators()
            by_header = defaultdict(lambda: {'latches': [], 'body': set()})
            for b in dom:
                for s in self.succs(b):
                    if s in dom[b]:  # back edge b -> s
                        L = by_header[s]
                        L['latches'].append(b)
                        body = {s, b}
                        st = [b]
                        while st:
                            x = st.pop()
                            if x == s:
                                continue
                            for p in self.preds(x):
                                if p not in body and p in dom:
                                    body.add(p)
                                    st.append(p)
                        L['body'] |= body
            out = []
            for h, L in by_header.items():
                ex = []
                for b in L['body']:
                    for s in self.succs(b):
                        if s not in L['body']:
                            ex.append((b, s))
                out.append({'header': h, 'latches': L['latches'], 'body': L['body'], 'exits': ex})
            out.sort(key=lambda l: l['header'])
            self._loops = out
        return self._loops

    def reaches(self, a, b, avoid=()):
        """Is there a CFG path from block a to block b (length>=0) avoiding blocks in `avoid`?"""
        if a == b:
            return True
        seen = {a}
        st = [a]
        while st:
            x = st.pop()
            for s in self.succs(x):
                if s in avoid:
                    continue
                if s == b:
                    return True
                if s not in seen:
                    seen.add(s)
                    st.append(s)
        return False

    # ---- definitions
    def defs(self):
        """local -> list of (bb, idx|'term', rv_or_call) for whole-local assignments;
        also self.partial[local] for projected writes and self.borrowed_mut set."""
        if self._defs is None:
            d = defaultdict(list)
            partial = defaultdict(list)
            bm = set()
            for bi, blk in enumerate(self.blocks):
                for si, st in enumerate(blk['stmts']):
                    if st['k'] == 'assign':
                        p = st['p']
                        if not p['pr']:
                            d[p['l']].append((bi, si, st['rv']))
                        elif p['pr'][0] != '*':
                            partial[p['l']].append((bi, si, st))
                        rv = st['rv']
                        if rv['k'] in ('ref', 'rawptr') and rv.get('mut') and '*' not in rv['p']['pr']:
                            bm.add(rv['p']['l'])
                    elif st['k'] == 'setdiscr':
                        partial[st['p']['l']].append((bi, si, st))
                t = blk['term']
                if t['k'] == 'call':
                    p = t['dest']
                    if not p['pr']:
                        d[p['l']].append((bi, 'term', t))
                    elif p['pr'][0] != '*':
                        partial[p['l']].append((bi, 'term', t))
            self._defs = d
            self.partial = partial
            self.borrowed_mut = bm
        return self._defs

    def local_name(self, l):
        return self.locals[l].get('name')

    def local_ty(self, l):
        return self.locals[l]['ty']

    def calls(self):
        for bi, blk in enumerate(self.blocks):
            t = blk['term']
            if t['k'] == 'call':
                yield bi, t

    def callee_short(self, t):
        c = t.get('resolved') or t.get('callee')
        return short(c) if c else None


class DB:
    def __init__(self, factdir):
        self.dir = factdir
        self.crates = {}
        self.fns = {}      # path -> Fn (first wins; promoted included)
        self.by_short = defaultdict(list)
        self.adts = {}
        self.impls = []
        self.layouts = []
        self.layout_grid = []
        self.consts = {}
        self.traits = {}
        pk = os.path.join(factdir, 'db.pickle')
        for f in sorted(os.listdir(factdir)):
            if not f.endswith('.json'):
                continue
            with open(os.path.join(factdir, f)) as fh:
                text = fh.read()
            cr = json.loads(text[:200].split(',')[0] + '}')['crate']
            # local paths are printed `crate::…`; make them uniform with how other crates name them
            raw = json.loads(text.replace('crate::', cr + '::'))
            self.crates[cr] = {k: raw[k] for k in ('is_test', 'overflow_checks', 'debug_assertions')}
            for fr in raw['fns']:
                fn = Fn(fr, cr)
                if fn.path not in self.fns:
                    self.fns[fn.path] = fn
                self.by_short[fn.short].append(fn)
            self.adts.update(raw['adts'])
            for im in raw['impls']:
                im['crate'] = cr
                self.impls.append(im)
            self.layouts.extend(raw['layouts'])
            self.layout_grid.extend(raw.get('layout_grid', []))
            self.consts.update(raw['consts'])
            self.traits.update(raw['traits'])
        self._callers = None
        if not os.environ.get('LM_NO_INLINE'):
            from . import inline
            inline.apply(self)

    def fn(self, path):
        """Exact path, else unique short-name match; KeyError if absent/ambiguous."""
        if path in self.fns:
            return self.fns[path]
        c = self.by_short.get(short(path)) or self.by_short.get(path)
        if c and len(c) == 1:
            return c[0]
        if c:
            raise KeyError(f'ambiguous fn {path}: {[f.path for f in c]}')
        raise KeyError(f'fn not found: {path}')

    def find(self, pattern, crate=None):
        """All fns whose full path matches the regex."""
        r = re.compile(pattern)
        return [f for f in self.fns.values() if r.search(f.path) and (crate is None or f.crate == crate)]

    def closures_of(self, fn):
        extra = getattr(self, 'adopted_closures', {}).get(fn.path, ())
        return [f for f in self.fns.values() if f.kind == 'Closure' and (f.parent == fn.path or f.path in extra) and not f.promoted_of]

    # ---- E2: call graph
    def edges(self, fn):
        """Call edges of one body: list of (callee_path, callee_full or None, resolved: bool)."""
        out = []
        seen = set()

        def add(c, full, res, tr=None):
            if c and (c, full) not in seen:
                seen.add((c, full))
                out.append((c, full, res, tr))

        def from_operand(o):
            k = o.get('k') if isinstance(o, dict) else None
            if k:
                if 'fn' in k:
                    add(k['fn'], k.get('fn_full'), False)
                if 'closure' in k:
                    add(k['closure'], None, True)

        for bi, blk in enumerate(fn.blocks):
            t = blk['term']
            if t['k'] == 'call':
                if t.get('resolved'):
                    add(t['resolved'], t.get('resolved_full'), True, t.get('callee_trait'))
                elif t.get('callee'):
                    add(t['callee'], t.get('callee_full'), False, t.get('callee_trait'))
                for a in t['args']:
                    from_operand(a)
            for st in blk['stmts']:
                if st['k'] != 'assign':
                    continue
                rv = st['rv']
                for key in ('a', 'b'):
                    if isinstance(rv.get(key), dict):
                        from_operand(rv[key])
                if rv['k'] == 'agg':
                    if rv.get('ak') == 'closure':
                        add(rv['closure'], None, True)
                    for o in rv['ops']:
                        from_operand(o)
        return out

    def _impl_index(self):
        if getattr(self, '_impls_by_trait', None) is None:
            d = defaultdict(list)
            by_adt = defaultdict(list)
            for im in self.impls:
                if im.get('trait_def'):
                    d[short(im['trait_def'])].append(im)
                head = self_head(im['self_ty'])
                if head and '::' in head and head.split('::')[0] in self.crates:
                    by_adt[head].append(im)
            self._impls_by_trait = d
            self._impls_by_adt = by_adt
        return self._impls_by_trait, self._impls_by_adt

    def impl_targets(self, trait_method_path, full=None):
        """Workspace bodies a trait-method call may execute. `full` (callee with generic args) narrows by the
        head type of the qualified self when that is a concrete ADT; type parameters / projections fan out."""
        sp = short(trait_method_path)
        if '::' not in sp:
            return []
        tr, mname = sp.rsplit('::', 1)
        by_trait, by_adt = self._impl_index()
        qs = qself(full) if full else None
        head = self_head(qs) if qs else None
        out = []
        for im in by_trait.get(tr, []):
            if mname not in im['items']:
                # inherits the default body
                continue
            ih = self_head(im['self_ty'])
            if head and ih and is_concrete_head(head) and is_concrete_head(ih) and head != ih:
                continue
            p = im['items'][mname]
            if p in self.fns:
                out.append(self.fns[p])
        # default body (used by impls that do not override)
        for f in self.by_short.get(sp, []):
            if f.raw.get('trait_default_of'):
                out.append(f)
        return out

    BASIC_TRAITS = ('core::hash::Hash', 'core::cmp::PartialEq', 'core::cmp::Eq', 'core::cmp::Ord', 'core::cmp::PartialOrd',
                    'core::clone::Clone', 'core::default::Default', 'core::ops::drop::Drop', 'core::fmt::Debug', 'core::fmt::Display',
                    'core::convert::From', 'core::convert::AsRef', 'core::iter::traits::iterator::Iterator',
                    'core::iter::traits::collect::FromIterator', 'core::iter::traits::collect::IntoIterator')

    def callbacks(self, full, trait=None):
        """Workspace trait-impl methods that an *external* generic callee may call back into: for a trait method, the
        impls of the same trait for workspace ADTs mentioned in its generic arguments; for other callees the impls of a
        fixed list of basic traits."""
        if not full or '<' not in full:
            return []
        by_trait, by_adt = self._impl_index()
        traits = (short(trait),) if trait else self.BASIC_TRAITS
        if trait and short(trait) in ('core::convert::Into',):
            traits = ('core::convert::From',)
        if trait and short(trait).startswith('core::iter::traits::'):
            traits = tuple(t for t in self.BASIC_TRAITS if 'iter' in t) + ('core::iter::traits::double_ended::DoubleEndedIterator',
                                                                           'core::iter::traits::exact_size::ExactSizeIterator')
        out = []
        for head, ims in by_adt.items():
            if head in full:
                for im in ims:
                    if not im.get('trait_def') or short(im['trait_def']) not in traits:
                        continue
                    for nm, p in im['items'].items():
                        if p in self.fns:
                            out.append(self.fns[p])
        return out

    def resolve_targets(self, callee_path, full=None, resolved=False, trait=None):
        """Workspace Fn objects a call may execute (polymorphic, conservative)."""
        if callee_path in self.fns:
            f = self.fns[callee_path]
            if f.raw.get('trait_default_of') and not resolved:
                return list({id(x): x for x in [f] + self.impl_targets(callee_path, full)}.values())
            return [f]
        if resolved:
            # resolved to a body outside the workspace: only call-backs into workspace impls
            return self.callbacks(full, trait)
        t = self.impl_targets(callee_path, full)
        cb = self.callbacks(full, trait)
        return list({id(x): x for x in t + cb}.values())

    def reach(self, roots, stop=lambda f: False):
        """Workspace fns reachable from roots through the polymorphic graph; also returns leaf (external) callee paths."""
        seen = {}
        ext = defaultdict(set)
        st = list(roots)
        for r in roots:
            seen[r.path] = r
        while st:
            f = st.pop()
            if stop(f):
                continue
            for c, full, res, tr in self.edges(f):
                ts = self.resolve_targets(c, full, res, tr)
                if c not in self.fns:
                    ext[c].add(f.path)
                for t in ts:
                    if t.path not in seen:
                        seen[t.path] = t
                        st.append(t)
            for cl in self.closures_of(f):
                if cl.path not in seen:
                    seen[cl.path] = cl
                    st.append(cl)
        return seen, ext

    def callers(self, path_short):
        """All (Fn, block, term) calling something whose short name equals path_short."""
        out = []
        for f in self.fns.values():
            if f.promoted_of:
                continue
            for bi, t in f.calls():
                cs = f.callee_short(t)
                c0 = short(t.get('callee')) if t.get('callee') else None
                if cs == path_short or c0 == path_short:
                    out.append((f, bi, t))
        return out


def load(factdir):
    db = _load(factdir)
    from . import expr as _X
    _X.CONST_DB = db
    return db


def _load(factdir):
    # the pickled DB is the fact base *after* load-time normalisation (inlining, jump threading): key it by the code that does that
    import hashlib
    h = hashlib.sha1()
    for src in ('db.py', 'inline.py'):
        with open(os.path.join(os.path.dirname(os.path.abspath(__file__)), src), 'rb') as fh:
            h.update(fh.read())
    pk = os.path.join(factdir, f'db-{h.hexdigest()[:12]}.pickle')
    if os.path.exists(pk):
        try:
            with open(pk, 'rb') as fh:
                return pickle.load(fh)
        except Exception:
            pass
    db = DB(factdir)
    try:
        with open(pk + '.tmp%d' % os.getpid(), 'wb') as fh:
            pickle.dump(db, fh, protocol=pickle.HIGHEST_PROTOCOL)
        os.rename(pk + '.tmp%d' % os.getpid(), pk)
    except Exception:
        pass
    return db
