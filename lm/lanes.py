"""E8/E9 — lane-dependence analysis of the SIMD kernels.

An abstract interpretation of the kernels' MIR over the domain  vector = tuple of byte terms  (where each byte comes
from), with every natural loop evaluated ONCE on symbolic loop-carried values (phi terms) to obtain its per-iteration
transfer (summary).  No concrete data is ever assigned to sequence bytes or scores, no path condition is solved.
The evaluator also logs every memory access (pointer class, linear byte offset, width, alignment requirement) for E9.
"""
import re
from fractions import Fraction
from . import expr as X
from .db import short

VEC_TYPES = {'core::core_arch::x86::__m256i': 32, 'core::core_arch::x86::__m256': 32, 'core::core_arch::x86::__m256d': 32,
             'core::core_arch::x86::__m128i': 16, 'core::core_arch::x86::__m128': 16, 'core::core_arch::x86::__m128d': 16}
# Arm NEON: 128-bit vectors, and the xN tuple structs (modelled as one vector of N*16 bytes: field .k = bytes 16k..16k+16)
_NEON = 'core::core_arch::arm_shared::neon::'
for _t in ('uint8x16_t', 'int8x16_t', 'uint16x8_t', 'int16x8_t', 'uint32x4_t', 'int32x4_t', 'uint64x2_t', 'int64x2_t', 'float32x4_t', 'float64x2_t'):
    VEC_TYPES[_NEON + _t] = 16
    for _n in (2, 3, 4):
        VEC_TYPES[_NEON + _t.replace('_t', f'x{_n}_t')] = 16 * _n
NEON_STRUCTS = {k for k, v in VEC_TYPES.items() if k.startswith(_NEON) and v > 16}
SIZES = {'u8': 1, 'i8': 1, 'bool': 1, 'u16': 2, 'i16': 2, 'u32': 4, 'i32': 4, 'f32': 4, 'u64': 8, 'i64': 8, 'f64': 8, 'usize': 8, 'isize': 8, '()': 1}


class Unsupported(Exception):
    pass


def sizeof(ty):
    ty = ty.strip()
    if ty in SIZES:
        return SIZES[ty]
    if ty in VEC_TYPES:
        return VEC_TYPES[ty]
    if ty.endswith('::Symbol') or ty in ('lightmotif::abc::Nucleotide', 'lightmotif::abc::AminoAcid'):
        return 1  # repr(u8) symbol enums (R5.1 / adts table)
    return None


def pointee(ty):
    ty = ty.strip()
    for p in ('*const ', '*mut ', '&mut ', '&'):
        if ty.startswith(p):
            return ty[len(p):].strip()
    return None


class Vec:
    __slots__ = ('b',)

    def __init__(self, b):
        self.b = tuple(b)

    def __len__(self):
        return len(self.b)

    def __eq__(self, o):
        return isinstance(o, Vec) and self.b == o.b

    def __hash__(self):
        return hash(self.b)

    def __repr__(self):
        return f'Vec{len(self.b)}'


class Ptr:
    __slots__ = ('base', 'off', 'elem', 'subslice_offs')

    def __init__(self, base, off=None, elem=None):
        self.base = base
        self.off = off or {}
        self.elem = elem

    def key(self):
        return (self.base, X.lin_str(self.off))

    def add_bytes(self, l):
        o = dict(self.off)
        for k, v in l.items():
            o[k] = o.get(k, 0) + v
        return Ptr(self.base, {k: v for k, v in o.items() if v != 0}, self.elem)

    def __repr__(self):
        return f'Ptr({show_base(self.base)} + {X.lin_str(self.off)})'

    def __eq__(self, o):
        return isinstance(o, Ptr) and self.key() == o.key()

    def __hash__(self):
        return hash(self.key())


def show_base(b):
    try:
        return X.show(b, 80) if isinstance(b, tuple) and b and isinstance(b[0], str) and b[0] in ('call', 'p', 'v', 'fld', 'idx', 'ref', 'deref', 'k', 'elem') else str(b)
    except Exception:
        return str(b)


# ---------------------------------------------------------------------------
# lane helpers

def lane(v, q, w):
    bs = v.b[q * w:(q + 1) * w]
    if w == 1:
        return bs[0]
    if all(isinstance(x, tuple) and x[0] == 'part' and x[2] == w and x[1] == j for j, x in enumerate(bs)) and len({x[3] for x in bs}) == 1:
        return bs[0][3]
    if all(isinstance(x, tuple) and x[0] in ('phi', 'out', 'havoc') and len(x) == 4 for x in bs) and len({x[:3] for x in bs}) == 1 \
            and bs[0][3] % w == 0 and all(x[3] == bs[0][3] + j for j, x in enumerate(bs)):
        return (bs[0][0] + 'w', bs[0][1], bs[0][2], bs[0][3] // w, w)
    if all(isinstance(x, tuple) and x[0] == 'ld' for x in bs) and len({x[1] for x in bs}) == 1 and all(x[2] == bs[0][2] + j for j, x in enumerate(bs)):
        return ('ldw', bs[0][1], bs[0][2], w)
    if all(x[0] == 'k' for x in bs):
        val = 0
        for j, x in enumerate(bs):
            val |= (x[1] & 0xFF) << (8 * j)
        return ('kw', w, val)
    if all(x == ('k', 0) for x in bs[1:]):
        return ('zext', w, bs[0])
    return ('cat', tuple(bs))


def mk(t, w):
    if w == 1:
        return [t]
    if t[0] == 'kw' and t[1] == w:
        return [('k', (t[2] >> (8 * j)) & 0xFF) for j in range(w)]
    if t[0] == 'zext' and t[1] == w:
        return [t[2]] + [('k', 0)] * (w - 1)
    if t[0] == 'cat' and len(t[1]) == w:
        return list(t[1])
    if t[0] in ('phiw', 'outw', 'havocw') and t[4] == w:
        return [(t[0][:-1], t[1], t[2], t[3] * w + j) for j in range(w)]
    if t[0] == 'ldw' and t[3] == w:
        return [('ld', t[1], t[2] + j) for j in range(w)]
    return [('part', j, w, t) for j in range(w)]


def lanes(v, w):
    return [lane(v, q, w) for q in range(len(v) // w)]


def from_lanes(ts, w):
    out = []
    for t in ts:
        out.extend(mk(t, w))
    return Vec(out)


def is_mask(t):
    return isinstance(t, tuple) and t and t[0] in ('eq', 'gt', 'cmp', 'le', 'mask')


def lanewise(name, w, *vs):
    ls = [lanes(v, w) for v in vs]
    return from_lanes([(name,) + tuple(l[q] for l in ls) for q in range(len(ls[0]))], w)


def bitop(op, a, b):
    """and / or / andnot(a,b) = !a & b, recognising mask selects at the widest lane width that works."""
    n = len(a)
    for w in (8, 4, 2, 1):
        la, lb = lanes(a, w), lanes(b, w)
        out = []
        ok = True
        for x, y in zip(la, lb):
            r = bit_lane(op, x, y, w)
            if r is None:
                ok = False
                break
            out.append(r)
        if ok:
            return from_lanes(out, w)
    return from_lanes([(op, x, y) for x, y in zip(a.b, b.b)], 1)


def zero(t, w):
    return t == ('kw', w, 0) or t == ('k', 0)


def ones(t, w):
    return t == ('kw', w, (1 << (8 * w)) - 1) or (w == 1 and t == ('k', 255))


def bit_lane(op, x, y, w):
    if op == 'and':
        if zero(x, w) or zero(y, w):
            return ('kw', w, 0) if w > 1 else ('k', 0)
        if ones(x, w):
            return y
        if ones(y, w):
            return x
        z_ = ('kw', w, 0) if w > 1 else ('k', 0)
        if is_mask(x) and not is_mask(y):
            return ('select', x[2], z_, y) if x[0] == 'mask' and x[1] == 'not' else ('select', x, y, z_)
        if is_mask(y) and not is_mask(x):
            return ('select', y[2], z_, x) if y[0] == 'mask' and y[1] == 'not' else ('select', y, x, z_)
        if is_mask(x) and is_mask(y):
            return ('mask', 'and', x, y)
        if x == y:
            return x
        return None if w > 1 else ('and', x, y)
    if op == 'andnot':  # !x & y
        if zero(x, w):
            return y
        if zero(y, w) or ones(x, w):
            return ('kw', w, 0) if w > 1 else ('k', 0)
        if is_mask(x) and ones(y, w):
            return ('mask', 'not', x)
        if is_mask(x) and is_mask(y):
            return ('mask', 'andnot', x, y)
        if is_mask(x):
            return ('select', x, ('kw', w, 0) if w > 1 else ('k', 0), y)
        return None if w > 1 else ('andnot', x, y)
    if op == 'or':
        if zero(x, w):
            return y
        if zero(y, w):
            return x
        if x == y:
            return x
        # or(select(m, 0, a), select(m, b, 0)) -> select(m, b, a)
        if isinstance(x, tuple) and isinstance(y, tuple) and x[0] == 'select' and y[0] == 'select' and x[1] == y[1]:
            zx2, zy3 = zero(x[2], w), zero(y[3], w)
            zx3, zy2 = zero(x[3], w), zero(y[2], w)
            if zx2 and zy3:
                return ('select', x[1], y[2], x[3])
            if zx3 and zy2:
                return ('select', x[1], x[2], y[3])
        if is_mask(x) and is_mask(y):
            return ('mask', 'or', x, y)
        return None if w > 1 else ('or', x, y)
    return None


def unpack(a, b, w, hi, half=16):
    """unpacklo/hi of w-byte elements, independently per 128-bit half."""
    out = []
    n = len(a)
    for h in range(n // half):
        A = a.b[h * half:(h + 1) * half]
        B = b.b[h * half:(h + 1) * half]
        start = half // 2 if hi else 0
        for e in range(start // w, (start + half // 2) // w):
            out.extend(A[e * w:(e + 1) * w])
            out.extend(B[e * w:(e + 1) * w])
    return Vec(out)


def perm2x128(a, b, imm):
    def sel(c):
        if c & 8:
            return [('k', 0)] * 16
        src = (a, a, b, b)[c & 3]
        hi = (c & 1)
        return list(src.b[hi * 16:(hi + 1) * 16])
    return Vec(sel(imm & 0xF) + sel((imm >> 4) & 0xF))


def shuffle_epi8(a, ctl):
    out = []
    n = len(a)
    for i in range(n):
        h = i // 16
        c = ctl.b[i]
        if c[0] == 'k':
            if c[1] & 0x80:
                out.append(('k', 0))
            else:
                out.append(a.b[h * 16 + (c[1] & 0x0F)])
        else:
            out.append(('lookup8', tuple(a.b[h * 16:(h + 1) * 16]), c))
    return Vec(out)


# ---------------------------------------------------------------------------

class Loop:
    def __init__(self, header):
        self.header = header
        self.carried = {}     # local -> (kind, value at entry)
        self.update = {}      # local -> value at latch
        self.iter = None      # description of the iteration: ('range', lo, hi) | ('cond', expr) | ('iter', expr)
        self.elem_local = None
        self.opaque = None
        self.inner = []
        self.parent = None
        self.exit_cond = None
        self.conds = []       # [(condition expr, truth on the path that stays in the loop)]


class Access:
    def __init__(self, kind, ptr, width, aligned, name, block, span, value, loops):
        self.kind, self.ptr, self.width, self.aligned, self.name, self.block, self.span, self.value, self.loops = kind, ptr, width, aligned, name, block, span, value, loops


class Eval:
    """Symbolic evaluator of one kernel body."""

    def __init__(self, fn, db=None):
        self.fn = fn
        self.db = db
        self.acc = []          # memory accesses
        self.loops = {}        # header -> Loop
        self.ret = []          # (env snapshot of _0) for each return path
        self.notes = []
        self.local_mem = {}    # (local) -> list of (offset bytes, Vec)  stores into local arrays
        self.calls = []        # (block, callee short, args values, loops)
        self.loop_stack = []
        self.natural = {L['header']: L for L in fn.loops()}
        self.steps = 0

    # ---- values
    def ty(self, l):
        return self.fn.local_ty(l)

    def fresh(self, kind, H, l):
        t = self.ty(l)
        if t in VEC_TYPES:
            return Vec([(kind, H, l, i) for i in range(VEC_TYPES[t])])
        if t.startswith('*const') or t.startswith('*mut'):
            return Ptr((kind, H, l), {}, sizeof(pointee(t)))
        return (kind, H, l)

    def operand(self, env, o):
        if 'c' in o or 'm' in o:
            return self.place(env, o.get('c') or o.get('m'))
        k = o['k']
        v = X.const_value(k)
        if v is not None:
            return ('k', v, k.get('ty'))
        if 'fn' in k:
            return ('fnitem', short(k['fn']), k.get('fn_full'))
        if 'uneval' in k:
            return ('kc', X.short_const(k['uneval']), k.get('ty'))
        return ('kc', k.get('text'), k.get('ty'))

    def place(self, env, p):
        l = p['l']
        v = env.get(l)
        if v is None:
            v = ('p', l) if 1 <= l <= self.fn.arg_count else ('v', l)
        for pr in p['pr']:
            if pr == '*':
                if isinstance(v, Ptr):
                    v = ('memref', v)   # deref of a raw pointer (value read lazily by callers that understand it)
                elif isinstance(v, tuple) and v and v[0] == 'ref':
                    v = v[1]
                else:
                    v = ('deref', v)
            elif 'f' in pr:
                if isinstance(v, Vec) and len(v) > 16 and len(v) % 16 == 0:
                    v = Vec(list(v.b[16 * pr['f']:16 * pr['f'] + 16]))
                elif isinstance(v, tuple):
                    v = X.field(v, pr.get('n', str(pr['f'])), pr['f'])
                else:
                    v = ('fld', ('opaque', repr(v)), pr.get('n', str(pr['f'])))
            elif 'idx' in pr:
                v = ('idx', v, env.get(pr['idx'], ('v', pr['idx'])))
            elif 'cidx' in pr:
                v = ('idx', v, ('k', pr['cidx'], 'usize'))
            elif 'variant' in pr:
                v = ('down', v, pr.get('vn', str(pr['variant'])))
            elif 'sub_from' in pr:
                v = ('sub', v, pr['sub_from'], pr['sub_to'], pr['from_end'])
            else:
                v = ('proj?', v)
        return v

    def rvalue(self, env, rv, dest_ty=None):
        k = rv['k']
        if k == 'use':
            return self.operand(env, rv['a'])
        if k in ('ref', 'rawptr'):
            p = rv['p']
            v = self.place(env, p)
            if isinstance(v, tuple) and v and v[0] == 'memref':
                return v[1]          # &*ptr  ==  ptr
            if not p['pr'] and (self.ty(p['l']).startswith('[') or self.ty(p['l']) in VEC_TYPES):
                return ('reflocal', p['l'])
            if isinstance(v, tuple) and v and v[0] == 'deref':
                return v[1]
            return ('ref', v) if isinstance(v, tuple) else v
        if k == 'cast':
            a = self.operand(env, rv['a'])
            ck = rv['ck']
            ty = rv['ty']
            if isinstance(a, Ptr):
                if ty.startswith('*const') or ty.startswith('*mut'):
                    return Ptr(a.base, a.off, sizeof(pointee(ty)))
                return ('addr', a)
            if isinstance(a, tuple) and a and a[0] == 'reflocal' and (ty.startswith('*') or ty.startswith('&')):
                if ty.startswith('*'):
                    return Ptr(('local', a[1]), {}, sizeof(pointee(ty)) if pointee(ty) and not pointee(ty).startswith('[') else None)
                return a
            if ck in ('IntToInt', 'PtrToPtr', 'Transmute') or ck.startswith('PointerCoercion'):
                if isinstance(a, tuple) and a and a[0] == 'k' and isinstance(a[1], int) and ty in X.INT_TYS:
                    w, s = X.INT_TYS[ty]
                    val = a[1] & ((1 << w) - 1)
                    if s and val >= 1 << (w - 1):
                        val -= 1 << w
                    return ('k', val, ty)
                return a
            return ('cast', a, ty, ck)
        if k == 'bin':
            a, b = self.operand(env, rv['a']), self.operand(env, rv['b'])
            op = rv['op']
            if isinstance(a, tuple) and isinstance(b, tuple) and a and b and a[0] == 'k' and b[0] == 'k' and isinstance(a[1], int) and isinstance(b[1], int) \
                    and not isinstance(a[1], bool) and not isinstance(b[1], bool):
                base = op.replace('WithOverflow', '').replace('Unchecked', '')
                f = {'Add': lambda x, y: x + y, 'Sub': lambda x, y: x - y, 'Mul': lambda x, y: x * y, 'BitAnd': lambda x, y: x & y, 'BitOr': lambda x, y: x | y,
                     'Shl': lambda x, y: x << y, 'Shr': lambda x, y: x >> y}.get(base)
                if f:
                    r = ('k', f(a[1], b[1]), a[2] if len(a) > 2 else None)
                    if op.endswith('WithOverflow'):
                        return ('agg', 'tuple', (r, ('k', False, 'bool')))
                    return r
            if op.endswith('WithOverflow'):
                return ('agg', 'tuple', (('bin', op[:-len('WithOverflow')], a, b), ('k', False, 'bool')))
            return ('bin', op, a, b)
        if k == 'un':
            a = self.operand(env, rv['a'])
            if rv['op'] == 'PtrMetadata':
                return ('len', a)
            if rv['op'] == 'Not' and isinstance(a, tuple) and a[0] == 'k' and isinstance(a[1], bool):
                return ('k', not a[1], 'bool')
            if rv['op'] == 'Neg' and isinstance(a, tuple) and a[0] == 'k' and isinstance(a[1], (int, float)) and not isinstance(a[1], bool):
                return ('k', -a[1], a[2] if len(a) > 2 else None)
            return ('un', rv['op'], a)
        if k == 'discr':
            return ('discr', self.place(env, rv['p']))
        if k == 'agg':
            tag = rv.get('ak')
            if tag == 'adt' and rv.get('adt') in NEON_STRUCTS:
                ops = [self.operand(env, o) for o in rv['ops']]
                if all(isinstance(o, Vec) and len(o) == 16 for o in ops):
                    return Vec([b for o in ops for b in o.b])
                raise Unsupported(f'NEON struct built from non-vector operands')
            if tag == 'adt':
                tag = ('adt', short(rv['adt']), rv['variant'], tuple(rv.get('fields', [])))
            elif tag == 'closure':
                tag = ('closure', rv['closure'])
            return ('agg', tag, tuple(self.operand(env, o) for o in rv['ops']))
        if k == 'repeat':
            return ('repeat', self.operand(env, rv['a']), rv['n'])
        return ('?', k)

    # ---- memory
    def access(self, kind, ptr, width, aligned, name, block, span, value=None):
        self.acc.append(Access(kind, ptr, width, aligned, name, block, span, value, tuple(self.loop_stack)))
        if kind == 'store' and isinstance(ptr, Ptr) and isinstance(ptr.base, tuple) and ptr.base and ptr.base[0] == 'local':
            off = ptr.off.get('', 0) if set(ptr.off) <= {''} else None
            self.local_mem.setdefault(ptr.base[1], []).append((off, value))

    def load(self, ptr, width, aligned, name, block, span):
        self.access('load', ptr, width, aligned, name, block, span)
        if isinstance(ptr, Ptr):
            key = ptr.key()
            return Vec([('ld', key, i) for i in range(width)])
        return Vec([('ld', ('?', repr(ptr)), i) for i in range(width)])

    # ---- intrinsics
    def intrinsic(self, name, t, args, block, gargs):
        span = t['span']
        imm = None
        for g in gargs:
            try:
                imm = int(str(g).split('_')[0].split(':')[0])
            except ValueError:
                pass
        n = name.rsplit('::', 1)[-1]
        W = 32 if n.startswith('_mm256') else 16
        A = args

        def vec(i):
            v = A[i]
            if isinstance(v, Vec):
                return v
            raise Unsupported(f'{n}: argument {i} is not a vector: {v!r}')

        if n in ('_mm256_setzero_si256', '_mm256_setzero_ps', '_mm_setzero_si128', '_mm_setzero_ps'):
            return Vec([('k', 0)] * W)
        if n in ('_mm256_set1_epi8', '_mm_set1_epi8', '_mm256_set1_epi16', '_mm_set1_epi16', '_mm256_set1_epi32', '_mm_set1_epi32', '_mm_set1_ps', '_mm256_set1_ps'):
            w = {'epi8': 1, 'pi16': 2, 'pi32': 4, '1_ps': 4}[n[-4:]]
            a = A[0]
            if isinstance(a, tuple) and a[0] == 'k' and isinstance(a[1], int):
                t0 = ('kw', w, a[1] & ((1 << (8 * w)) - 1)) if w > 1 else ('k', a[1] & 0xFF)
            elif isinstance(a, tuple) and a[0] == 'k' and isinstance(a[1], float):
                t0 = ('kf', a[1])
            else:
                t0 = ('scalar', w, a)
            return from_lanes([t0] * (W // w), w)
        if n == '_mm256_set_epi32':
            ts = []
            for a in reversed(A):
                if not (isinstance(a, tuple) and a[0] == 'k'):
                    raise Unsupported('set_epi32 with non-constant')
                ts.append(('kw', 4, a[1] & 0xFFFFFFFF))
            return from_lanes(ts, 4)
        if n in ('_mm256_load_si256', '_mm256_load_ps', '_mm_load_si128', '_mm_load_ps'):
            return self.load(A[0], W, True, n, block, span)
        if n in ('_mm256_loadu_si256', '_mm256_loadu_ps', '_mm_loadu_si128', '_mm_loadu_ps'):
            return self.load(A[0], W, False, n, block, span)
        if n == '_mm_load1_ps':
            v = self.load(A[0], 4, False, n, block, span)
            return Vec(list(v.b) * 4)
        if n in ('_mm256_stream_si256', '_mm256_stream_ps', '_mm_stream_ps', '_mm_stream_si128', '_mm256_store_si256', '_mm256_store_ps', '_mm_store_ps', '_mm_store_si128'):
            self.access('store', A[0], W, True, n, block, span, vec(1))
            return ('k', 0, '()')
        if n in ('_mm256_storeu_si256', '_mm256_storeu_ps', '_mm_storeu_si128', '_mm_storeu_ps'):
            self.access('store', A[0], W, False, n, block, span, vec(1))
            return ('k', 0, '()')
        if n in ('_mm_sfence',):
            return ('k', 0, '()')
        if n in ('_mm256_castps_si256', '_mm256_castsi256_ps', '_mm_castsi128_ps', '_mm_castps_si128'):
            return vec(0)
        if n == '_mm256_broadcastsi128_si256':
            return Vec(list(vec(0).b) * 2)
        if n in ('_mm256_shuffle_epi8', '_mm_shuffle_epi8'):
            return shuffle_epi8(vec(0), vec(1))
        if n == '_mm256_permutevar8x32_ps':
            tab = tuple(lanes(vec(0), 4))
            return from_lanes([('lookup32', tab, i) for i in lanes(vec(1), 4)], 4)
        if n == '_mm256_i32gather_ps':
            base = A[0]
            key = base.key() if isinstance(base, Ptr) else ('?', repr(base))
            self.access('gather', base, 4, False, n, block, span, ('scale', imm))
            return from_lanes([('gather32', key, imm, i) for i in lanes(vec(1), 4)], 4)
        if n in ('_mm256_permute2f128_ps', '_mm256_permute2x128_si256', '_mm256_permute2f128_si256'):
            if imm is None:
                raise Unsupported(f'{n}: immediate not found')
            return perm2x128(vec(0), vec(1), imm)
        for suf, w in (('epi8', 1), ('epi16', 2), ('epi32', 4), ('epi64', 8)):
            if n in (f'_mm256_unpacklo_{suf}', f'_mm_unpacklo_{suf}'):
                return unpack(vec(0), vec(1), w, False)
            if n in (f'_mm256_unpackhi_{suf}', f'_mm_unpackhi_{suf}'):
                return unpack(vec(0), vec(1), w, True)
        if n in ('_mm256_add_ps', '_mm_add_ps'):
            return lanewise('add_f32', 4, vec(0), vec(1))
        if n in ('_mm256_max_ps', '_mm_max_ps'):
            return lanewise('max_f32', 4, vec(0), vec(1))
        if n in ('_mm256_adds_epu8', '_mm_adds_epu8'):
            return lanewise('adds_u8', 1, vec(0), vec(1))
        if n in ('_mm256_add_epi8', '_mm_add_epi8'):
            return lanewise('add_wrap8', 1, vec(0), vec(1))
        if n in ('_mm256_max_epu8', '_mm_max_epu8'):
            return lanewise('max_u8', 1, vec(0), vec(1))
        if n in ('_mm256_max_epi8',):
            return lanewise('max_i8', 1, vec(0), vec(1))
        if n in ('_mm256_sub_epi16', '_mm_sub_epi16'):
            return lanewise('sub_i16', 2, vec(0), vec(1))
        if n in ('_mm256_cmpgt_epi16', '_mm_cmpgt_epi16'):
            return lanewise('gt', 2, vec(0), vec(1))
        if n in ('_mm256_cmpeq_epi8', '_mm_cmpeq_epi8'):
            return lanewise('eq', 1, vec(0), vec(1))
        if n in ('_mm256_cmpeq_epi32', '_mm_cmpeq_epi32'):
            return lanewise('eq', 4, vec(0), vec(1))
        if n == '_mm256_cmp_ps':
            c = imm if imm is not None else (A[2][1] if len(A) > 2 and isinstance(A[2], tuple) else None)
            la, lb = lanes(vec(0), 4), lanes(vec(1), 4)
            return from_lanes([('cmp', c, x, y) for x, y in zip(la, lb)], 4)
        if n == '_mm_cmple_ps':
            la, lb = lanes(vec(0), 4), lanes(vec(1), 4)
            return from_lanes([('cmp', 2, x, y) for x, y in zip(la, lb)], 4)   # 2 = _CMP_LE_OS
        if n in ('_mm256_and_si256', '_mm_and_si128', '_mm256_and_ps', '_mm_and_ps'):
            return bitop('and', vec(0), vec(1))
        if n in ('_mm256_or_si256', '_mm_or_si128', '_mm256_or_ps', '_mm_or_ps'):
            return bitop('or', vec(0), vec(1))
        if n in ('_mm256_andnot_si256', '_mm_andnot_si128', '_mm256_andnot_ps', '_mm_andnot_ps'):
            return bitop('andnot', vec(0), vec(1))
        if n in ('_mm256_blendv_epi8', '_mm_blendv_epi8'):
            a, b, mk_ = vec(0), vec(1), vec(2)
            for w in (8, 4, 2, 1):
                lm = lanes(mk_, w)
                if all(is_mask(x) for x in lm):
                    la, lb = lanes(a, w), lanes(b, w)
                    return from_lanes([('select', mm, y, x) for mm, x, y in zip(lm, la, lb)], w)
            return from_lanes([('selb', mm, y, x) for mm, x, y in zip(mk_.b, a.b, b.b)], 1)
        if n in ('_mm256_blendv_ps', '_mm_blendv_ps'):
            la, lb, lm = lanes(vec(0), 4), lanes(vec(1), 4), lanes(vec(2), 4)
            return from_lanes([('select', mm if is_mask(mm) else ('signbit', mm), y, x) for mm, x, y in zip(lm, la, lb)], 4)
        if n in ('_mm256_testz_si256', '_mm_testz_si128'):
            return ('testz', vec(0), vec(1))
        if n in ('_mm256_movemask_epi8', '_mm_movemask_epi8'):
            return ('movemask', vec(0))
        raise Unsupported(f'intrinsic without a transfer function: {n}')


    # ---- Arm NEON intrinsics (transcribed from the Arm ACLE pseudocode; all vectors are 16 bytes, little-endian lanes)
    def neon(self, name, t, args, block, gargs):
        span = t['span']
        n = name.rsplit('::', 1)[-1]
        A = args
        imm = None
        for g in gargs:
            try:
                imm = int(str(g).split('_')[0].split(':')[0])
            except ValueError:
                pass

        def vec(i, size=16):
            v = A[i]
            if isinstance(v, Vec) and len(v) == size:
                return v
            raise Unsupported(f'{n}: argument {i} is not a {size}-byte vector: {v!r}')
        suf = n.rsplit('_', 1)[-1] if '_' in n else ''
        W = {'u8': 1, 's8': 1, 'u16': 2, 's16': 2, 'u32': 4, 's32': 4, 'f32': 4, 'u64': 8, 's64': 8, 'f64': 8}
        if n.startswith('vdupq_n_') or n.startswith('vmovq_n_'):
            w = W[suf]
            a = A[0]
            if isinstance(a, tuple) and a[0] == 'k' and isinstance(a[1], int) and not isinstance(a[1], bool):
                t0 = ('kw', w, a[1] & ((1 << (8 * w)) - 1)) if w > 1 else ('k', a[1] & 0xFF)
            elif isinstance(a, tuple) and a[0] == 'k' and isinstance(a[1], float):
                t0 = ('kf', a[1]) if a[1] != 0.0 else ('kw', 4, 0)
            else:
                t0 = ('scalar', w, a)
            return from_lanes([t0] * (16 // w), w)
        if n.startswith('vreinterpretq_'):
            return vec(0)
        m_ = re.fullmatch(r'vld1q_(u8|s8|u16|s16|u32|s32|f32|u64|s64)(_x([234]))?', n)
        if m_:
            k = int(m_.group(3) or 1)
            return self.load(A[0], 16 * k, False, n, block, span)
        m_ = re.fullmatch(r'vst1q_(u8|s8|u16|s16|u32|s32|f32|u64|s64)(_x([234]))?', n)
        if m_:
            k = int(m_.group(3) or 1)
            self.access('store', A[0], 16 * k, False, n, block, span, vec(1, 16 * k))
            return ('k', 0, '()')
        m_ = re.fullmatch(r'vld1q_dup_(u8|u16|u32|f32|s32)', n)
        if m_:
            w = W[m_.group(1)]
            v = self.load(A[0], w, False, n, block, span)
            return Vec(list(v.b) * (16 // w))
        m_ = re.fullmatch(r'vzipq_(u8|s8|u16|u32)', n)
        if m_:
            # result.val[0] = interleave of the low halves, result.val[1] = interleave of the high halves (ZIP1 / ZIP2)
            w = W[m_.group(1)]
            lo = unpack(vec(0), vec(1), w, False)
            hi = unpack(vec(0), vec(1), w, True)
            return Vec(list(lo.b) + list(hi.b))
        m_ = re.fullmatch(r'vzip([12])q_(u8|s8|u16|u32)', n)
        if m_:
            return unpack(vec(0), vec(1), W[m_.group(2)], m_.group(1) == '2')
        m_ = re.fullmatch(r'vceqq_(u8|s8|u16|u32|s32)', n)
        if m_:
            return lanewise('eq', W[m_.group(1)], vec(0), vec(1))
        if n == 'vaddq_f32':
            return lanewise('add_f32', 4, vec(0), vec(1))
        if n == 'vmaxq_f32':
            return lanewise('max_f32', 4, vec(0), vec(1))
        if n == 'vqaddq_u8':
            return lanewise('adds_u8', 1, vec(0), vec(1))
        if n in ('vaddq_u8', 'vaddq_s8'):
            return lanewise('add_wrap8', 1, vec(0), vec(1))
        if n == 'vmaxq_u8':
            return lanewise('max_u8', 1, vec(0), vec(1))
        if re.fullmatch(r'vandq_(u8|u16|u32|u64|s8|s16|s32|s64)', n):
            return bitop('and', vec(0), vec(1))
        if re.fullmatch(r'vorrq_(u8|u16|u32|u64|s8|s16|s32|s64)', n):
            return bitop('or', vec(0), vec(1))
        if re.fullmatch(r'vbicq_(u8|u16|u32|u64)', n):
            return bitop('andnot', vec(1), vec(0))          # a & !b
        if re.fullmatch(r'vmvnq_(u8|u16|u32|s8|s16|s32)', n):
            return bitop('andnot', vec(0), Vec([('k', 0xFF)] * 16))   # !a & 0xFF.. = bitwise not
        if re.fullmatch(r'vbslq_(u8|u16|u32|u64|s8|f32)', n):
            # bitwise select: (mask & a) | (!mask & b); with lane masks this is a lane select
            mk_, a, b = vec(0), vec(1), vec(2)
            for w in (8, 4, 2, 1):
                lm = lanes(mk_, w)
                if all(is_mask(x) for x in lm):
                    la, lb = lanes(a, w), lanes(b, w)
                    return from_lanes([('select', mm, x, y) for mm, x, y in zip(lm, la, lb)], w)
            return from_lanes([('selb', mm, x, y) for mm, x, y in zip(mk_.b, a.b, b.b)], 1)
        if n == 'vqtbl1q_u8':
            # out[i] = idx[i] < 16 ? table[idx[i]] : 0   (TBL, one table register)
            tab = tuple(vec(0).b)
            return Vec([('tbl16', tab, i) for i in vec(1).b])
        m_ = re.fullmatch(r'vgetq_lane_(u64|u32|u8)', n)
        if m_:
            w = W[m_.group(1)]
            lane_i = imm if imm is not None else (A[1][1] if len(A) > 1 and isinstance(A[1], tuple) and A[1][0] == 'k' else None)
            if lane_i is None:
                raise Unsupported(f'{n}: lane index not found')
            return ('getlane', w, lane_i, lanes(vec(0), w)[lane_i])
        raise Unsupported(f'NEON intrinsic without a transfer function: {n}')

    # ---- calls
    def call(self, env, t, block):
        c = short(t.get('resolved') or t.get('callee') or '')
        args = [self.operand(env, a) for a in t['args']]
        dty = self.ty(t['dest']['l']) if not t['dest']['pr'] else ''
        self.calls.append((block, c, args, tuple(self.loop_stack), t))
        if c.startswith('core::core_arch::') and '::_mm' in c:
            full = t.get('resolved_full') or t.get('callee_full') or ''
            return self.intrinsic(c, t, args, block, t.get('gargs', []))
        if c.startswith('core::core_arch::') and '::neon::' in c:
            return self.neon(c, t, args, block, t.get('gargs', []))
        last = c.rsplit('::', 1)[-1]
        if c in ('core::ptr::const_ptr::add', 'core::ptr::mut_ptr::add', 'core::ptr::const_ptr::offset', 'core::ptr::mut_ptr::offset') and isinstance(args[0], Ptr):
            p = args[0]
            n = args[1]
            if p.elem is None:
                raise Unsupported(f'pointer arithmetic on a pointer with unknown element size: {p}')
            l = index_linear(n) if isinstance(n, tuple) else {repr(n): Fraction(1)}
            return p.add_bytes({k: v * p.elem for k, v in l.items()})
        if c in ('core::ptr::const_ptr::cast', 'core::ptr::mut_ptr::cast', 'core::ptr::const_ptr::cast_mut', 'core::ptr::mut_ptr::cast_const') and isinstance(args[0], Ptr):
            # `p.cast::<U>()` is `p as *const U`: same address, the element size of the new pointee
            return Ptr(args[0].base, args[0].off, sizeof(pointee(dty)) if pointee(dty) else args[0].elem)
        if last in ('as_ptr', 'as_mut_ptr') and c.startswith(('core::slice', 'generic_array', 'alloc::vec')):
            a = args[0]
            el = sizeof(pointee(dty)) if pointee(dty) else None
            if isinstance(a, tuple) and a and a[0] == 'reflocal':
                return Ptr(('local', a[1]), {}, el)
            if isinstance(a, tuple) and a and a[0] == 'sublocal':
                return Ptr(('local', a[1]), {'': Fraction(a[2] * (el or 1))}, el)
            if isinstance(a, tuple) and a and a[0] == 'sublocalx' and el:
                l_ = index_linear(a[2]) if isinstance(a[2], tuple) else {repr(a[2]): Fraction(1)}
                return Ptr(('local', a[1]), {}, el).add_bytes({k_: v_ * el for k_, v_ in l_.items()})
            # `row[off..].as_ptr()` with `row` a row of a matrix: the row's own pointer, `off` elements further (a range-indexed sub-slice of
            # a parameter slice is left to the rules, which also need the facts its index expression carries)
            sa = strip(a)
            offs, inner = [], sa

            def _range_kind(r):
                return r[1][2] if isinstance(r, tuple) and len(r) == 3 and r[0] == 'agg' and isinstance(r[1], tuple) and len(r[1]) > 2 and str(r[1][1]).startswith('core::ops::range::') else None
            while isinstance(inner, tuple) and len(inner) == 3 and inner[0] == 'call' and inner[1].endswith(('::index', '::index_mut')) and len(inner[2]) == 2 \
                    and _range_kind(strip(inner[2][1])) in ('RangeFrom', 'Range', 'RangeTo', 'RangeFull'):
                r = strip(inner[2][1])
                if _range_kind(r) in ('RangeFrom', 'Range'):
                    offs.append(r[2][0])
                inner = strip(inner[2][0])
            # (sub-slices of a parameter slice, directly or through split_at, stay symbolic: see rules/kernels.subslice_view)
            param_rooted = isinstance(inner, tuple) and inner and (inner[0] == 'p' or (inner[0] == 'fld' and isinstance(inner[1], tuple) and inner[1] and inner[1][0] == 'call'
                                                                    and str(inner[1][1]).endswith(('split_at', 'split_at_mut'))))
            if offs and el and not param_rooted:
                p_ = Ptr(('slice', inner), {}, el)
                for o_ in offs:
                    l_ = index_linear(o_) if isinstance(o_, tuple) else {repr(o_): Fraction(1)}
                    p_ = p_.add_bytes({k_: v_ * el for k_, v_ in l_.items()})
                return p_
            return Ptr(('slice', sa), {}, el)
        if last in ('index', 'index_mut') and isinstance(args[0], tuple) and args[0] and args[0][0] == 'reflocal':
            r = args[1]
            if isinstance(r, tuple) and r[0] == 'agg' and isinstance(r[1], tuple) and r[1][1].endswith('RangeFrom') and r[2][0][0] == 'k':
                return ('sublocal', args[0][1], r[2][0][1])
            if isinstance(r, tuple) and r[0] == 'agg' and isinstance(r[1], tuple) and r[1][1].endswith('RangeFrom') and len(r[2]) == 1:
                return ('sublocalx', args[0][1], r[2][0])       # local[expr..]
            return ('idxlocal', args[0][1], r)
        if c.endswith('Unsigned::to_usize') or c == 'lightmotif::dense::DenseMatrix::columns':
            kc = X.const_call(c, t.get('resolved_full') or t.get('callee_full') or '')
            if kc is not None:
                return kc
        if c == 'core::mem::size_of':
            full = t.get('callee_full') or ''
            if '::<' in full:
                s = sizeof(full[full.index('::<') + 3:-1])
                if s is not None:
                    return ('k', s, 'usize')
        if dty in VEC_TYPES:
            raise Unsupported(f'vector returned by a non-intrinsic call {c}')
        if dty.startswith('*const') or dty.startswith('*mut'):
            return Ptr(('call', c, tuple(strip(a) for a in args)), {}, sizeof(pointee(dty)))
        return ('call', c, tuple(strip(a) for a in args))

    # ---- control
    def run(self):
        env = {}
        self.walk(0, env, None, 0)
        return self

    def walk(self, b, env, stop_at, depth):
        """Execute from block b; stop when reaching `stop_at` (loop header, when closing a back edge)."""
        fn = self.fn
        while True:
            self.steps += 1
            if self.steps > 20000:
                raise Unsupported('evaluation budget exceeded')
            if b == stop_at:
                return ('latch', env)
            if b in self.natural and (not self.loop_stack or self.loop_stack[-1] != b):
                b, env = self.do_loop(b, env, depth)
                if b is None:
                    return ('end', env)
                continue
            blk = fn.blocks[b]
            for st in blk['stmts']:
                if st['k'] == 'assign':
                    p = st['p']
                    v = self.rvalue(env, st['rv'])
                    self.assign(env, p, v, b, st.get('span'))
            t = blk['term']
            k = t['k']
            if k == 'return':
                self.ret.append(env.get(0))
                return ('return', env)
            if k == 'unreachable':
                return ('diverge', env)
            if k == 'goto':
                b = t['target']
            elif k in ('drop',):
                b = t['target']
            elif k == 'assert':
                b = t['target']
            elif k == 'call':
                try:
                    v = self.call(env, t, b)
                except Unsupported:
                    raise
                self.assign(env, t['dest'], v, b, t.get('span'))
                if 'target' not in t:
                    return ('diverge', env)
                b = t['target']
            elif k == 'switch':
                d = self.operand(env, t['discr'])
                nxt = self.choose(b, t, d, env)
                if nxt is None:
                    return ('fork', env)
                b = nxt
            else:
                raise Unsupported(f'terminator {k}')

    def assign(self, env, p, v, block, span):
        if not p['pr']:
            env[p['l']] = v
            return
        # store through a projection
        base = env.get(p['l'])
        if isinstance(base, Vec) and len(base) > 16 and len(p['pr']) == 1 and isinstance(p['pr'][0], dict) and 'f' in p['pr'][0] and isinstance(v, Vec) and len(v) == 16:
            k = p['pr'][0]['f']
            nb = list(base.b)
            nb[16 * k:16 * k + 16] = list(v.b)
            env[p['l']] = Vec(nb)
            return
        if p['pr'] == ['*'] and isinstance(base, Ptr):
            w = len(v) if isinstance(v, Vec) else (base.elem or 0)
            self.access('store', base, w, False, 'deref-store', block, span, v)
            return
        tgt = self.place(env, {'l': p['l'], 'pr': p['pr']})
        self.acc.append(Access('scalar-store', tgt, 0, False, 'assign', block, span, v, tuple(self.loop_stack)))
        # field updates of local aggregates: keep coarse
        if isinstance(base, tuple) or base is None:
            env[p['l']] = ('upd', base, str(p['pr']), v if isinstance(v, tuple) else repr(v))

    def diverges(self, b):
        from . import guards as G
        return G.diverges(self.fn, b)

    def choose(self, b, t, d, env):
        """Pick the successor of a switch during straight-line evaluation."""
        fn = self.fn
        targets = [(int(v), tg) for v, tg in t['arms']]
        # constant discriminant
        if isinstance(d, tuple) and d and d[0] == 'k' and isinstance(d[1], (int, bool)):
            val = int(d[1])
            for v, tg in targets:
                if v == val:
                    return tg
            return t['otherwise']
        alive = [tg for tg in dict.fromkeys([tg for _, tg in targets] + [t['otherwise']]) if not self.diverges(tg)]
        if len(alive) == 1:
            return alive[0]
        # inside a loop: an edge leaving the loop body is the loop's exit
        if self.loop_stack:
            H = self.loop_stack[-1]
            body = self.natural[H]['body']
            inside = [tg for tg in alive if tg in body]
            outside = [tg for tg in alive if tg not in body]
            if len(inside) == 1 and outside:
                L = self.loops[H]
                if L.exit_cond is None:
                    L.exit_cond = (d, b, outside)
                zero_arm = [tg for v, tg in targets if v == 0]
                truth = not (zero_arm and zero_arm[0] == inside[0])
                L.conds.append((d, truth))
                return inside[0]
        self.notes.append(f'bb{b}: symbolic branch on {X.show(d, 80) if isinstance(d, tuple) else d!r} with {len(alive)} live successors')
        # record a fork: evaluate each alternative independently (only outside loops)
        if not self.loop_stack:
            for tg in alive:
                sub = dict(env)
                self.walk(tg, sub, None, 0)
            return None
        raise Unsupported(f'data-dependent branch inside a loop at bb{b}')

    def do_loop(self, H, env, depth):
        fn = self.fn
        nat = self.natural[H]
        body = nat['body']
        L = Loop(H)
        L.parent = self.loop_stack[-1] if self.loop_stack else None
        self.loops[H] = L
        if L.parent is not None:
            self.loops[L.parent].inner.append(H)
        # carried locals: assigned (whole) inside the body and defined before
        assigned = set()
        for bb in body:
            for st in fn.blocks[bb]['stmts']:
                if st['k'] == 'assign':
                    assigned.add(st['p']['l'])
            t = fn.blocks[bb]['term']
            if t['k'] == 'call':
                assigned.add(t['dest']['l'])
        carried = [l for l in sorted(assigned) if l in env]
        entry = dict(env)
        for l in carried:
            L.carried[l] = entry[l]
            env[l] = self.fresh('phi', H, l)
        # iteration driver
        self.loop_stack.append(H)
        try:
            res = self.walk_body(H, env, L)
        except Unsupported as e:
            self.loop_stack.pop()
            L.opaque = str(e)
            self.notes.append(f'loop bb{H}: opaque ({e})')
            out = dict(entry)
            for l in assigned:
                out[l] = self.fresh('havoc', H, l)
            exits = [tg for _, tg in nat['exits']]
            exits = [e for e in dict.fromkeys(exits) if not self.diverges(e)]
            return (exits[0] if exits else None), out
        self.loop_stack.pop()
        kind, env_l = res
        for l in carried:
            L.update[l] = env_l.get(l)
        # continue after the loop
        out = dict(entry)
        for l in assigned:
            out[l] = self.fresh('out', H, l)
        # locals defined in the body before the exit test (e.g. the Option returned by next()) are dead after the loop
        if L.exit_cond is None:
            exits = [e for e in dict.fromkeys(tg for _, tg in nat['exits']) if not self.diverges(e)]
            return (exits[0] if exits else None), out
        return L.exit_cond[2][0], out

    def walk_body(self, H, env, L):
        """One symbolic pass over the loop body: header -> ... -> back edge to header."""
        fn = self.fn
        # first step: execute the header block itself (walk() would otherwise treat H as a loop again)
        b = H
        first = True
        while True:
            self.steps += 1
            if self.steps > 20000:
                raise Unsupported('evaluation budget exceeded')
            if b == H and not first:
                return ('latch', env)
            first = False
            if b in self.natural and b != H:
                b, env = self.do_loop(b, env, 0)
                if b is None:
                    raise Unsupported('inner loop without exit')
                continue
            blk = fn.blocks[b]
            for st in blk['stmts']:
                if st['k'] == 'assign':
                    self.assign(env, st['p'], self.rvalue(env, st['rv']), b, st.get('span'))
            t = blk['term']
            k = t['k']
            if k in ('goto', 'drop', 'assert'):
                b = t['target']
            elif k == 'call':
                c = short(t.get('resolved') or t.get('callee') or '')
                args = [self.operand(env, a) for a in t['args']]
                if c.endswith('::next') and ('iter' in c or 'Iterator' in c) and L.iter is None:
                    # the loop driver: it.next()
                    src = args[0]
                    it = self.iter_source(env, src, L)
                    L.iter = it
                    v = ('next', it, H)
                    self.calls.append((b, c, args, tuple(self.loop_stack), t))
                else:
                    v = self.call(env, t, b)
                self.assign(env, t['dest'], v, b, t.get('span'))
                if 'target' not in t:
                    raise Unsupported('diverging call on the loop path')
                b = t['target']
            elif k == 'switch':
                d = self.operand(env, t['discr'])
                if isinstance(d, tuple) and d[0] == 'discr' and isinstance(d[1], tuple) and d[1][0] == 'next' and d[1][2] == H:
                    # Some -> body, None -> exit
                    some = [tg for v, tg in t['arms'] if int(v) == 1]
                    none = [tg for v, tg in t['arms'] if int(v) == 0]
                    L.exit_cond = (d, b, none)
                    b = some[0]
                    continue
                nxt = self.choose(b, t, d, env)
                if nxt is None:
                    raise Unsupported('fork inside loop')
                b = nxt
            elif k in ('return', 'unreachable'):
                raise Unsupported('loop body path leaves the function')
            else:
                raise Unsupported(f'terminator {k}')

    def iter_source(self, env, src, L):
        """Describe the iterator driving a for loop: returns ('range', lo, hi) or ('iter', value)."""
        v = src
        if isinstance(v, tuple) and v and v[0] == 'reflocal':
            v = L.carried.get(v[1], env.get(v[1]))
        elif isinstance(v, tuple) and v and v[0] == 'ref':
            v = v[1]
        if isinstance(v, tuple) and v and v[0] == 'phi':
            v = L.carried.get(v[2])
        while isinstance(v, tuple) and v and v[0] == 'call' and v[1].endswith('into_iter') and len(v[2]) == 1:
            v = v[2][0]
        if isinstance(v, tuple) and v and v[0] == 'agg' and isinstance(v[1], tuple) and v[1][1].endswith('::Range'):
            return ('range', v[2][0], v[2][1])
        return ('iter', v)


def strip(a):
    """Make an evaluator value hashable/printable as an expression."""
    if isinstance(a, Ptr):
        return ('ptr', a.base, X.lin_str(a.off))
    if isinstance(a, Vec):
        return ('vec', len(a))
    return a


def loop_index(x):
    """x is the index variable of a loop: ('elem', ('range', lo, hi), H)  or the counter of `.enumerate()`: returns (H, lo) or None."""
    while isinstance(x, tuple) and x and x[0] == 'cast' and x[3] in ('IntToInt',):
        x = x[1]
    if isinstance(x, tuple) and len(x) == 3 and x[0] == 'elem' and isinstance(x[1], tuple) and x[1] and x[1][0] == 'range':
        return x[2], x[1][1]
    if isinstance(x, tuple) and len(x) == 3 and x[0] == 'fld' and str(x[2]) == '0' and isinstance(x[1], tuple) and x[1] and x[1][0] == 'elem' \
            and isinstance(x[1][1], tuple) and x[1][1][0] == 'iter' and isinstance(x[1][1][1], tuple) and x[1][1][1][0] == 'call' and x[1][1][1][1].endswith('Iterator::enumerate'):
        return x[1][2], ('k', 0, 'usize')
    return None


def mentions_loop_values(e):
    return any(isinstance(x, tuple) and x and x[0] in ('elem', 'phi', 'phiw', 'out', 'outw', 'havoc') for x in X.walk(e)) if isinstance(e, tuple) else False


def index_linear(n):
    """Linear form of a pointer offset expression.  A product `j * s` of a loop index j (range element / enumerate counter) and a
    loop-invariant s (a row stride) is kept *structured* as the atom `it#<H>*<atom of s>` = (iteration number of loop H) x s, so that
    `base.add(j * stride)` and a pointer bumped by `stride` once per iteration of H describe the same address."""
    if isinstance(n, tuple) and n and n[0] == 'bin' and n[1] in ('Add', 'AddUnchecked'):
        a, b = index_linear(n[2]), index_linear(n[3])
        o = dict(a)
        for k, v in b.items():
            o[k] = o.get(k, 0) + v
        return {k: v for k, v in o.items() if v != 0}
    if isinstance(n, tuple) and n and n[0] == 'bin' and n[1] in ('Mul', 'MulUnchecked'):
        for x, y in ((n[2], n[3]), (n[3], n[2])):
            ix = loop_index(x)
            if ix is not None and isinstance(y, tuple) and not mentions_loop_values(y):
                H, lo = ix
                ly = X.lin(y)
                if set(ly) <= {''}:
                    break            # constant multiple of the index: ordinary linear term
                o = {}
                for k, v in ly.items():
                    if k == '':
                        continue
                    o[f'it#{H}*{k}'] = v
                llo = X.lin(lo) if isinstance(lo, tuple) else {'': Fraction(0)}
                if any(v != 0 for v in llo.values()):
                    # (lo + it) * s = it*s + lo*s : keep the loop-invariant part as an ordinary product atom
                    for k, v in X.lin(('bin', 'Mul', lo, y)).items():
                        o[k] = o.get(k, 0) + v
                if ly.get('', 0):
                    for k, v in X.lin(x).items():
                        o[k] = o.get(k, 0) + v * ly['']
                return o
    return X.lin(n)


def is_elem(v, H):
    """Is v the element bound by `Some(x)` of loop H's driver?"""
    return isinstance(v, tuple) and len(v) == 3 and v[0] == 'elem' and v[2] == H
