"""Backward provenance slice of a value inside one function body (flow-insensitive over defs, so an over-approximation of what may
flow into the value): the set of leaf expressions — parameter/field reads and calls — reached from an operand through every definition
of every local on the way.  Used for "this cached field is derived only from its own object's data" style rules."""
from . import expr as X
from .match import norm

BORROW_SUFFIXES = ('Bound::borrow', 'Bound::borrow_mut', 'Deref::deref', 'DerefMut::deref_mut', 'Option::as_ref', 'Option::as_mut',
                   'Py::borrow', 'Py::borrow_mut', 'Py::bind', 'Bound::as_ref', 'Clone::clone', 'Py::clone_ref', 'Bound::get', 'Py::get')


def strip_borrow(e):
    """Normalised expression with pyo3 borrow/deref wrappers and clones removed (the object they give access to)."""
    e = norm(e, clone_transparent=True)
    while True:
        if e[0] == 'call' and e[2] and e[1].endswith(BORROW_SUFFIXES):
            e = norm(e[2][0], clone_transparent=True)
            continue
        return e


def root_of(e):
    """Object root of a place-like expression: strips fields / indices / borrows down to ('p', i) or ('v', l) or a call."""
    e = strip_borrow(e)
    for _ in range(40):
        if e[0] in ('fld', 'idx', 'down'):
            e = strip_borrow(e[1])
        else:
            return e
    return e


def resolve_root(f, R, e):
    """root_of, additionally following single-definition locals that merely hold a borrow / copy of another object."""
    defs = f.defs()
    e = root_of(e)
    for _ in range(20):
        if e[0] != 'v':
            return e
        d = defs.get(e[1], [])
        if len(d) != 1:
            return e
        bi, si, x = d[0]
        try:
            de = norm(R.call(x) if si == 'term' else R.rvalue(x), clone_transparent=True)
        except Exception:
            return e
        if de[0] == 'call' and not (de[2] and de[1].endswith(BORROW_SUFFIXES)):
            return e
        if de[0] not in ('call', 'fld', 'idx', 'down', 'p', 'v'):
            return e
        ne = root_of(de)
        if ne == e:
            return e
        e = ne
    return e


def field_reads(f, R, start):
    """All (root, field-name, expr) field reads that may flow into expression `start` (through any def of any local)."""
    out = []
    seen_locals = set()
    work = [norm(start, clone_transparent=True)]
    defs = f.defs()
    n = 0
    while work and n < 4000:
        n += 1
        e = work.pop()
        for x in X.walk(e):
            if x[0] == 'fld' and isinstance(x[2], str) and not x[2].isdigit():
                out.append((resolve_root(f, R, x[1]), x[2], x))
            if x[0] == 'v' and x[1] not in seen_locals:
                seen_locals.add(x[1])
                for bi, si, d in defs.get(x[1], []):
                    try:
                        de = R.call(d) if si == 'term' else R.rvalue(d)
                    except Exception:
                        continue
                    work.append(norm(de, clone_transparent=True))
                for bi, si, st in f.partial.get(x[1], []) if hasattr(f, 'partial') and f.partial else []:
                    if st.get('k') == 'assign':
                        try:
                            work.append(norm(R.rvalue(st['rv']), clone_transparent=True))
                        except Exception:
                            pass
    return out, seen_locals


def calls_in(f, R, start):
    """Callee names that may contribute to expression `start`."""
    out = set()
    seen = set()
    work = [norm(start, clone_transparent=True)]
    defs = f.defs()
    while work:
        e = work.pop()
        for x in X.walk(e):
            if x[0] == 'call':
                out.add(x[1])
            if x[0] == 'v' and x[1] not in seen:
                seen.add(x[1])
                for bi, si, d in defs.get(x[1], []):
                    try:
                        work.append(norm(R.call(d) if si == 'term' else R.rvalue(d), clone_transparent=True))
                    except Exception:
                        pass
    return out


def top_producers(f, R, e, _seen=None):
    """What the value *is* (not what it was computed from): the set of outermost producers after stripping borrows / clones / identity
    conversions — ('call', name) for a call result, ('place', expr) for a parameter or a field of an existing object, ('other', expr)."""
    _seen = _seen if _seen is not None else set()
    e = strip_borrow(e)
    while e[0] == 'call' and e[2] and e[1].endswith(('Into::into', 'From::from')) and len(e[2]) == 1:
        # conversion wrappers keep the payload: look through, but remember the conversion
        e = strip_borrow(e[2][0])
    if e[0] == 'call':
        return {('call', e[1])}
    if e[0] in ('p',):
        return {('place', e)}
    if e[0] in ('fld', 'idx', 'down'):
        r = resolve_root(f, R, e)
        if r[0] == 'call':
            return {('call', r[1])}
        return {('place', e)}
    if e[0] == 'v':
        if e[1] in _seen:
            return set()
        _seen.add(e[1])
        out = set()
        ds = f.defs().get(e[1], [])
        if not ds:
            return {('other', e)}
        for bi, si, d in ds:
            try:
                de = R.call(d) if si == 'term' else R.rvalue(d)
            except Exception:
                out.add(('other', e))
                continue
            out |= top_producers(f, R, de, _seen)
        return out
    return {('other', e)}
