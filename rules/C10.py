"""C10 — reverse-complementing a motif mirrors its scores on the opposite strand."""
from lm.db import short
from lm import tables, expr as X
from lm.match import norm, m
from . import common

LEVEL_NOTE = ('decides: complement table is an involution with the documented pairs (exhaustive), the four reverse_complement '
              'bodies reverse rows and permute columns by complement and agree with each other; the Python wrapper reaches them. '
              'Not decided: floating-point summation order.')

FAMILY = ['CountMatrix', 'FrequencyMatrix', 'WeightMatrix', 'ScoringMatrix']


def r101(db, ctx):
    ctx.rule('R10.1', 'complement table (exhaustive over the nucleotides) is an involution pairing A-T and C-G and fixing exactly the wildcard')
    n = 0
    for a in common.alphabets(db):
        c = a.get('complement')
        if not c:
            continue
        n += 1
        var, dflt = common.variants(a['adt'])
        try:
            t = tables.decision_table(c)
            tab = tables.fold_over_domain(t, common.is_self_discr, sorted(var.values()))
        except tables.NotTabulable as e:
            ctx.fail('R10.1', c, 'complement', f'reason=unrecognised-shape: {e}')
            continue
        name_of = {d: v for v, d in var.items()}
        comp = {}
        for d, r in tab.items():
            ev = tables.enum_variant(r) if r else None
            comp[name_of[d]] = ev[1] if ev else None
        bad = [v for v in comp if comp.get(comp[v]) != v]
        fixed = [v for v in comp if comp[v] == v]
        if bad:
            ctx.fail('R10.1', c, 'complement involution', f'complement(complement(x)) != x for {bad}: table {comp}')
        elif fixed != [dflt]:
            ctx.fail('R10.1', c, 'complement fixed points', f'fixed points {fixed}, expected exactly the wildcard {dflt}')
        elif a['name'] == 'Dna' and not (comp.get('A') == 'T' and comp.get('C') == 'G'):
            ctx.fail('R10.1', c, 'complement pairs', f'expected A<->T and C<->G, table {comp}')
        else:
            ctx.ok('R10.1', c, f'complement table {comp}', ['involution', f'fixed point = wildcard {dflt}', 'A<->T, C<->G'])
    ctx.floor('R10.1', n, 1, 'ComplementableSymbol impl')
    # ComplementableAlphabet::complement forwards to the symbol method
    for f in db.find(r'ComplementableAlphabet>::complement$'):
        r = common.return_expr_single_path(f)
        rn = norm(r) if r else None
        if rn and m(('call~', 'ComplementableSymbol::complement', (('p', 1),)), rn) is not None:
            ctx.ok('R10.1', f, 'ComplementableAlphabet::complement(s) = s.complement()')
        else:
            ctx.fail('R10.1', f, 'blanket complement', f'does not forward to the symbol complement: {X.show(r) if r else None}')


def summarise_rc(db, ctx, f):
    """Relational summary of one reverse_complement body -> canonical dict or None (+ failures reported)."""
    R = X.Rec(f)
    st = X.stores(f, R)
    cells = []
    for s in st:
        tn, vn = norm(s['target']), norm(s['value'])
        # target: data_new[i][as_index(S1)] ; value: row[as_index(S2)]
        pt = ('idx', ('call~', 'index_mut', ('$new', '$i')), ('call~', 'as_index', ('$s1',)))
        b = m(pt, tn)
        if b is None:
            continue
        bv = m(('idx', '$row', ('call~', 'as_index', ('$s2',))), vn)
        if bv is None:
            ctx.fail('R10.2', f, 'stored value', f'cell written from an unrecognised value {X.show(s["value"], 300)}', span=s['span'])
            return None
        cells.append((b, bv, s))
    if len(cells) != 1:
        ctx.fail('R10.2', f, 'matrix cell store', f'reason=unrecognised-shape: expected exactly one cell store data[i][sym] = row[sym\'], found {len(cells)}')
        return None
    b, bv, s = cells[0]
    # symbols: one side is elem(symbols()), the other complement(elem(symbols())) of the same loop
    def sym_kind(e):
        if e[0] == 'elem' and e[1][0] == 'call' and e[1][1].endswith('Alphabet::symbols'):
            return ('s', e[2])
        if e[0] == 'call' and e[1].endswith('complement') and len(e[2]) == 1:
            k = sym_kind(e[2][0])
            if k and k[0] == 's':
                return ('c', k[1])
        return None
    k1, k2 = sym_kind(b['$s1']), sym_kind(bv['$s2'])
    if not k1 or not k2 or k1[1] != k2[1]:
        ctx.fail('R10.2', f, 'column permutation', f'columns are not driven by one loop over symbols(): dst {X.show(b["$s1"])}, src {X.show(bv["$s2"])}', span=s['span'])
        return None
    if {k1[0], k2[0]} != {'s', 'c'}:
        ctx.fail('R10.2', f, 'column permutation',
                 f'complement applied on {"both sides" if k1[0] == "c" else "neither side"}: new[{X.show(b["$s1"])}] = old[{X.show(bv["$s2"])}]', span=s['span'])
        return None
    # rows: (i,row) = enumerate(rev(iter(self.data)))   or   index forms with i + j = rows-1
    i, row = b['$i'], bv['$row']
    rowrel = None
    pi = m(('fld', ('elem', '$chain', '$L'), '0'), i)
    pr = m(('fld', ('elem', '$chain', '$L'), '1'), row)
    if pi and pr and pi['$chain'] == pr['$chain'] and pi['$L'] == pr['$L']:
        ch = pi['$chain']
        mm = m(('call~', 'enumerate', (('call~', 'rev', (('call~', 'DenseMatrix::iter', ('$src',)),)),)), ch)
        if mm:
            rowrel = ('rev', mm['$src'])
        else:
            ctx.fail('R10.2', f, 'row order', f'rows are not visited in reverse: iterator chain is {X.show(ch, 300)}', span=s['span'])
            return None
    else:
        # index form: new[i] <- old[j] with i + j == rows(old) - 1
        pj = m(('call~', 'index', ('$src', '$j')), row)
        if pj:
            li = X.lin(i)
            lj = X.lin(pj['$j'])
            tot = dict(li)
            for k_, v in lj.items():
                tot[k_] = tot.get(k_, 0) + v
            tot = {k_: v for k_, v in tot.items() if v != 0}
            rows_atom = [k_ for k_ in tot if k_ != '' and 'rows' in k_]
            if tot.get('', 0) == -1 and len(rows_atom) == 1 and tot[rows_atom[0]] == 1 and len(tot) == 2:
                rowrel = ('rev', pj['$src'])
        if rowrel is None:
            ctx.fail('R10.2', f, 'row order', f'reason=unrecognised-shape: cannot relate destination row {X.show(i)} to source row {X.show(row)}', span=s['span'])
            return None
    src = rowrel[1]
    if m(('fld', ('p', 1), 'data'), src) is None:
        ctx.fail('R10.2', f, 'source matrix', f'rows are read from {X.show(src)}, expected self.data', span=s['span'])
        return None
    # new matrix: DenseMatrix::new(rows(self.data)) (row count preserved), zero-filled
    newv = b['$new']
    ok_new = False
    if newv[0] == 'v':
        d = f.defs().get(newv[1], [])
        if len(d) == 1 and d[0][1] == 'term':
            ne = norm(R.call(d[0][2]))
            if m(('call~', 'DenseMatrix::new', (('call~', 'DenseMatrix::rows', (('fld', ('p', 1), 'data'),)),)), ne) is not None:
                ok_new = True
    if not ok_new:
        ctx.fail('R10.2', f, 'row count', 'the new matrix is not DenseMatrix::new(self.data.rows())', span=s['span'])
        return None
    # whole symbols() table iterated (no slicing of the symbol loop)
    # returned value carries the new matrix and unchanged metadata
    ret = None
    for bi, t in f.calls():
        if t['dest']['l'] == 0 and not t['dest']['pr']:
            ret = norm(R.call(t))
    meta_ok = False
    if ret and ret[0] == 'call':
        args = ret[2]
        has_new = any(a == newv for a in args)
        others = [a for a in args if a != newv]
        def is_self_meta(a):
            return (m(('fld', ('p', 1), '$f'), a) is not None) or (a[0] == 'call' and a[1].endswith('clone') and m(('fld', ('p', 1), '$f'), a[2][0]) is not None)
        meta_ok = has_new and all(is_self_meta(a) for a in others)
    if not meta_ok:
        ctx.fail('R10.2', f, 'result construction', f'result is not built from the new matrix and self\'s unchanged metadata: {X.show(ret) if ret else None}')
        return None
    summ = {'rows': 'reversed', 'cols': 'complement-permuted', 'direction': k1[0] + k2[0], 'ctor': ret[1].rsplit('::', 1)[-1],
            'meta': sorted(X.show(a) for a in ret[2] if a != newv)}
    ctx.ok('R10.2', f, 'new[i][σ(s)] = old[rows-1-i][σ(comp(s))] for every s in symbols(); rows preserved; metadata carried',
           ['enumerate(rev(iter(self.data)))', 'one loop over Alphabet::symbols()', 'R10.1 involution'])
    return summ


def r102_103(db, ctx):
    ctx.rule('R10.2', 'each reverse_complement writes new[i][idx(s)] = old[rows-1-i][idx(complement(s))] for every symbol, nothing else')
    ctx.rule('R10.3', 'the four reverse_complement bodies have identical relational summaries')
    fam = []
    for nm in FAMILY:
        fs = db.find(rf'^lightmotif::pwm::{nm}::<A>::reverse_complement$')
        fam += fs
    ctx.floor('R10.2', len(fam), 4, 'reverse_complement bodies in lightmotif::pwm')
    sums = {}
    for f in fam:
        s = summarise_rc(db, ctx, f)
        if s:
            sums[f.path] = s
    if len(sums) >= 2:
        ref = None
        for p, s in sums.items():
            key = (s['rows'], s['cols'])
            if ref is None:
                ref = (p, key)
            elif key != ref[1]:
                ctx.fail('R10.3', p, 'sibling deviance', f'summary {key} differs from {ref[0]}: {ref[1]}')
        ctx.ok('R10.3', 'pwm::*::reverse_complement', f'{len(sums)} sibling summaries identical', [str(next(iter(sums.values())))])


def r104(db, ctx):
    ctx.rule('R10.4', 'Python reverse_complement methods call the core method of the same name on the wrapped DNA matrix')
    fs = [f for f in db.find(r'^lightmotif_py::\w+::reverse_complement$') if f.kind == 'AssocFn']
    ctx.floor("R10.4", len(fs), 1, 'Python reverse_complement wrappers')
    for f in fs:
        callee = [f.callee_short(t) for _, t in f.calls()]
        cls = f.path.split('::')[1]
        want = f'lightmotif::pwm::{cls}::reverse_complement'
        if want in callee:
            ctx.ok('R10.4', f, f'calls {want}')
        else:
            ctx.fail('R10.4', f, 'wrapper callee', f'does not call {want}; calls {[c for c in callee if c and "lightmotif::" in c]}')


def run(db, ctx):
    r101(db, ctx)
    r102_103(db, ctx)
    r104(db, ctx)
