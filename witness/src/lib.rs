//! E10 — type-level compile-fail witnesses (run with `cargo +nightly test --doc`).
//!
//! Each witness is paired with a compiling twin that differs only by the offending line, so that a witness
//! whose paths are merely wrong cannot pass.

/// The uninitialised constructor is `unsafe`: safe code cannot obtain a matrix with uninitialised rows.
/// ```compile_fail,E0133
/// use lightmotif::dense::DenseMatrix;
/// use lightmotif::num::U32;
/// let m: DenseMatrix<u8, U32> = DenseMatrix::uninitialized(4);
/// ```
/// twin:
/// ```
/// use lightmotif::dense::DenseMatrix;
/// use lightmotif::num::U32;
/// let m: DenseMatrix<u8, U32> = unsafe { DenseMatrix::uninitialized(4) };
/// # drop(m);
/// ```
pub struct UninitializedIsUnsafe;

/// The flat view (which includes padding) is `unsafe`.
/// ```compile_fail,E0133
/// use lightmotif::dense::DenseMatrix;
/// use lightmotif::num::U32;
/// let m: DenseMatrix<u8, U32> = DenseMatrix::new(4);
/// let s = m.ravel();
/// ```
/// twin:
/// ```
/// use lightmotif::dense::DenseMatrix;
/// use lightmotif::num::U32;
/// let m: DenseMatrix<u8, U32> = DenseMatrix::new(4);
/// let s = unsafe { m.ravel() };
/// # assert_eq!(s.len(), 4 * 32);
/// ```
pub struct RavelIsUnsafe;

/// The 16-entry `pshufb` table look-up of the AVX2 8-bit kernel is only offered for DNA (K <= 16).
/// ```compile_fail,E0277
/// use lightmotif::abc::Protein;
/// use lightmotif::num::U32;
/// use lightmotif::pli::{Pipeline, Score, platform::Avx2};
/// fn needs<T: Score<u8, Protein, U32>>() {}
/// needs::<Pipeline<Protein, Avx2>>();
/// ```
/// twin:
/// ```
/// use lightmotif::abc::Dna;
/// use lightmotif::num::U32;
/// use lightmotif::pli::{Pipeline, Score, platform::Avx2};
/// fn needs<T: Score<u8, Dna, U32>>() {}
/// needs::<Pipeline<Dna, Avx2>>();
/// ```
pub struct Avx2U8OnlyForDna;

/// The SSE2 kernels load 16 columns at a time: the column count must be a multiple of 16.
/// ```compile_fail,E0277
/// use lightmotif::abc::Dna;
/// use lightmotif::num::U8;
/// use lightmotif::pli::{Pipeline, Score, platform::Sse2};
/// fn needs<T: Score<f32, Dna, U8>>() {}
/// needs::<Pipeline<Dna, Sse2>>();
/// ```
/// twin:
/// ```
/// use lightmotif::abc::Dna;
/// use lightmotif::num::U16;
/// use lightmotif::pli::{Pipeline, Score, platform::Sse2};
/// fn needs<T: Score<f32, Dna, U16>>() {}
/// needs::<Pipeline<Dna, Sse2>>();
/// ```
pub struct Sse2NeedsMultipleOf16;

/// The AVX2 kernels are only implemented for the 32-column layout.
/// ```compile_fail,E0277
/// use lightmotif::abc::Dna;
/// use lightmotif::num::U16;
/// use lightmotif::pli::{Pipeline, Score, platform::Avx2};
/// fn needs<T: Score<f32, Dna, U16>>() {}
/// needs::<Pipeline<Dna, Avx2>>();
/// ```
/// twin:
/// ```
/// use lightmotif::abc::Dna;
/// use lightmotif::num::U32;
/// use lightmotif::pli::{Pipeline, Score, platform::Avx2};
/// fn needs<T: Score<f32, Dna, U32>>() {}
/// needs::<Pipeline<Dna, Avx2>>();
/// ```
pub struct Avx2Needs32Columns;

/// The raw kernels are private: safe callers can only reach them through the guarded wrappers.
/// ```compile_fail,E0603
/// use lightmotif::pli::platform::avx2::score_f32_avx2_permute;
/// ```
/// twin:
/// ```
/// use lightmotif::pli::platform::Avx2;
/// # let _ = Avx2;
/// ```
pub struct KernelsArePrivate;

/// The row type of the dense matrix is private (its layout cannot be bypassed).
/// ```compile_fail,E0603
/// use lightmotif::dense::Row;
/// ```
/// twin:
/// ```
/// use lightmotif::dense::DenseMatrix;
/// ```
pub struct RowIsPrivate;
