"""C17 — Python results equal the results of the core library on the same data (plumbing rules)."""
import re
from lm.db import short
from lm import expr as X, guards as G, panics
from lm.match import norm, m
from . import common, C15

LEVEL_NOTE = ('decides (part): each wrapper reaches the core method of the same name for both alphabets (p-value / score methods by the method-string table); '
              'every user argument is used; the rescale guard polarity agrees with the core; configure dominates scoring with the same operands; create / '
              'from_counts use the same conversion chain; every panic site in the binding\'s own code is discharged (argument errors are exceptions). '
              'Numerical equality is inherited from the claims on C01-C10, C14. Not decided: aliasing of the self-referential Scanner with later Python calls.')

PY = 'lightmotif_py::'


def pyfn(db, name):
    try:
        return db.fn(PY + name)
    except KeyError:
        return None


def callee_set(db, f, depth=2):
    """Short names of callees of f, its closures and (depth) local helper fns of the binding."""
    out = set()
    seen = set()
    st = [(f, 0)]
    while st:
        g, d = st.pop()
        if g.path in seen:
            continue
        seen.add(g.path)
        for bi, t in g.calls():
            c = t.get('resolved') or t.get('callee')
            if not c:
                continue
            out.add(short(c))
            if d < depth and c in db.fns and db.fns[c].crate == 'lightmotif_py':
                st.append((db.fns[c], d + 1))
            for a in t['args']:
                k = a.get('k')
                if k and 'fn' in k:
                    out.add(short(k['fn']))
        for c in db.closures_of(g):
            st.append((c, d))
    return out


WRAPPERS = [
    # (python fn, core callees that must all be reached)
    ('ScoringMatrix::max_score', ['lightmotif::pwm::ScoringMatrix::max_score']),
    ('ScoringMatrix::reverse_complement', ['lightmotif::pwm::ScoringMatrix::reverse_complement']),
    ('ScoringMatrix::calculate', ['lightmotif::pli::Score::score', 'lightmotif::seq::StripedSequence::configure']),
    ('ScoringMatrix::score_distribution', ['lightmotif::pwm::ScoringMatrix::to_score_distribution']),
    ('StripedScores::threshold', ['lightmotif::scores::StripedScores::threshold']),
    ('StripedScores::max', ['lightmotif::scores::StripedScores::max']),
    ('StripedScores::argmax', ['lightmotif::scores::StripedScores::argmax']),
    ('EncodedSequenceData::stripe', ['lightmotif::seq::EncodedSequence::to_striped']),
    ('EncodedSequence::__init__', ['lightmotif::seq::EncodedSequence::encode']),
    ('Scanner::__next__', ['core::iter::traits::iterator::Iterator::next']),
    ('Scanner::__init__', ['lightmotif::scan::Scanner::new', 'lightmotif::scan::Scanner::threshold', 'lightmotif::scan::Scanner::block_size', 'lightmotif::seq::StripedSequence::configure']),
    ('CountMatrix::normalize', ['lightmotif::pwm::CountMatrix::to_freq', 'lightmotif::pwm::FrequencyMatrix::to_weight']),
    ('WeightMatrix::log_odds', ['lightmotif::pwm::WeightMatrix::rescale', 'lightmotif::pwm::WeightMatrix::to_scoring_with_base', 'lightmotif::abc::Background::new']),
    ('create', ['lightmotif::seq::EncodedSequence::encode', 'lightmotif::pwm::CountMatrix::from_sequences', 'lightmotif::pwm::CountMatrix::to_freq',
                'lightmotif::pwm::FrequencyMatrix::to_weight', 'lightmotif::pwm::WeightMatrix::to_scoring']),
    ('Motif::from_counts', ['lightmotif::pwm::CountMatrix::to_freq', 'lightmotif::pwm::FrequencyMatrix::to_weight', 'lightmotif::pwm::WeightMatrix::to_scoring']),
    ('Motif::from_weights', ['lightmotif::pwm::WeightMatrix::to_scoring']),
]


def r171(db, ctx):
    ctx.rule('R17.1', 'wrapper <-> core name agreement: each Python method reaches the core method(s) it stands for; pvalue/score dispatch on the method string '
                      '("meme" -> ScoreDistribution, "tfmpvalue" -> TfmPvalue) to the method of the same name')
    n = 0
    for name, wants in WRAPPERS:
        f = pyfn(db, name)
        if f is None:
            ctx.fail('R17.1', PY + name, 'wrapper', 'reason=anchor-missing')
            continue
        cs = callee_set(db, f)
        miss = [w for w in wants if w not in cs]
        if miss:
            ctx.fail('R17.1', f, f'{name} core callee', f'does not reach {miss}; reaches {sorted(c for c in cs if c.startswith("lightmotif::"))[:8]}')
        else:
            n += 1
            ctx.ok('R17.1', f, f'{name} -> {[w.rsplit("::", 2)[-2] + "::" + w.rsplit("::", 1)[-1] for w in wants]}')
    # pvalue / score by method string
    for nm in ('pvalue', 'score'):
        f = pyfn(db, f'ScoringMatrix::{nm}')
        if f is None:
            ctx.fail('R17.1', PY + f'ScoringMatrix::{nm}', 'wrapper', 'reason=anchor-missing')
            continue
        R = X.Rec(f)
        table = {}
        for bi, t in f.calls():
            c = f.callee_short(t) or ''
            if c.endswith(('ScoreDistribution::pvalue', 'ScoreDistribution::score', 'TfmPvalue::pvalue', 'TfmPvalue::score')):
                rels = G.relations(f, R, bi)
                lits = []
                for r in rels:
                    if r[0] == 'eq':
                        for side in (r[1], r[2]):
                            ns = norm(side)
                            if ns[0] == 'promoted':
                                # `method == "meme"` compares against a promoted `&"meme"`
                                pe = common.promoted_expr(db, ns[1], ns[2])
                                ns = norm(pe) if pe is not None else ns
                            v = common.str_const(ns) if ns[0] == 'kc' else None
                            if v:
                                lits.append(v)
                table.setdefault(tuple(lits), set()).add(c.rsplit('::', 2)[-2] + '::' + c.rsplit('::', 1)[-1])
        want = {('meme',): {f'ScoreDistribution::{nm}'}, ('tfmpvalue',): {f'TfmPvalue::{nm}'}}
        if table == want:
            n += 1
            ctx.ok('R17.1', f, f'{nm}: "meme" -> ScoreDistribution::{nm}, "tfmpvalue" -> TfmPvalue::{nm} (both alphabets)', [str(table)])
        else:
            ctx.fail('R17.1', f, f'{nm} method table', f'expected {want}, found {table}')
    ctx.floor('R17.1', n, 16, 'wrappers with the expected core callees')


def params_used(f):
    """Indices of parameters that are never read."""
    used = set()
    def mark(p):
        used.add(p['l'])
        for pr in p['pr']:
            if isinstance(pr, dict) and 'idx' in pr:
                used.add(pr['idx'])
    def op(o):
        for k in ('c', 'm'):
            if k in o:
                mark(o[k])
    for blk in f.blocks:
        if blk['cleanup']:
            continue
        for st in blk['stmts']:
            if st['k'] == 'assign':
                rv = st['rv']
                for key in ('a', 'b'):
                    if isinstance(rv.get(key), dict):
                        op(rv[key])
                if 'p' in rv:
                    mark(rv['p'])
                for o in rv.get('ops', []):
                    op(o)
        t = blk['term']
        if t['k'] == 'call':
            for a in t['args']:
                op(a)
        elif t['k'] == 'switch':
            op(t['discr'])
        elif t['k'] == 'assert':
            op(t['cond'])
    return [i for i in range(1, f.arg_count + 1) if i not in used]


def r172(db, ctx):
    ctx.rule('R17.2', 'every user argument of a #[pymethods] / #[pyfunction] entry is read (flows into a call, a comparison or the result)')
    n = 0
    for f in db.fns.values():
        if f.crate != 'lightmotif_py' or f.kind not in ('Fn', 'AssocFn') or f.promoted_of or f.raw.get('derived'):
            continue
        if f.raw.get('expn'):
            continue  # macro-generated glue
        if f.path.count('::') > 3:
            continue
        unused = [i for i in params_used(f) if (f.local_name(i) or '').strip('_') and not (f.local_name(i) or '').startswith('_')]
        n += 1
        if unused:
            ctx.fail('R17.2', f, 'unused argument', f'parameter(s) {[f.local_name(i) for i in unused]} never read: the user\'s value is ignored')
    ctx.floor('R17.2', n, 60, 'binding functions inspected')
    ctx.ok('R17.2', 'lightmotif_py', f'{n} functions: every named parameter is read')
    # threshold / block_size reach the scanner setters with the user values
    f = pyfn(db, 'Scanner::__init__')
    if f:
        R = X.Rec(f)
        ok = 0
        for bi, t in f.calls():
            c = f.callee_short(t) or ''
            if c.endswith('scan::Scanner::threshold') and norm(R.operand(t['args'][1])) == ('p', 3):
                ok += 1
            if c.endswith('scan::Scanner::block_size') and norm(R.operand(t['args'][1])) == ('p', 4):
                ok += 1
        (ctx.ok if ok == 2 else ctx.fail)('R17.2', f, 'threshold and block_size arguments are passed to the core scanner', *([[]] if ok == 2 else ['threshold / block_size are not the user arguments']))


def r173(db, ctx):
    ctx.rule('R17.3', 'log_odds rescales exactly when the given background differs from the matrix background (same polarity as the core rescale)')
    f = pyfn(db, 'WeightMatrix::log_odds')
    if f is None:
        ctx.fail('R17.3', PY + 'WeightMatrix::log_odds', 'wrapper', 'reason=anchor-missing')
        return
    R = X.Rec(f)
    n = 0
    for bi, t in f.calls():
        c = f.callee_short(t) or ''
        if c.endswith('WeightMatrix::rescale'):
            n += 1
            rels = G.relations(f, R, bi)
            fr = [r for r in rels if r[0] in ('eq', 'ne') and 'frequencies' in X.canon(r[1]) and 'frequencies' in X.canon(r[2])]
            if fr and fr[0][0] == 'eq':
                ctx.fail('R17.3', f, 'rescale guard polarity', 'rescale(bg) is called only when the backgrounds are equal; when they differ the matrix is cloned unchanged (user background ignored)', span=t['span'])
            else:
                ctx.ok('R17.3', f, 'rescale(bg) reached when the backgrounds differ', ['guard: ' + (fr[0][0] if fr else 'unconditional')])
        if c.endswith('clone') and 'WeightMatrix' in (t.get('callee_full') or t.get('resolved_full') or ''):
            rels = G.relations(f, R, bi)
            fr = [r for r in rels if r[0] in ('eq', 'ne') and 'frequencies' in X.canon(r[1]) and 'frequencies' in X.canon(r[2])]
            if fr and fr[0][0] == 'ne':
                ctx.fail('R17.3', f, 'clone on differing background', 'the weight matrix is cloned unchanged although the requested background differs', span=t['span'])
    ctx.floor('R17.3', n, 2, 'rescale calls (both alphabets)')


def r174(db, ctx):
    ctx.rule('R17.4', 'configure(seq, pssm) dominates scoring / scanner construction with the same sequence and matrix')
    for name, sink in (('ScoringMatrix::calculate', 'pli::Score::score'), ('Scanner::__init__', 'scan::Scanner::new')):
        f = pyfn(db, name)
        if f is None:
            ctx.fail('R17.4', PY + name, 'wrapper', 'reason=anchor-missing')
            continue
        R = X.Rec(f)
        confs = [(bi, t) for bi, t in f.calls() if (f.callee_short(t) or '').endswith('StripedSequence::configure')]
        sinks = []
        for g in [f] + db.closures_of(f):
            for bi, t in g.calls():
                if (g.callee_short(t) or '').endswith(sink):
                    sinks.append((g, bi, t))
        if not sinks or not confs:
            ctx.fail('R17.4', f, 'configure / score', f'reason=unrecognised-shape: {len(confs)} configure calls, {len(sinks)} sinks')
            continue
        okn = 0
        for g, bi, t in sinks:
            # the sink (or the closure creation) must be dominated by a configure whose operands are the sink's operands
            if g is f:
                RG = R
                anchor = bi
                sargs = [X.canon(norm(RG.operand(a))) for a in t['args']]
            else:
                anchor = None
                for b2, blk in enumerate(f.blocks):
                    for st in blk['stmts']:
                        if st['k'] == 'assign' and st['rv']['k'] == 'agg' and st['rv'].get('closure') == g.path:
                            anchor = b2
                            caps = [X.canon(norm(R.operand(o))) for o in st['rv']['ops']]
                sargs = caps if anchor is not None else []
            good = False
            for cb, ct in confs:
                if anchor is not None and f.dominates(cb, anchor) and cb != anchor:
                    ca = [X.canon(norm(R.operand(a))) for a in ct['args']]
                    if all(any(x == y or x in y or y in x for y in sargs) for x in ca):
                        good = True
            if good:
                okn += 1
        if okn == len(sinks):
            ctx.ok('R17.4', f, f'{name}: configure(seq, pssm) dominates {sink.rsplit("::", 1)[-1]} with the same operands', [f'{okn} arm(s)'])
        else:
            ctx.fail('R17.4', f, 'configure before score', f'{len(sinks) - okn} scoring site(s) are not dominated by a configure call on the same sequence / matrix')


# --- R17.6: panic inventory of the binding's own code -------------------------------------------------------------

def d_pyo3_glue(f, s, R, db):
    ex = f.raw.get('expn') or []
    if any(x in ('pyclass', 'pymethods', 'pyfunction', 'pymodule') or 'pyo3' in x for x in ex):
        return 'trusted: pyo3 macro-generated glue'
    ex2 = s['term'].get('expn') or []
    if any('pyo3' in x or x in ('pyclass', 'pymethods', 'pyfunction') for x in ex2):
        return 'trusted: pyo3 macro-generated glue'
    return None


def d_neg_plus_len(f, s, R, db):
    if s['kind'] == 'assert:overflow:Add':
        t = s['term']
        a, b = norm(R.operand(t['ops'][0])), norm(R.operand(t['ops'][1]))
        rels = G.relations(f, R, s['block'])
        if G.holds(rels, 'lt', lambda e: norm(e) == a, lambda e: norm(e) == ('k', 0)) and (b[0] == 'call' and b[1].endswith(('::rows', '::len', '::max_index'))):
            return 'guarded: negative index + non-negative length cannot overflow'
    return None


def d_ensured_some(f, s, R, db):
    """unwrap(as_mut/as_ref(X)) where `if X.is_none() { X = Some(..) }` dominates."""
    if s['kind'] != 'call:unwrap':
        return None
    a = norm(R.operand(s['term']['args'][0]))
    b = m(('call~', ('Option::as_mut', 'Option::as_ref'), ('$x',)), a)
    if b is None:
        return None
    x = b['$x']
    cx = X.canon(x)
    dom = f.dominators().get(s['block'], set())
    for d in dom:
        t = f.term(d)
        if t['k'] == 'switch':
            de = norm(R.operand(t['discr']))
            if de[0] == 'call' and de[1].endswith('Option::is_none') and (X.canon(de[2][0]) == cx or tail_field(de[2][0]) == tail_field(x)):
                # the true side must assign Some to x
                true_t = [tg for v, tg in t['arms'] if int(v) != 0] or [t['otherwise']]
                for tt in true_t if t['otherwise'] not in true_t else true_t:
                    pass
                some_side = t['otherwise'] if [int(v) for v, _ in t['arms']] == [0] else None
                if some_side is None:
                    continue
                if assigns_some(f, R, some_side, d, x):
                    return 'ensured-some: `if x.is_none() { x = Some(..) }` dominates the unwrap'
    return None


def tail_field(e):
    e = norm(e)
    return e[2] if e[0] == 'fld' else None


def assigns_some(f, R, start, stop_dom, x):
    seen = set()
    st = [start]
    cx = X.canon(x)
    tf = tail_field(x)
    while st:
        b = st.pop()
        if b in seen:
            continue
        seen.add(b)
        blk = f.blocks[b]
        for s_ in blk['stmts']:
            if s_['k'] == 'assign':
                rv = s_['rv']
                tgt = norm(R.place(s_['p']))
                is_some = (rv['k'] == 'agg' and rv.get('variant') == 'Some') or (rv['k'] == 'use' and 'Some' in X.canon(R.rvalue(rv)))
                if is_some and (X.canon(tgt) == cx or (tf and tail_field(tgt) == tf)):
                    return True
        for n in f.succs(b):
            if f.dominates(start, n):
                st.append(n)
    return False


def d_const_cstr(f, s, R, db):
    if s['kind'] == 'call:unwrap':
        a = norm(R.operand(s['term']['args'][0]))
        if a[0] == 'call' and a[1].endswith('CStr::from_bytes_with_nul'):
            txt = X.canon(a[2][0])
            mm = re.search(r'b"([^"\\]*)\\x00"', txt)
            if mm:
                return f'const-cstr: literal b"{mm.group(1)}\\0" has exactly one trailing NUL'
    return None


def d_alloc_size(f, s, R, db):
    if s['kind'] == 'assert:overflow:Mul':
        t = s['term']
        ops_n = [norm(R.operand(o)) for o in t['ops']]
        txt = ' '.join(X.canon(o) for o in ops_n)
        # an item size is `size_of::<T>()` or its evaluated value when it comes from a named constant
        itemsize = 'size_of' in txt or any(o[0] == 'k' and o[1] in (1, 2, 4, 8) for o in ops_n)
        if (itemsize and any(k in txt for k in ('::stride', '::len', '::rows'))) or ('::rows' in txt and '::columns' in txt):
            return 'bounded-by-allocation: byte size / element count of an existing in-memory matrix (<= isize::MAX)'
    return None


def d_const_bounds(f, s, R, db):
    """array[const] on a fixed-size array: bounds assert between two constants."""
    if s['kind'] == 'assert:bounds':
        ops = [norm(R.operand(o)) for o in s['term']['ops']]
        ks = [o for o in ops if o[0] == 'k' and isinstance(o[1], int)]
        if len(ops) == 2 and len(ks) == 2:
            ln, idx = ops[0][1], ops[1][1]
            if idx < ln:
                return f'constant index {idx} < constant array length {ln}'
    return None


def d_shape_product(f, s, R, db):
    """self.shape[0] * self.shape[1] (* size_of::<T>()): the cached shape holds columns()/rows() of the wrapped in-memory matrix (R18.3),
    and columns <= stride, so the product is at most the byte size of an existing allocation (<= isize::MAX)."""
    if s['kind'] == 'assert:overflow:Mul':
        def factors(e):
            if e[0] == 'bin' and e[1].startswith('Mul'):
                return factors(e[2]) + factors(e[3])
            return [e]
        fs = []
        for o in s['term']['ops']:
            fs += factors(norm(R.operand(o)))
        shp = [x for x in fs if m(('idx', ('fld', '_', 'shape'), ('k', '$d')), x) is not None]
        rest = [x for x in fs if x not in shp]
        dims = sorted(m(('idx', ('fld', '_', 'shape'), ('k', '$d')), x)['$d'] for x in shp)
        # (a partial product — `itemsize * shape[1]` when the factors are written in another order — is bounded the same way: each dimension of an
        # in-memory matrix times the item size is at most its byte size, or a small constant when the other dimension is 0)
        if dims in ([0, 1], [0], [1]) and all((x[0] == 'call' and x[1].endswith('mem::size_of')) or (x[0] == 'k' and x[1] in (1, 2, 4, 8)) for x in rest) and len(rest) <= 1:
            return 'bounded-by-allocation: shape[0]*shape[1]*itemsize of the cached (columns, rows) of an in-memory matrix (R18.3) <= its byte size <= isize::MAX'
    return None


def d_row0_guarded(f, s, R, db):
    """matrix()[0] guarded by rows() != 0."""
    if s['kind'] != 'call:generic-index':
        return None
    t = s['term']
    recv, idx = norm(R.operand(t['args'][0])), norm(R.operand(t['args'][1]))
    if idx != ('k', 0):
        return None
    rels = G.relations(f, R, s['block'])
    for r in rels:
        if r[0] == 'ne' and norm(r[2]) == ('k', 0) and common.is_call_on(r[1], '::rows', recv):
            return 'guarded: rows() != 0 dominates matrix()[0]'
        # match x.rows() { 0 => .., _ => x[0] }
        if r[0] == 'switch' and r[2] == ('notin', [0]) and common.is_call_on(r[1], '::rows', recv):
            return 'guarded: the `_` arm of match rows() { 0 => .. } dominates matrix()[0]'
    return None


def d_data_get_summary(f, s, R, db):
    if s['kind'] == 'call:generic-index' and re.search(r'Data::get$', f.path) and norm(R.operand(s['term']['args'][1])) == ('p', 2):
        return 'summary: <Data>::get(i) requires i < rows(); its only callers are the __getitem__ methods, checked by R18.1'
    if s['kind'] == 'call:generic-index' and f.path.endswith('StripedScores::__getitem__'):
        rels = G.relations(f, R, s['block'])
        idx = norm(R.at(s['block']).operand(s['term']['args'][1]))
        ci = X.canon(idx)
        same = lambda e: X.canon(norm(e)) == ci
        if G.holds(rels, 'lt', same, lambda e: common.is_call_to(e, 'StripedScores::max_index')) and G.holds(rels, 'ge', same, lambda e: norm(e) == ('k', 0)):
            return 'guarded: 0 <= i < max_index <= rows*columns dominates scores[i]'
    return None


def d_row_guard(f, s, R, db):
    """matrix[i] guarded by i < rows(matrix) (early return otherwise)."""
    if s['kind'] != 'call:generic-index':
        return None
    t = s['term']
    recv, idx = norm(R.operand(t['args'][0])), norm(R.operand(t['args'][1]))
    rels = G.relations(f, R, s['block'])
    for r in rels:
        if r[0] == 'lt' and norm(r[1]) == idx and common.is_call_on(r[2], '::rows', recv):
            return 'guarded: i < matrix.rows() dominates matrix[i]'
    return None


def d_first_char(f, s, R, db):
    """key.chars().next().unwrap() after key.len() == 1."""
    if s['kind'] == 'call:unwrap':
        a = norm(R.operand(s['term']['args'][0]))
        if a[0] == 'next' and a[1][0] == 'call' and a[1][1].endswith('str::chars'):
            rels = G.relations(f, R, s['block'])
            src = X.canon(a[1][2][0])
            for r in rels:
                if r[0] == 'eq' and norm(r[2]) == ('k', 1) and common.is_len_of(r[1]) and src == X.canon(norm(r[1])[2][0] if norm(r[1])[0] == 'call' else norm(r[1])[1]):
                    return 'guarded: key.len() == 1 dominates key.chars().next().unwrap()'
    return None


def d_get_range_copy(f, s, R, db):
    """dst.copy_from_slice(src) with dst = x.get_mut(..n)? / x.get(..n)? and n = src.len(): a successful get(..n) has exactly n elements."""
    if s['kind'] != 'call:copy_from_slice':
        return None
    a = [norm(R.operand(x)) for x in s['term']['args']]
    b = m(('fld', ('down', ('call~', ('slice::get_mut', 'slice::get'), ('_', ('agg', '_', ('$n',)))), 'Some'), '0'), a[0])
    if b is not None and common.is_len_of(b['$n']) and X.canon(norm(b['$n'])[2][0] if norm(b['$n'])[0] == 'call' else norm(b['$n'])[1]) == X.canon(a[1]):
        return 'sized-by-construction: destination is get_mut(..src.len()) unwrapped from Some, so both slices have src.len() elements'
    return None


def d_bounded_copy(f, s, R, db):
    if 'pyfile' not in f.path:
        return None
    t = s['term']
    rels = G.relations(f, R, s['block'])
    # len(b) <= len(buf), or the stronger len(b) < len(buf) (which loses valid reads — that is R17.9's business — but cannot panic)
    le = [r for r in rels if r[0] in ('le', 'lt') and common.is_len_of(r[1]) and common.is_len_of(r[2])]
    if s['kind'] == 'call:slice-index' and le:
        return 'guarded: b.len() <= buf.len() dominates buf[..b.len()]'
    if s['kind'] == 'call:copy_from_slice':
        a = [norm(R.operand(x)) for x in t['args']]
        if 'RangeTo' in X.canon(a[0]) and le:
            return 'guarded: destination buf[..b.len()] has exactly the source length'
    if s['kind'] == 'call:unwrap' and 'Mutex::lock' in X.canon(norm(R.operand(t['args'][0]))):
        return 'reasoned: the mutex is only poisoned by a panic inside this critical section, all of whose panic sites are discharged'
    return None


PY_RULES = [d_pyo3_glue, d_const_bounds, d_shape_product, d_get_range_copy, d_neg_plus_len, d_ensured_some, d_const_cstr, d_alloc_size, d_row0_guarded, d_data_get_summary, d_row_guard, d_first_char,
            d_bounded_copy, C15.d_symbol_index, C15.d_enumerate_of_same]


def r176(db, ctx):
    ctx.rule('R17.6', 'panic-site inventory of the binding\'s own bodies: every site is discharged (argument errors surface as exceptions, never as panics)')
    n = 0
    und = 0
    for f in sorted(db.fns.values(), key=lambda f: f.path):
        if f.crate != 'lightmotif_py' or f.promoted_of or f.raw.get('derived'):
            continue
        R = None
        for s in panics.sites(f):
            R = R or X.Rec(f)
            reason = None
            for rule in PY_RULES:
                reason = rule(f, s, R, db)
                if reason:
                    break
            n += 1
            if reason:
                if not reason.startswith('trusted: pyo3'):
                    ctx.ok('R17.6', f, C15.describe(f, s, R), [reason])
            else:
                und += 1
                ctx.fail('R17.6', f, C15.site_key(f, s, R), 'potential panic reachable from Python is not discharged by any proof rule' + ((' — ' + s['why']) if s.get('why') else ''), span=s['span'])
    ctx.floor('R17.6', n, 80, 'panic sites in lightmotif_py bodies')
    ctx.note(f'R17.6: {n} sites inventoried, {und} undischarged')
    # alphabet mismatch arms return Err(PyValueError)
    for name in ('ScoringMatrix::calculate', 'Scanner::__init__'):
        f = pyfn(db, name)
        if f is None:
            continue
        errs = [t for bi, t in f.calls() if (f.callee_short(t) or '').endswith('PyValueError::new_err')]
        (ctx.ok if errs else ctx.fail)('R17.6', f, f'{name}: alphabet mismatch -> PyValueError', *([[f'{len(errs)} error arm(s)']] if errs else ['no ValueError arm for mismatching alphabets']))


def r175(db, ctx):
    ctx.rule('R17.5', 'create() and Motif::from_counts are siblings: to_freq(0.0).to_weight(None), then to_scoring()')
    for name in ('create', 'Motif::from_counts'):
        f = pyfn(db, name)
        if f is None:
            ctx.fail('R17.5', PY + name, 'wrapper', 'reason=anchor-missing')
            continue
        # every to_freq reachable from the wrapper through helpers of the binding itself uses the constant pseudocount 0.0
        # (an arm may also delegate to the sibling constructor Motif::from_counts, which is checked on its own)
        ok, bad, seen, todo = 0, [], set(), [f]
        while todo:
            g = todo.pop()
            if g.path in seen or len(seen) > 12:
                continue
            seen.add(g.path)
            RG = X.Rec(g)
            for bi, t in g.calls():
                c = g.callee_short(t) or ''
                if c.endswith('CountMatrix::to_freq'):
                    a = norm(RG.operand(t['args'][1]))
                    if a == ('k', 0.0):
                        ok += 1
                    else:
                        bad.append(X.show(a, 40))
                elif name == 'create' and c.endswith('Motif::from_counts'):
                    ok += 1
                elif c.startswith('lightmotif_py::') and not c.endswith(('Motif::from_counts',)):
                    h = db.fns.get(t.get('resolved') or '') or next((x for x in db.by_short.get(c, []) if x.kind != 'Closure'), None)
                    if h is not None and h.crate == 'lightmotif_py':
                        todo.append(h)
        good = ok >= 1 and not bad
        (ctx.ok if good else ctx.fail)('R17.5', f, f'{name}: to_freq(0.0)', *([[f'{ok} conversion site(s)']] if good else
                                      [f'to_freq pseudocount is not the constant 0.0 ({bad})' if bad else 'no count -> frequency conversion reachable from the wrapper']))


# derived caches of the Python classes: (class, cached field) -> the field of the *same object* it must be derived from
CACHES = {('lightmotif_py::ScoringMatrix', 'distribution'): 'data'}


def r177(db, ctx):
    from lm import prov
    ctx.rule('R17.7', 'cache discipline: a cached derived field (ScoringMatrix.distribution) is only ever set to None at construction or to a value '
                      'computed from the data of the very object it is stored in — never copied from / computed from another object')
    n = 0
    adts = db.adts if hasattr(db, 'adts') else {}
    for (cls, fld), srcfld in CACHES.items():
        for f in db.fns.values():
            if f.crate != 'lightmotif_py' or f.promoted_of or f.raw.get('derived'):
                continue
            R = None
            # (a) aggregate constructions
            for blk in f.blocks:
                if blk['cleanup']:
                    continue
                for st in blk['stmts']:
                    if st['k'] == 'assign' and st['rv']['k'] == 'agg' and st['rv'].get('ak') == 'adt' and st['rv'].get('adt', '') == cls and fld in st['rv'].get('fields', []):
                        R = R or X.Rec(f)
                        ops = dict(zip(st['rv']['fields'], [norm(R.operand(o)) for o in st['rv']['ops']]))
                        v = ops[fld]
                        n += 1
                        if v[0] == 'agg' and isinstance(v[1], tuple) and v[1][1].endswith('Option') and v[1][2] in ('None', 0) and not v[2]:
                            ctx.ok('R17.7', f, f'{cls.rsplit("::", 1)[-1]} {{ {fld}: None }} at construction')
                        else:
                            reads, _ = prov.field_reads(f, R, v)
                            foreign = [r for r in reads if r[1] == fld]
                            if foreign or not any(r[1] == srcfld for r in reads):
                                ctx.fail('R17.7', f, f'{fld} at construction', f'new object starts with a non-empty cache {X.show(v, 160)} that is not derived from its own {srcfld}', span=st.get('span'))
                            else:
                                ctx.ok('R17.7', f, f'{fld} at construction derived from the constructor data')
            # (b) later stores into the field
            R = R or X.Rec(f)
            for s_ in X.stores(f, R):
                tg = norm(s_['target'], clone_transparent=True)
                if not (tg[0] == 'fld' and tg[2] == fld):
                    continue
                # the object must be of the class (type of the base local / param is not recovered here; the field name is unique to the class)
                troot = prov.resolve_root(f, R, tg[1])
                reads, _ = prov.field_reads(f, R, s_['value'])
                n += 1
                foreign = [r for r in reads if r[1] == fld and r[0] != troot]
                other_data = [r for r in reads if r[1] == srcfld and r[0] != troot]
                own_data = [r for r in reads if r[1] == srcfld and r[0] == troot]
                if foreign:
                    ctx.fail('R17.7', f, f'store into .{fld}', f'the cache of {X.show(troot)} is filled from the cache of another object ({X.show(foreign[0][2], 120)}): '
                             'the value describes that object\'s data, not this one\'s (stale / wrong p-values after e.g. reverse_complement under a strand-asymmetric background)', span=s_['span'])
                elif other_data or not own_data:
                    ctx.fail('R17.7', f, f'store into .{fld}', f'the cached value is not computed from {X.show(troot)}.{srcfld} '
                             f'(reads: {sorted({X.show(r[2], 60) for r in reads})[:4]})', span=s_['span'])
                else:
                    ctx.ok('R17.7', f, f'{X.show(troot)}.{fld} = f({X.show(troot)}.{srcfld})', [X.show(own_data[0][2], 100)])
    ctx.floor('R17.7', n, 2, 'constructions / stores of cached derived fields (1 None at From, 1 lazy fill)')


def r178(db, ctx):
    ctx.rule('R17.8', 'parameterised siblings: a wrapper that forwards a user argument to a core `X_with_<param>` method never also calls the default-substituting '
                      'sibling `X` (which would silently replace the user\'s value by the default on that path)')
    n = 0
    for f in db.fns.values():
        if f.crate != 'lightmotif_py' or f.promoted_of or f.raw.get('derived'):
            continue
        cs = [(bi, t, f.callee_short(t) or '') for bi, t in f.calls()]
        withs = [(bi, t, c) for bi, t, c in cs if c.startswith('lightmotif') and '_with_' in c.rsplit('::', 1)[-1]]
        for bi, t, c in withs:
            head, last = c.rsplit('::', 1)
            sib = head + '::' + last.split('_with_')[0]
            hits = [(b2, t2) for b2, t2, c2 in cs if c2 == sib]
            n += 1
            Rf = X.Rec(f)
            arg = norm(Rf.operand(t['args'][-1]))
            from_param = any(x[0] == 'p' for x in X.walk(arg))
            if not from_param:
                ctx.fail('R17.8', f, f'argument of {last}', f'{last} receives {X.show(arg, 60)}, which does not derive from any argument of {f.name}: the user\'s '
                         f'{last.split("_with_")[1]} is ignored on this path', span=t.get('span'))
                continue
            if hits:
                ctx.fail('R17.8', f, f'call of {sib.rsplit("::", 2)[-2]}::{sib.rsplit("::", 1)[-1]}',
                         f'{f.name} forwards a user argument through {last} on one path but calls the default-substituting {sib.rsplit("::", 1)[-1]}() on another: '
                         f'the argument ({last.split("_with_")[1]}) is ignored there', span=hits[0][1].get('span'))
            else:
                ctx.ok('R17.8', f, f'{last} is the only route to {sib.rsplit("::", 1)[-1]} in {f.name}')
    ctx.floor('R17.8', n, 2, 'calls of parameterised core siblings (log_odds, two alphabet arms)')


def r179(db, ctx):
    ctx.rule('R17.9', 'file objects are read faithfully: PyFileRead::read asks fh.read for buf.len() bytes, copies the returned bytes b into buf[..b.len()], '
                      'returns Ok(b.len()), and refuses an answer only when b.len() > buf.len() (a read that fills the buffer exactly is the normal case '
                      'for any file larger than the BufReader buffer)')
    gs = [g for g in db.fns.values() if 'pyfile::PyFileRead as std::io::Read>::read::{closure' in g.path and not g.promoted_of]
    if len(gs) != 1:
        ctx.fail('R17.9', 'lightmotif_py::pyfile::PyFileRead::read', 'anchor', f'reason=anchor-missing: {len(gs)} closure bodies of PyFileRead::read')
        return
    g = gs[0]
    R = X.Rec(g)
    copies = [(bi, t) for bi, t in g.calls() if (g.callee_short(t) or '').endswith('copy_from_slice')]
    if len(copies) != 1:
        ctx.fail('R17.9', g, 'copy into the caller buffer', f'reason=unrecognised-shape: {len(copies)} copy_from_slice calls')
        return
    bi, t = copies[0]
    dst, src = [norm(R.at(bi).operand(a_)) for a_ in t['args']]
    mm = m(('call~', ('::index_mut',), ('$buf', ('agg', '$adt', ('$n',)))), dst)
    by_get = False
    if mm is None:
        # `match buf.get_mut(..n) { None => Err(..), Some(dst) => .. }`: None exactly when n > buf.len()
        mm = m(('fld', ('down', ('call~', ('slice::get_mut',), ('$buf', ('agg', '$adt', ('$n',)))), 'Some'), '0'), dst)
        by_get = mm is not None
    probs = []
    if mm is None or not (isinstance(mm['$adt'], tuple) and len(mm['$adt']) > 2 and mm['$adt'][2] == 'RangeTo'):
        ctx.fail('R17.9', g, 'copy into the caller buffer', f'reason=unrecognised-shape: destination {X.show(dst, 100)} is not buf[..n]', span=t['span'])
        return
    buf, n_ = mm['$buf'], norm(mm['$n'])
    len_of = lambda e_, x_: common.is_len_of(e_) and X.canon(norm(e_)[2][0] if norm(e_)[0] == 'call' else norm(e_)[1]) == X.canon(x_)
    if not len_of(n_, src):
        probs.append(f'the destination is buf[..{X.show(n_, 40)}], not buf[..b.len()] for the copied bytes b')
    # the only test between the answer and the copy: !(len(b) > len(buf))
    rels = [r for r in G.relations(g, R, bi) if r[0] in ('le', 'lt', 'ge', 'gt', 'eq', 'ne') and len(r) > 2 and
            ((len_of(r[1], src) and len_of(r[2], buf)) or (len_of(r[2], src) and len_of(r[1], buf)))]
    exact = [r for r in rels if (r[0] == 'le' and len_of(r[1], src)) or (r[0] == 'ge' and len_of(r[1], buf))]
    stronger = [r for r in rels if (r[0] == 'lt' and len_of(r[1], src)) or (r[0] == 'gt' and len_of(r[1], buf))]
    if not exact and not stronger and not by_get:
        probs.append('the copy is not guarded by b.len() <= buf.len()')
    if len(rels) != len(exact):
        other = [r for r in rels if r not in exact][0]
        probs.append(f'the answer is also refused unless b.len() {other[0]} buf.len() holds (as written: {X.show(norm(other[1]), 40)} {other[0]} {X.show(norm(other[2]), 40)}): '
                     'a read that returns exactly the number of bytes asked for is a valid answer and is turned into an I/O error')
    # Ok(len(b)) after the copy
    oks = []
    for b2, blk in enumerate(g.blocks):
        for st in blk['stmts']:
            # (the Ok value may be built in a local first: a helper inlined into read() returns through one)
            if st['k'] == 'assign' and not st['p']['pr'] and st['rv']['k'] == 'agg' and st['rv'].get('variant') == 'Ok' and g.dominates(bi, b2) and \
                    'Result<usize' in (g.local_ty(st['p']['l']) or ''):
                oks.append(norm(R.at(b2).operand(st['rv']['ops'][0])))
    if len(oks) != 1 or not len_of(oks[0], src):
        probs.append(f'the value returned after the copy is {[X.show(o, 40) for o in oks]}, not Ok(b.len())')
    # the request: (buf.len(),)
    req = False
    for b2, t2 in g.calls():
        if (g.callee_short(t2) or '').endswith('call_method1'):
            for a_ in t2['args']:
                e_ = norm(R.at(b2).operand(a_))
                if e_[0] == 'agg' and len(e_[2]) == 1 and len_of(e_[2][0], buf):
                    req = True
    if not req:
        probs.append('fh.read is not called with (buf.len(),)')
    if probs:
        ctx.fail('R17.9', g, 'transport of a Python file object', '; '.join(probs), span=t['span'])
    else:
        ctx.ok('R17.9', g, 'fh.read(buf.len()) -> b; refused iff b.len() > buf.len(); buf[..b.len()] = b; Ok(b.len())', ['exact guard', 'copy length = answer length'])


def r1710(db, ctx):
    ctx.rule('R17.10', 'a Python float is a double: no function of the binding receives a user number as f32 and then widens it to f64 for the core '
                       '(the core would be asked about the rounded value, not the one the user passed)')
    n = 0
    bad = 0
    for f in sorted(db.fns.values(), key=lambda f_: f_.path):
        if f.crate != 'lightmotif_py' or f.promoted_of or f.kind == 'Closure':
            continue
        nargs = f.raw.get('arg_count') or 0
        f32_params = [i for i in range(1, nargs + 1) if f.local_ty(i) == 'f32']
        if not f32_params:
            continue
        n += 1
        R = X.Rec(f)
        bodies = [(f, R)] + [(g, X.Rec(g)) for g in db.closures_of(f)]
        for g, Rg in bodies:
            for bi, t in g.calls():
                full = t.get('callee_full') or ''
                if full.startswith(('<f32 as core::convert::Into<f64>>::into', '<f64 as core::convert::From<f32>>::from')) and t['args']:
                    a_ = norm(Rg.at(bi).operand(t['args'][0]))
                    if g is f and a_[0] == 'p' and a_[1] in f32_params:
                        bad += 1
                        ctx.fail('R17.10', f, f'parameter `{f.local_name(a_[1]) or a_[1]}`', f'the parameter `{f.local_name(a_[1]) or a_[1]}` is received as f32 and widened to f64: '
                                 'the value Python passed (a double) has been rounded to single precision before the core sees it', span=t['span'])
            for bi, blk in enumerate(g.blocks):
                for st in blk['stmts']:
                    if st['k'] == 'assign' and st['rv']['k'] == 'cast' and st['rv'].get('ty') == 'f64':
                        a_ = norm(Rg.at(bi).operand(st['rv']['a'])) if 'a' in st['rv'] else None
                        if g is f and a_ is not None and a_[0] == 'p' and a_[1] in f32_params:
                            bad += 1
                            ctx.fail('R17.10', f, f'parameter `{f.local_name(a_[1]) or a_[1]}`', f'the parameter `{f.local_name(a_[1]) or a_[1]}` is received as f32 and cast to f64: '
                                     'the value Python passed (a double) has been rounded to single precision before the core sees it', span=st.get('span'))
    if not bad:
        ctx.ok('R17.10', 'lightmotif_py', f'{n} functions of the binding take f32 parameters; none widens one to f64', ['positive control: seed C17-6 / mutant c17-pvalue-f32'])
    ctx.floor('R17.10', n, 3, 'binding functions with f32 parameters')


def r1711(db, ctx):
    ctx.rule('R17.11', 'the binding does no floating-point arithmetic of its own: no float +, -, *, /, %, sum / product or math function in any body of '
                       'lightmotif-py (values the user passes reach the core as given, and results come back as the core computed them)')
    FL = ('f32', 'f64')
    n_fn, bad = 0, 0
    for f in sorted(db.fns.values(), key=lambda f_: f_.path):
        if f.crate != 'lightmotif_py' or f.promoted_of or f.raw.get('derived'):
            continue
        n_fn += 1

        def oty(o):
            if 'k' in o:
                return o['k'].get('ty')
            pl = o.get('c') or o.get('m')
            if pl and not pl['pr']:
                return f.local_ty(pl['l'])
            if pl and pl['pr'] and isinstance(pl['pr'][-1], dict):
                return pl['pr'][-1].get('ty')
            return None
        for blk in f.blocks:
            for st in blk['stmts']:
                if st['k'] == 'assign' and st['rv']['k'] == 'bin' and st['rv']['op'] in ('Add', 'Sub', 'Mul', 'Div', 'Rem'):
                    tys = {oty(st['rv']['a']), oty(st['rv']['b'])}
                    dty = f.local_ty(st['p']['l']) if not st['p']['pr'] else None
                    if tys & set(FL) or dty in FL:
                        bad += 1
                        ctx.fail('R17.11', f, f'float {st["rv"]["op"]}', f'the binding computes a floating-point {st["rv"]["op"]} itself: a value is changed between Python and the core '
                                 '(the same arguments give different results through the core API)', span=st.get('span'))
        for bi, t in f.calls():
            c = f.callee_short(t) or ''
            full = t.get('resolved_full') or t.get('callee_full') or ''
            if c.startswith(('core::f32::', 'core::f64::', 'std::f32::', 'std::f64::')) and c.rsplit('::', 1)[-1] not in ('is_nan', 'is_finite', 'is_infinite', 'to_bits', 'from_bits') \
                    or re.search(r'::(sum|product)::<f(32|64)>$', full) or re.search(r'<f(32|64) as core::ops::(arith::)?\w+(Assign)?', full) \
                    or re.search(r'Sum<&?f(32|64)>|Product<&?f(32|64)>', full):
                bad += 1
                ctx.fail('R17.11', f, f'float computation {c.rsplit("::", 1)[-1]}', f'the binding calls {c} on floating-point values: a value is changed between Python and the core', span=t['span'])
    if not bad:
        ctx.ok('R17.11', 'lightmotif_py', f'{n_fn} bodies of the binding, no floating-point arithmetic', ['positive control: seed C17-7'])
    ctx.floor('R17.11', n_fn, 100, 'bodies of the binding inspected')


def r1712(db, ctx):
    ctx.rule('R17.12', 'matrix constructors (CountMatrix / ScoringMatrix from a dict of columns): every column is filled only after its length has been '
                       'tested equal to the number of rows — a shorter column is an error, not a column silently completed with zeros')
    n = 0
    for name in ('CountMatrix', 'ScoringMatrix'):
        try:
            f = db.fn(f'lightmotif_py::{name}::__init__')
        except KeyError:
            ctx.fail('R17.12', f'lightmotif_py::{name}::__init__', 'anchor', 'reason=anchor-missing')
            continue
        R = X.Rec(f)
        for s_ in X.stores(f, R):
            tg = norm(s_['target'])
            if not (tg[0] == 'idx' and 'as_index' in X.canon(tg[2]) and tg[1][0] == 'call' and tg[1][1].endswith(('index_mut', '::index'))):
                continue
            mat = tg[1][2][0]
            rels = G.relations(f, R, s_['block'])
            is_rows = lambda e_: common.is_call_on(e_, 'DenseMatrix::rows', mat)
            is_len = lambda e_: any(x_[0] == 'call' and x_[1].endswith(('PyAnyMethods::len', 'PyListMethods::len', 'PyTupleMethods::len', 'PySequenceMethods::len')) for x_ in X.walk(norm(e_)))
            if G.holds(rels, 'eq', is_rows, is_len):
                n += 1
                ctx.ok('R17.12', f, f'{name}: column filled under rows == len(column)', [X.show(tg, 80)])
            else:
                ctx.fail('R17.12', f, f'{name}: column fill', 'the column is written without a dominating test len(column) == matrix.rows(): a column shorter than the '
                         'first one is accepted and its missing cells keep the zero the matrix was created with', span=s_.get('span'))
    ctx.floor('R17.12', n, 4, 'column fills of the matrix constructors')


def r1713(db, ctx):
    ctx.rule('R17.13', 'Loader: under protein=True every reader is instantiated for the Protein alphabet, under protein=False for Dna (the raw JASPAR '
                       'reader, DNA by format, is only reached with protein=False)')
    try:
        f = db.fn('lightmotif_py::io::Loader::__init__')
    except KeyError:
        ctx.fail('R17.13', 'lightmotif_py::io::Loader::__init__', 'anchor', 'reason=anchor-missing')
        return
    R = X.Rec(f)
    # the `protein` parameter: the bool parameter of the constructor
    bools = [i for i in range(1, (f.raw.get('arg_count') or 0) + 1) if f.local_ty(i) == 'bool']
    if len(bools) != 1:
        ctx.fail('R17.13', f, 'protein flag', f'reason=unrecognised-shape: {len(bools)} bool parameters')
        return
    flag = ('p', bools[0])
    n = 0
    for bi, t in f.calls():
        c = f.callee_short(t) or ''
        if not (c.startswith('lightmotif_io::') and c.endswith('::read')):
            continue
        ga = t.get('gargs') or []
        alpha = 'Protein' if any(str(g_).endswith('abc::Protein') for g_ in ga) else 'Dna' if any(str(g_).endswith('abc::Dna') for g_ in ga) else None
        if alpha is None and c.endswith('jaspar::read'):
            alpha = 'Dna'
        truth = None
        for r in G.relations(f, R, bi):
            if r[0] in ('true', 'false') and norm(r[1]) == flag:
                truth = r[0] == 'true'
            if r[0] == 'switch' and norm(r[1]) == flag:
                truth = r[2] in (('eq', 1), ('notin', [0]))
        fmt = c.split('::')[1]
        if alpha is None or truth is None:
            ctx.fail('R17.13', f, f'{fmt} reader', f'reason=unrecognised-shape: alphabet {alpha}, protein flag on the path {truth}', span=t['span'])
        elif (alpha == 'Protein') != truth:
            ctx.fail('R17.13', f, f'{fmt} reader', f'with protein={truth} the {fmt} reader is instantiated for the {alpha} alphabet: the file is parsed with the wrong symbol table '
                     '(rows of the other alphabet end the matrix early or are rejected)', span=t['span'])
        else:
            n += 1
            ctx.ok('R17.13', f, f'{fmt}: protein={truth} -> {alpha}')
    ctx.floor('R17.13', n, 7, 'reader instantiations of the loader')


def run(db, ctx):
    r1713(db, ctx)
    r1712(db, ctx)
    r1711(db, ctx)
    r1710(db, ctx)
    r179(db, ctx)
    r171(db, ctx)
    r172(db, ctx)
    r173(db, ctx)
    r174(db, ctx)
    r175(db, ctx)
    r176(db, ctx)
    r177(db, ctx)
    r178(db, ctx)
    # __getitem__ of the binding returns the element the core holds at that index, negative indices counted from the end (seed C17-10)
    from . import C18
    common.shared_rule(db, ctx, C18.r181_182, 'R17.14', 'every __getitem__ uses the range-checked index, normalises a negative index by adding the __len__ quantity and tests it '
                       'against the same quantity (shared with R18.1 / R18.2)', ['R18.1', 'R18.2'])
