"""E9 — linear entailment by Fourier–Motzkin elimination with integer tightening of every constraint (no external solver).

entails(hyps, goal): do the hypotheses {h >= 0} imply goal >= 0 ?  All forms are dicts atom -> Fraction with '' the constant.
Integer tightening is used for strict negation: not(goal >= 0) is goal <= -1 (all atoms are integers here).
"""
from fractions import Fraction


def _norm(c):
    return {k: Fraction(v) for k, v in c.items() if v != 0}


def _tighten(c):
    """Integer tightening of  sum a_i x_i + c0 >= 0  (every atom is an integer quantity): scale to integer coefficients, divide by their
    gcd g and round the constant down:  sum (a_i/g) x_i + floor(c0/g) >= 0.  Sound over the integers, and what lets  16k < 16q  give  k + 1 <= q."""
    from math import gcd
    ks = [k for k in c if k != '']
    if not ks:
        return c
    den = 1
    for k in c:
        den = den * c[k].denominator // gcd(den, c[k].denominator)
    ints = {k: int(c[k] * den) for k in c}
    g = 0
    for k in ks:
        g = gcd(g, abs(ints[k]))
    if g <= 1:
        return c
    out = {k: Fraction(ints[k] // g) for k in ks}
    c0 = ints.get('', 0)
    fl = c0 // g            # floor division (Python semantics for negatives: rounds towards -inf)
    if fl:
        out[''] = Fraction(fl)
    return out


def _subst_equalities(cons):
    """Equalities (a constraint and its negation both present) with a unit-coefficient atom are solved for that atom and substituted
    everywhere, so that `e = 16k` keeps its divisibility information (plain elimination of k would forget it)."""
    cons = list(cons)
    for _ in range(32):
        keyed = {}
        for i, c in enumerate(cons):
            keyed.setdefault(frozenset(c.items()), i)
        pick = None
        for i, c in enumerate(cons):
            neg = frozenset((k, -v) for k, v in c.items())
            j = keyed.get(neg)
            if j is not None and j != i and c:
                # prefer the atom that occurs in the fewest other constraints among the unit ones
                units = [k for k, v in c.items() if k != '' and abs(v) == 1]
                if units:
                    pick = (i, j, units)
                    break
        if pick is None:
            return cons
        i, j, units = pick
        c = cons[i]
        # choose the unit atom whose removal leaves non-unit coefficients (the "defined" quantity: e in e = 16k)
        var = max(units, key=lambda k: sum(abs(v) for kk, v in c.items() if kk not in ('', k)))
        a = c[var]
        # var = -(rest)/a
        rest = {k: -v / a for k, v in c.items() if k != var}
        out = []
        for idx, d in enumerate(cons):
            if idx in (i, j):
                continue
            if var in d:
                coef = d[var]
                nd = {k: v for k, v in d.items() if k != var}
                for k, v in rest.items():
                    nd[k] = nd.get(k, 0) + coef * v
                d = _norm(nd)
            out.append(d)
        cons = out
    return cons


def _feasible(cons, limit=4000):
    """Is the system {c >= 0 for c in cons} satisfiable over the rationals?"""
    cons = _subst_equalities([_norm(c) for c in cons])
    cons = [_tighten(c) for c in cons]
    while True:
        # constant-only constraints
        rest = []
        for c in cons:
            if set(c) <= {''}:
                if c.get('', 0) < 0:
                    return False
            else:
                rest.append(c)
        cons = rest
        if not cons:
            return True
        # pick the variable occurring in the fewest products
        vars_ = {}
        for c in cons:
            for k, v in c.items():
                if k != '':
                    p = vars_.setdefault(k, [0, 0])
                    p[0 if v > 0 else 1] += 1
        var = min(vars_, key=lambda k: vars_[k][0] * vars_[k][1])
        pos = [c for c in cons if c.get(var, 0) > 0]
        neg = [c for c in cons if c.get(var, 0) < 0]
        zer = [c for c in cons if c.get(var, 0) == 0]
        new = list(zer)
        for p in pos:
            for n in neg:
                a, b = p[var], -n[var]
                comb = {}
                for k, v in p.items():
                    comb[k] = comb.get(k, 0) + v * b
                for k, v in n.items():
                    comb[k] = comb.get(k, 0) + v * a
                comb.pop(var, None)
                new.append(_tighten(_norm(comb)))
        if len(new) > limit:
            return True  # give up: cannot prove infeasibility
        cons = new


def entails(hyps, goal):
    neg = {k: -v for k, v in goal.items()}
    neg[''] = neg.get('', 0) - 1          # goal <= -1
    return not _feasible(list(hyps) + [neg])


def lin_sub(a, b):
    o = dict(a)
    for k, v in b.items():
        o[k] = o.get(k, 0) - v
    return _norm(o)


def lin_addc(a, c):
    o = dict(a)
    o[''] = o.get('', 0) + c
    return _norm(o)


def scale(a, k):
    return _norm({x: v * k for x, v in a.items()})
