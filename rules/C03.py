"""C03 — scanner best hit is a maximum-scoring position that meets the threshold."""
from lm import expr as X, guards as G
from lm.match import norm, m
from . import scanner as S, common

LEVEL_NOTE = ('decides (part): pruning bound only ever assigned an under-estimate (scale of an exact score); no unwrap of an empty block; '
              'candidate bounded before rescoring; position formula; block partition; best is seeded from the buffered hits >= threshold and '
              'replaced only under an exact comparison; a first candidate must pass score >= threshold. Exact maximality then follows with C08 (paper argument in DESIGN).')

IDS = {'unwrap': 'R3.2', 'bound': 'R3.2', 'formula': 'R3.2', 'cmp': 'R3.1', 'block': 'R3.2', 'once': 'R3.2', 'prefilter': 'R3.1', 'down': 'R3.1'}


def prefilter_conservative(db, ctx):
    """The scanner only never loses a hit if the 8-bit pre-filter over-estimates: re-evaluate the C08 rules as part of this property."""
    from . import C08
    ctx.rule('R3.5', 'pre-filter is conservative (C08 rules R8.1-R8.3 re-evaluated): cells rounded up, threshold rounded down, every 8-bit accumulation saturates')
    before, vb = len(ctx.obligations), len(ctx.violations)
    C08.r81(db, ctx)
    C08.r82(db, ctx)
    C08.r83(db, ctx)
    for o in ctx.obligations[before:]:
        o['rule'] = 'R3.5'
    for v in ctx.violations[vb:]:
        v['key'] = v['key'].replace(v['rule'], 'R3.5', 1)
        v['rule'] = 'R3.5'
    for k in ('R8.1', 'R8.2', 'R8.3', 'R8.3i'):
        ctx.rules_text.pop(k, None)
        if k in ctx.floors:
            ctx.floors['R3.5-' + k] = ctx.floors.pop(k)


def _deref_deep(e):
    """e with every reference / dereference wrapper removed (comparison operands are taken by reference)."""
    if not isinstance(e, tuple):
        return e
    if e and e[0] in ('ref', 'deref') and len(e) == 2:
        return _deref_deep(e[1])
    return tuple(_deref_deep(x) for x in e)


def _run(db, ctx):
    ctx.rule('R3.1', 'the 8-bit pruning bound is only ever an under-estimate: scale(exact score); 8-bit tests are inclusive')
    ctx.rule('R3.2', 'R2.1/R2.2/R2.3/R2.5 on Scanner::max')
    ctx.rule('R3.3', 'best is seeded from the buffered hits filtered by score >= threshold')
    ctx.rule('R3.4', 'best is replaced only under an exact-score comparison with the current best, or (when there is none) score >= threshold')
    a = S.analyse(db, ctx, 'max', IDS)
    if not a:
        return
    f, R = a['f'], a['R']
    # locate `best`: the Option<Hit> local returned
    ret = [s for blk in f.blocks for s in blk['stmts'] if s['k'] == 'assign' and s['p']['l'] == 0 and not s['p']['pr']]
    best = None
    for s in ret:
        o = s['rv'].get('a', {})
        pl = o.get('m') or o.get('c')
        if pl and not pl['pr']:
            best = pl['l']
    if best is None:
        ctx.fail('R3.4', f, 'result', 'reason=unrecognised-shape: returned value is not a local Option<Hit>')
        return
    defs = f.defs().get(best, [])
    seed = [d for d in defs if d[1] == 'term']
    upd = [d for d in defs if d[1] != 'term']
    # R3.3 seed
    ok_seed = False
    if len(seed) == 1:
        from lm import reduce as RD
        e = norm(R.call(seed[0][2]))
        # max_by(natural order) over the buffered hits that still reach the threshold; the buffer is emptied (mem::take / drain(..))
        b = m(('call~', 'Iterator::max_by', (('call~', 'Iterator::filter', ('$src', '$clo')), '$cmp')), e)
        if b is not None:
            src = b['$src']
            emptied = m(('call~', 'mem::take', ('$h',)), src) or m(('call~', 'Vec::drain', ('$h', '_')), src) or \
                m(('call~', 'mem::replace', ('$h', ('call~', ('Vec::new', 'Default::default'), ()))), src)
            if emptied is not None and S.self_field(emptied['$h'], 'hits'):
                hit = ('sym', 'hit')
                cond = RD.apply_fn(db, b['$clo'], [hit])
                rel = G.as_relation(cond, True) if cond is not None else None
                keep = rel is not None and ((rel[0] == 'ge' and norm(rel[1]) == ('fld', hit, 'score') and S.self_field(rel[2], 'threshold')) or
                                            (rel[0] == 'le' and norm(rel[2]) == ('fld', hit, 'score') and S.self_field(rel[1], 'threshold')))
                x_, y_ = ('sym', 'x'), ('sym', 'y')
                cmp_ = RD.apply_fn(db, b['$cmp'], [x_, y_])
                natural = cmp_ is not None and (m(('call~', ('Option::unwrap', 'Option::expect'), (('call~', '::partial_cmp', (x_, y_)),)), cmp_) is not None or
                                                m(('call~', ('Option::unwrap', 'Option::expect'), (('call~', '::partial_cmp', (('fld', x_, 'score'), ('fld', y_, 'score'))),)), cmp_) is not None)
                ok_seed = keep and natural
    if not ok_seed and not seed:
        # loop form of the same seeding: `best = None; for hit in take(self.hits) { if !(hit.score >= threshold) { continue }; best = match best {
        # None => Some(hit), Some(cur) => match cur.score.partial_cmp(&hit.score).unwrap() { Greater => Some(cur), _ => Some(hit) } } }`
        def emptied_hits(src):
            e_ = m(('call~', 'mem::take', ('$h',)), src) or m(('call~', 'Vec::drain', ('$h', '_')), src) or \
                m(('call~', 'mem::replace', ('$h', ('call~', ('Vec::new', 'Default::default'), ()))), src)
            return e_ is not None and S.self_field(e_['$h'], 'hits')
        is_opt = lambda v_, k_: v_[0] == 'agg' and isinstance(v_[1], tuple) and v_[1][0] == 'adt' and v_[1][1].endswith('option::Option') and len(v_[2]) == k_
        inits = [d for d in upd if not any(d[0] in L_['body'] for L_ in f.loops()) and is_opt(norm(R.at(d[0]).rvalue(d[2])), 0)]
        seeding, why_seed = [], None
        for d in upd:
            if d in inits:
                continue
            v_ = norm(R.at(d[0]).rvalue(d[2]))
            cands = [(d[0], v_)]
            if v_[0] == 'v':
                cands = [(b_, norm(R.at(b_).call(x_) if s_ == 'term' else R.at(b_).rvalue(x_))) for b_, s_, x_ in f.defs().get(v_[1], [])]
            srcs = [c_[2][0] for _, c_ in cands if is_opt(c_, 1) and norm(c_[2][0])[0] == 'elem']
            if not srcs or not all(emptied_hits(norm(x_)[1]) for x_ in srcs):
                continue
            hit = norm(srcs[0])
            cur = ('fld', ('down', ('v', best), 'Some'), '0')
            okd = True
            for b_, c_ in cands:
                rels_ = G.relations(f, R, b_)
                keep = any((r_[0] == 'ge' and norm(r_[1]) == ('fld', hit, 'score') and S.self_field(r_[2], 'threshold')) or
                           (r_[0] == 'le' and norm(r_[2]) == ('fld', hit, 'score') and S.self_field(r_[1], 'threshold')) for r_ in rels_)
                sw_best = [r_[2] for r_ in rels_ if r_[0] == 'switch' and norm(r_[1]) == ('discr', ('v', best))]
                sw_cmp = [(norm(r_[1]), r_[2]) for r_ in rels_ if r_[0] == 'switch' and 'partial_cmp' in X.canon(r_[1])]
                cmp_ok = lambda want: any(m(('discr', ('call~', ('Option::unwrap', 'Option::expect'), (('call~', 'partial_cmp', (('fld', cur, 'score'), ('fld', hit, 'score'))),))), _deref_deep(e_)) is not None and c2_ == want for e_, c2_ in sw_cmp)
                if not keep or not is_opt(c_, 1):
                    okd, why_seed = False, 'a seeding assignment is not under hit.score >= self.threshold'
                elif norm(c_[2][0]) == hit and sw_best == [('eq', 0)]:
                    pass                                    # no best yet: the first hit that reaches the threshold
                elif norm(c_[2][0]) == hit and sw_best == [('eq', 1)] and cmp_ok(('in', [255, 0])):
                    pass                                    # current <= hit: the later of equal hits wins, as max_by does
                elif norm(c_[2][0]) == cur and sw_best == [('eq', 1)] and cmp_ok(('eq', 1)):
                    pass                                    # current > hit: kept
                else:
                    okd, why_seed = False, f'seeding assignment {X.show(c_, 80)} is not one of: first hit, later hit not below the current one, current one above the hit'
            if okd and len(cands) >= 3:
                seeding.append(d)
        if len(inits) == 1 and len(seeding) == 1:
            ok_seed = True
            upd = [d for d in upd if d not in inits and d not in seeding]
    if ok_seed:
        ctx.ok('R3.3', f, 'best seeded from take(self.hits) filtered by hit.score >= self.threshold')
    else:
        ctx.fail('R3.3', f, 'seed of best', 'best is not seeded from the buffered hits filtered by score >= threshold')
    # R3.4 updates
    n_upd = 0
    for bi, si, rv in upd:
        v = norm(R.rvalue(rv))
        b = m(('agg', '_', (('call~', 'Hit::new', ('$pos', '$score')),)), v)
        if not b:
            ctx.fail('R3.4', f, 'update of best', f'best assigned {X.show(v, 120)} (not Some(Hit::new(index, score)))')
            continue
        n_upd += 1
        if X.canon(b['$pos']) != X.canon(a['idx']) or not (b['$score'][0] == 'call' and b['$score'][1].endswith('score_position')):
            ctx.fail('R3.4', f, 'update of best', 'new best is not (rescored index, its exact score)')
            continue
        # on every path into the update: either a best exists and the exact score was compared with its score (score > best.score; >=, or
        # == with a position tie-break, on one side of a disjunction), or none exists yet and the exact score reaches the threshold
        def exact_cmp(rs, allow_eq):
            for r in rs:
                if r[0] in ('true', 'gt', 'ge', 'lt', 'le', 'eq'):
                    if r[0] == 'true':
                        e_ = r[1]
                    else:
                        e_ = ('bin', {'gt': 'FGt', 'ge': 'FGe', 'lt': 'FLt', 'le': 'FLe', 'eq': 'Eq'}[r[0]], r[1], r[2])
                    for x in X.walk(e_):
                        if x[0] == 'bin' and x[1] in ('Gt', 'Ge', 'FGt', 'FGe') and 'score_position' in X.canon(x[2]) and X.canon(x[3]).endswith('.score'):
                            return True
                        if x[0] == 'bin' and x[1] in ('Lt', 'Le', 'FLt', 'FLe') and 'score_position' in X.canon(x[3]) and X.canon(x[2]).endswith('.score'):
                            return True
                        if allow_eq and x[0] == 'bin' and x[1] == 'Eq' and {('score_position' in X.canon(x[2])), X.canon(x[3]).endswith('.score')} == {True}:
                            return True
            return False
        dbest = ('discr', ('v', best))

        def best_state(a_):
            st_ = set()
            for r in a_:
                if r[0] == 'switch' and norm(r[1]) == dbest:
                    st_.add('some' if r[2] == ('eq', 1) else ('none' if r[2] in (('notin', [1]), ('eq', 0)) else '?'))
                elif r[0] in ('eq', 'ne') and len(r) > 3 and norm(r[1]) == dbest and norm(r[2])[0] == 'k':
                    is1 = norm(r[2])[1] == 1
                    st_.add('some' if (r[0] == 'eq') == is1 else 'none')
            return st_
        alts = G.expand_alternatives(G.alternatives(f, X.AliasRec(f, db, ite=True), bi))
        with_best = [a_ for a_ in alts if best_state(a_) == {'some'}]
        without = [a_ for a_ in alts if best_state(a_) == {'none'}]
        if len(with_best) + len(without) != len(alts) or not alts:
            ctx.fail('R3.4', f, 'update of best', 'reason=unrecognised-shape: update not under a test of whether a best exists')
            continue
        if with_best:
            okc = all(exact_cmp(a_, len(with_best) > 1) for a_ in with_best) and any(exact_cmp(a_, False) for a_ in with_best)
            if okc:
                ctx.ok('R3.4', f, 'best replaced only when the exact score beats the current best', ['REAL > REAL (ties by position)'])
            else:
                ctx.fail('R3.4', f, 'replacement of best', 'replacement is not guarded by an exact comparison score > best.score')
        if without:
            g = all(G.holds(a_, 'ge', lambda e: 'score_position' in X.canon(e), lambda e: S.self_field(e, 'threshold')) for a_ in without)
            if g:
                ctx.ok('R3.4', f, 'first candidate accepted only if score >= self.threshold', ['agrees with Scanner::next (R2.4)'])
            else:
                ctx.fail('R3.4', f, 'first candidate accepted without the exact threshold test',
                         'when no best exists yet the candidate is accepted on its 8-bit score alone; an over-estimated candidate below the real threshold is returned although next() yields nothing')
    ctx.floor('R3.4', n_upd, 1, 'updates of best from rescored candidates')
    prefilter_conservative(db, ctx)


def hit_order(db, ctx, rid):
    """The natural order of hits, which seeds `best` (R3.3) and merges the buffered hits: by score first, ties by position."""
    from lm import reduce as RD
    ctx.rule(rid, 'Hit::partial_cmp compares the scores first (None when they are not comparable) and the positions only when the scores are equal')
    fs = [f for f in db.fns.values() if f.path.startswith('<lightmotif::scan::Hit as core::cmp::PartialOrd>::partial_cmp') and f.kind == 'AssocFn' and not f.promoted_of]
    if len(fs) != 1:
        ctx.fail(rid, 'lightmotif::scan::Hit::partial_cmp', 'anchor', f'reason=anchor-missing: {len(fs)} bodies')
        return
    f = fs[0]
    SC = ('call~', '::partial_cmp', (('fld', ('p', 1), 'score'), ('fld', ('p', 2), 'score')))
    POS = ('call~', ('::partial_cmp', '::cmp'), (('fld', ('p', 1), 'position'), ('fld', ('p', 2), 'position')))
    e = common.return_expr_single_path_allow(f)
    en = norm(e) if e is not None else None
    ok, why = False, ''
    if en is not None and m(('call~', 'Option::map', (SC, '$clo')), en) is not None:
        # score.partial_cmp(..).map(|o| o.then_with(|| position.cmp(..)))
        clo = m(('call~', 'Option::map', (SC, '$clo')), en)['$clo']
        out = RD.apply_fn(db, clo, [('sym', 'o')])
        on = norm(out) if out is not None else None
        mt = m(('call~', ('Ordering::then_with', 'Ordering::then'), (('sym', 'o'), '$t')), on) if on is not None else None
        if mt is not None:
            t_ = mt['$t']
            if on[1].endswith('then_with'):
                t2 = RD.apply_fn(db, t_, [])
                t_ = norm(t2) if t2 is not None else None
            ok = t_ is not None and m(POS, t_) is not None
        why = f'map form: {X.show(on, 100) if on is not None else None}'
    else:
        # match score.partial_cmp(..)? { Equal => position.partial_cmp(..), other => Some(other) }
        R = X.Rec(f, ite=True)
        ords = ('fld', ('down', ('call~', 'Try::branch', (SC,)), 'Continue'), '0')
        kinds = []
        for d_ in f.defs().get(0, []):
            v = norm(R.call(d_[2]) if d_[1] == 'term' else R.rvalue(d_[2]))
            rels = G.relations(f, R, d_[0])
            eq_sw = [r for r in rels if r[0] == 'switch' and m(('discr', SC), norm(r[1])) is None and m(('discr', ('call~', 'Try::branch', (SC,))), norm(r[1])) is None]
            is_equal = any(r[2] == ('eq', 0) for r in eq_sw)
            not_equal = any(r[2] in (('notin', [0]),) or (r[2][0] == 'eq' and r[2][1] != 0) for r in eq_sw)
            if m(('call~', 'from_residual', '_'), v) is not None or (v[0] == 'agg' and v[1][2] == 'None' if v[0] == 'agg' and isinstance(v[1], tuple) else False):
                kinds.append('none')
            elif m(POS, v) is not None or (v[0] == 'agg' and len(v[2]) == 1 and m(POS, v[2][0]) is not None):
                kinds.append('pos' if is_equal and not not_equal else 'pos-unguarded')
            elif v[0] == 'agg' and len(v[2]) == 1 and (m(ords, v[2][0]) is not None or m(('fld', ('down', SC, 'Some'), '0'), v[2][0]) is not None):
                kinds.append('score' if not_equal and not is_equal else 'score-unguarded')
            elif v[0] == 'agg' and len(v[2]) == 1 and m(('call~', ('Ordering::then_with', 'Ordering::then'), ('$o', '$t')), v[2][0]) is not None:
                # let by_score = self.score.partial_cmp(&other.score)?; Some(by_score.then_with(|| self.position.cmp(&other.position)))
                mt = m(('call~', ('Ordering::then_with', 'Ordering::then'), ('$o', '$t')), v[2][0])
                t_ = mt['$t']
                if v[2][0][1].endswith('then_with'):
                    t2 = RD.apply_fn(db, t_, [])
                    t_ = norm(t2) if t2 is not None else None
                first = m(ords, mt['$o']) is not None or m(('fld', ('down', SC, 'Some'), '0'), mt['$o']) is not None
                kinds.append('score-then-pos' if first and t_ is not None and m(POS, t_) is not None else 'other:' + X.show(v, 60))
            else:
                kinds.append('other:' + X.show(v, 60))
        ok = sorted(set(kinds)) in (['none', 'pos', 'score'], ['pos', 'score'], ['none', 'score-then-pos'], ['score-then-pos'])
        why = f'match form: {sorted(set(kinds))}'
    if ok:
        ctx.ok(rid, f, 'hits are ordered by score, ties by position', [why])
    else:
        ctx.fail(rid, f, 'order of hits', f'the order is not "score first, position on equal scores" ({why}): the best hit and the order in which hits are yielded rest on it')


def run(db, ctx):
    hit_order(db, ctx, 'R3.10')
    _run(db, ctx)
    # the scanner scores one block of rows per iteration into a reused buffer, including a possibly empty trailing block that starts in the
    # look-ahead rows: every score wrapper must resize (clear) the output on every path, or stale 8-bit scores of the previous block are re-read
    from . import C01
    common.shared_rule(db, ctx, C01.r13, 'R3.6', 'every score_rows_into wrapper the scanner can dispatch to resizes the output buffer on every path '
                       '(to (rows.len(), L + 1 - M), or to (0, 0) when there is nothing to score) — shared with R1.3', ['R1.3'])
    # a block of the 8-bit pre-filter is skipped when its maximum is below the discrete threshold: that maximum must be an upper bound of
    # every cell of the block (all rows, all columns), or qualifying positions are dropped without being rescored
    from . import C07
    common.shared_rule(db, ctx, C07.block_maximum, 'R3.7', 'the block maximum that gates the 8-bit pre-filter covers every row and every column of the block '
                       '(AVX2 max kernel: identity, row range, lane coverage, final reduction; generic: argmax scan over all cells) — shared with R7.1 / R7.4', ['R7.1', 'R7.4'])
    from . import C04
    common.shared_rule(db, ctx, C04.lookahead_rules, 'R3.8', 'the look-ahead rows and the row count Scanner::max relies on (configure_wrap / configure bookkeeping) '
                       '— shared with R4.5 / R4.8', ['R4.5', 'R4.8'])
    # the cells the scanner rescues from a block are those Threshold::threshold lists: it must list every cell >= the byte threshold
    # (seed C03-7: `>` drops the cells equal to it — saturated windows at threshold = max_score, and accept-all thresholds)
    from . import C07
    common.shared_rule(db, ctx, C07.r75, 'R3.9', 'Threshold::threshold lists every cell of the block whose 8-bit score is >= the byte threshold, '
                       'all rows and all C columns, with the position it stands for (shared with R7.5)', ['R7.5'])
    common.shared_rule(db, ctx, C04.stripe_rules, 'R3.11', 'the striped matrix Scanner::max scores is the sequence (shared with R4.1 - R4.4; seed C03-9 swapped two rows of the AVX2 transposition)',
                       ['R4.1', 'R4.2', 'R4.3', 'R4.4'])
    from . import C01
    common.shared_rule(db, ctx, C01.r111, 'R3.12', 'StripedScores::resize stores max_index as given (the scanner bounds candidates by it while scoring one block of rows at a time) '
                       '— shared with R1.11', ['R1.11'])
