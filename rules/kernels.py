"""Specification checks of the SIMD kernels on top of the lane engine (lm/lanes.py)."""
from fractions import Fraction
from lm import lanes as LN, expr as X
from lm.lanes import Vec, Ptr, lane, lanes
from lm.match import norm, m

_cache = {}


def evaluate(db, path):
    f = db.fn(path)
    key = (id(db), f.path)
    if key not in _cache:
        try:
            _cache[key] = (LN.Eval(f, db).run(), None)
        except LN.Unsupported as e:
            _cache[key] = (None, str(e))
    return f, _cache[key][0], _cache[key][1]


def linof(v):
    if isinstance(v, dict):
        return v
    return X.lin(v)


def lin_add(a, b, ka=1, kb=1):
    o = {}
    for k, v in a.items():
        o[k] = o.get(k, 0) + v * ka
    for k, v in b.items():
        o[k] = o.get(k, 0) + v * kb
    return {k: v for k, v in o.items() if v != 0}


def lin_div(a, d):
    return {k: Fraction(v) / d for k, v in a.items()}


def lin_eq(a, b):
    return lin_add(a, b, 1, -1) == {}


def phi_update(E, H, l, q, w):
    """Per-iteration transfer of lane q (width w) of vector local l carried by loop H:
    returns (op, X) with update == op(phi_lane, X), or ('id',) if unchanged, or None."""
    L = E.loops[H]
    v = L.update.get(l)
    if not isinstance(v, Vec):
        return None
    t = lane(v, q, w)
    me = ('phiw', H, l, q, w) if w > 1 else ('phi', H, l, q)
    if t == me:
        return ('id',)
    if isinstance(t, tuple) and len(t) == 3 and t[0] in ('add_f32', 'adds_u8', 'max_f32', 'max_u8', 'add_wrap8', 'max_i8'):
        if t[1] == me and not mentions(t[2], ('phi', H, l)):
            return (t[0], t[2])
        if t[2] == me and not mentions(t[1], ('phi', H, l)):
            return (t[0], t[1])
    return ('other', t)


def mentions(t, key):
    """Does term t mention a phi/out byte of (kind, H, l)?"""
    if isinstance(t, tuple):
        if len(t) >= 3 and t[0] in ('phi', 'phiw') and key[0] == 'phi' and t[1] == key[1] and t[2] == key[2]:
            return True
        if len(t) >= 3 and t[0] in ('out', 'outw') and key[0] == 'out' and t[1] == key[1] and t[2] == key[2]:
            return True
        return any(mentions(x, key) for x in t)
    return False


def ptr_update(E, H, l):
    """Byte stride by which pointer local l advances per iteration of loop H (lin dict), or None."""
    L = E.loops[H]
    v = L.update.get(l)
    if isinstance(v, Ptr) and v.base == ('phi', H, l):
        return v.off
    return None


def ptr_init(E, H, l):
    v = E.loops[H].carried.get(l)
    return v if isinstance(v, Ptr) else None


def as_lookup(X_, E, ctx=None):
    """Normalise the per-position term of a scoring kernel to (table pointer key, element size, symbol byte term, how)."""
    t = X_
    if not isinstance(t, tuple):
        return None
    if t[0] == 'lookup32':
        tab, idx = t[1], t[2]
        if idx[0] == 'zext' and idx[1] == 4 and len(tab) == 8 and all(x[0] == 'ldw' and x[3] == 4 for x in tab) and len({x[1] for x in tab}) == 1 \
                and [x[2] for x in tab] == [4 * k for k in range(8)]:
            return (tab[0][1], 4, idx[2], 'permutevar8x32 on the loaded 32-byte row (index mod 8)')
        return None
    if t[0] == 'gather32':
        key, scale, idx = t[1], t[2], t[3]
        if idx[0] == 'zext' and idx[1] == 4:
            return (key, scale, idx[2], f'i32gather scale {scale}')
        return None
    if t[0] == 'tbl16':
        tab, ctl = t[1], t[2]
        if all(x[0] == 'ld' for x in tab) and len({x[1] for x in tab}) == 1 and [x[2] for x in tab] == list(range(16)):
            return (tab[0][1], 1, ctl, 'TBL on the 16 bytes loaded at the row pointer (index >= 16 gives 0; symbols are < K <= 16)')
        return None
    if t[0] == 'lookup8':
        tab, ctl = t[1], t[2]
        if all(x[0] == 'ld' for x in tab) and len({x[1] for x in tab}) == 1 and [x[2] for x in tab] == list(range(16)):
            return (tab[0][1], 1, ctl, 'pshufb on the 16-byte row broadcast to both halves')
        return None
    return None


def select_sum_lookup(E, H, l, q):
    """SSE2 form: inside loop H (k in 0..K): acc' = acc + select(eq(zext(sym), scalar(k)), bcast(ld32(ptr + 4k)), 0)."""
    u = phi_update(E, H, l, q, 4)
    if not u or u[0] != 'add_f32':
        return None
    t = u[1]
    if not (isinstance(t, tuple) and t[0] == 'select' and LN.zero(t[3], 4)):
        return None
    mask, val = t[1], t[2]
    if mask[0] != 'eq':
        return None
    a, b = mask[1], mask[2]
    sym, kk = (a, b) if b[0] == 'scalar' else (b, a)
    if not (sym[0] == 'zext' and sym[1] == 4 and kk[0] == 'scalar' and LN.is_elem(kk[2], H)):
        return None
    if not (val[0] == 'ldw' and val[3] == 4 and val[2] == 0):
        return None
    # table pointer: base + 4*k
    key = val[1]
    L = E.loops[H]
    it = L.iter
    return {'sym': sym[2], 'tabkey': key, 'iter': it}


def store_cells(E, row_loop, base_pred):
    """Stores inside `row_loop` through a pointer carried by that loop: list of (Access, byte offset lin)."""
    out = []
    for a in E.acc:
        if a.kind == 'store' and isinstance(a.ptr, Ptr) and isinstance(a.ptr.base, tuple) and a.ptr.base[:2] == ('phi', row_loop) and isinstance(a.value, Vec):
            out.append(a)
    return out


def root_of(E, ptr, depth=0):
    """Follow phi pointers to their initial value: returns (root Ptr, [(H, local, step lin)], total offset lin)."""
    steps = []
    off = dict(ptr.off)
    p = ptr
    for _ in range(6):
        b = p.base
        if isinstance(b, tuple) and b and b[0] == 'phi':
            H, l = b[1], b[2]
            ini = E.loops[H].carried.get(l)
            st = ptr_update(E, H, l)
            if not isinstance(ini, Ptr) or st is None:
                return None, steps, off
            steps.append((H, l, st))
            for k, v in ini.off.items():
                off[k] = off.get(k, 0) + v
            p = ini
        else:
            break
    # a block of a chunk iterator (`for (a, b) in x.chunks_exact(n).zip(y.chunks_exact_mut(n))`, `a.as_ptr()`): the k-th block of x starts
    # n elements after the (k-1)-th, i.e. a pointer into x bumped by n elements per iteration of the loop that draws the blocks
    ck = chunk_base(p.base)
    if ck is not None:
        H, coll, n = ck
        # element size of the chunked slice (not of the pointer it was cast to)
        esz = None
        full = coll
        coll = chunk_source(coll)[0]
        if coll[0] in ('p', 'v'):
            ty = LN.pointee(E.fn.local_ty(coll[1])) or ''
            if ty.startswith('[') and ty.endswith(']'):
                esz = LN.sizeof(ty[1:-1].split(';')[0])
        if esz is None:
            return None, steps, off
        steps.append((H, ('chunks', full, n), {'': Fraction(n * esz)}))
        p = Ptr(('slice', coll), {}, p.elem)
    # a pointer into a sub-slice of a parameter slice (`x[a..]`, `x[..b]`, `x.split_at(h).0 / .1`): the same pointer into x, a elements further
    sv = subslice_view(p.base)
    if sv is not None:
        par, offs = sv
        ty = LN.pointee(E.fn.local_ty(par[1])) or ''
        esz = LN.sizeof(ty[1:-1].split(';')[0]) if ty.startswith('[') and ty.endswith(']') else None
        if esz is None:
            return None, steps, off
        for o in offs:
            for k, v in X.lin(o).items():
                off[k] = off.get(k, 0) + v * esz
        p = Ptr(('slice', par), {}, p.elem)
        p.subslice_offs = list(offs)
    # index-derived row steps (`base.add(j * stride)`): same meaning as a pointer bumped by `stride` in every iteration of loop H
    for k in list(off):
        if isinstance(k, str) and k.startswith('it#') and '*' in k:
            H, atom = k[3:].split('*', 1)
            steps.append((int(H), None, {atom: off.pop(k)}))
    return p, steps, {k: v for k, v in off.items() if v != 0}


def classify(base):
    """ROW(matrix expr) | SLICE(param) | LOCAL | OTHER."""
    if isinstance(base, tuple) and base and base[0] == 'slice':
        inner = base[1]
        if isinstance(inner, tuple) and inner and inner[0] == 'call' and inner[1].endswith(('::index', '::index_mut')):
            return ('ROW', inner[2][0], inner[2][1])
        if isinstance(inner, tuple) and inner and inner[0] == 'p':
            return ('SLICE', inner[1])
        return ('OTHER', inner)
    if isinstance(base, tuple) and base and base[0] == 'local':
        return ('LOCAL', base[1])
    return ('OTHER', base)




def _is_lanes16(e):
    """The SSE2 lane count: the literal 16 or `<Sse2 as Backend>::Lanes::USIZE`."""
    e = norm(e)
    if e[0] == 'k' and e[1] == 16:
        return True
    return e[0] == 'kc' and e[1].endswith('Unsigned::USIZE') and 'Sse2' in e[1] and 'Backend>::Lanes' in e[1]


def block_offset(db, f, E, H):
    """How the element of loop H enumerates the 16-column blocks of a row, or None.
        ('offset', 16): element = 16 * position, position in 0..C/16    (`(0..Q).map(|i| i * 16)`, `(0..C).step_by(16)`)
        ('block', 1)  : element = position in 0..C/16                  (`0..Q`; the kernel multiplies by 16 itself)
    Q = <C as MultipleOf<U16>>::Quotient.  The step_by form needs C to be a multiple of 16: the where-clause `C: MultipleOf<U16>` of f."""
    from . import common
    L = E.loops[H]
    it = L.iter
    if not it:
        return None
    if it[0] == 'range' and norm(it[1]) == ('k', 0) and common.is_usize_const(it[2], 'Q'):
        return ('block', 1)
    if it[0] != 'iter' or not isinstance(it[1], tuple) or it[1][0] != 'call':
        return None
    c = it[1]
    if c[1].endswith('Iterator::map') and len(c[2]) == 2:
        src, clo = c[2]
        if not (src[0] == 'agg' and len(src[2]) == 2 and norm(src[2][0]) == ('k', 0) and common.is_usize_const(src[2][1], 'Q')):
            return None
        if clo[0] == 'agg' and clo[1][0] == 'closure' and clo[1][1] in db.fns:
            ce = common.return_expr_single_path_allow(db.fns[clo[1][1]])
            b = m(('bin', 'Mul', '$a', '$b'), norm(ce)) if ce is not None else None
            if b is not None and ((b['$a'] == ('p', 2) and _is_lanes16(b['$b'])) or (b['$b'] == ('p', 2) and _is_lanes16(b['$a']))):
                return ('offset', 16)
        return None
    if c[1].endswith('Iterator::step_by') and len(c[2]) == 2:
        src, step = c[2]
        if src[0] == 'agg' and len(src[2]) == 2 and norm(src[2][0]) == ('k', 0) and common.is_usize_const(src[2][1], 'C') and _is_lanes16(step):
            preds = f.raw.get('preds') or []
            if any('<C as lightmotif::num::MultipleOf<' in p and ('U16' in p.split('MultipleOf<', 1)[1] or 'Sse2 as lightmotif::pli::platform::Backend>::Lanes' in p) for p in preds):
                return ('offset', 16)
    return None


def bump_view(E):
    """Present index-derived row addresses (`base.add(i * stride)` with i the index of loop H) as a pointer bumped by `stride` once per
    iteration of H, which is the form the reduction rules are written on.  For every loop H whose accesses all use the same
    `it#H*<stride atom>` term, a virtual carried pointer ('virt', H) is added: start = base + (the loop-invariant multiple of the stride),
    step = the coefficient of the it-term; the load / store keys inside all lane terms are rewritten to offsets from that pointer.
    Loops that already carry a pointer, or whose accesses disagree, are left alone (the rules then fail closed as before)."""
    import copy
    by_loop = {}
    for a in E.acc:
        if not isinstance(a.ptr, Ptr):
            continue
        its = [k for k in a.ptr.off if isinstance(k, str) and k.startswith('it#') and '*' in k]
        if len(its) == 1:
            H = int(its[0][3:].split('*', 1)[0])
            by_loop.setdefault(H, []).append((a, its[0]))
    mapping = {}
    for H, lst in by_loop.items():
        L = E.loops.get(H)
        if L is None or any(isinstance(v, Ptr) for v in L.carried.values()):
            continue
        terms = {(k, a.ptr.off[k], a.ptr.base) for a, k in lst}
        if len(terms) != 1:
            continue
        k, coef, base = next(iter(terms))
        atom = k[3:].split('*', 1)[1]
        inv = {a.ptr.off.get(atom, 0) for a, _ in lst}
        if len(inv) != 1:
            continue
        bare = inv.pop()
        virt = ('virt', H)
        L.carried[virt] = Ptr(base, ({atom: bare} if bare else {}))
        L.update[virt] = Ptr(('phi', H, virt), {atom: coef})
        for a, _ in lst:
            old = a.ptr.key()
            rest = {kk: vv for kk, vv in a.ptr.off.items() if kk != k and kk != atom}
            newp = Ptr(('phi', H, virt), rest, a.ptr.elem)
            mapping[old] = newp.key()
            a.ptr = newp
    if not mapping:
        return E

    def sub(t):
        if isinstance(t, tuple):
            if t in mapping:
                return mapping[t]
            return tuple(sub(x) for x in t)
        return t

    def subv(v):
        if isinstance(v, Vec):
            try:
                return Vec([sub(x) for x in v.b])
            except Exception:
                return v
        if isinstance(v, tuple):
            return sub(v)
        return v
    for L in E.loops.values():
        L.carried = {l: (subv(v) if not isinstance(v, Ptr) else v) for l, v in L.carried.items()}
        L.update = {l: (subv(v) if not isinstance(v, Ptr) else v) for l, v in L.update.items()}
    for a in E.acc:
        if a.value is not None:
            a.value = subv(a.value)
    E.local_mem = {k: [(o, subv(v)) for o, v in lst] for k, lst in E.local_mem.items()}
    return E


def subslice_view(base):
    """base = ('slice', e) with e a safe sub-slice of a parameter slice, built from range indexing and split_at: (('p', n), [start offsets in
    elements]); None when e is not of that form (or is the parameter itself).  Every such sub-slice lies inside the parameter slice and the
    expression that builds it panics unless its bounds are ordered and inside, so bounds need no separate check here."""
    if not (isinstance(base, tuple) and len(base) == 2 and base[0] == 'slice'):
        return None
    e = norm(base[1])
    offs = []
    seen = False
    for _ in range(6):
        mm = m(('call~', ('slice::index::index', 'slice::index::index_mut', 'ops::index::Index::index', 'ops::index::IndexMut::index_mut'), ('$x', ('agg', '$adt', '$args'))), e)
        if mm is not None and isinstance(mm['$adt'], tuple) and len(mm['$adt']) > 2 and str(mm['$adt'][1]).startswith('core::ops::range::'):
            kind, args = mm['$adt'][2], mm['$args']
            if kind in ('RangeFrom', 'Range') and args:
                offs.append(args[0])
            elif kind not in ('RangeTo', 'RangeFull'):
                return None
            e = norm(mm['$x'])
            seen = True
            continue
        mm = m(('fld', ('call~', ('slice::split_at', 'slice::split_at_mut'), ('$x', '$h')), '$i'), e)
        if mm is not None and str(mm['$i']) in ('0', '1'):
            if str(mm['$i']) == '1':
                offs.append(mm['$h'])
            e = norm(mm['$x'])
            seen = True
            continue
        break
    if seen and e[0] == 'p':
        return e, offs
    return None


def index_facts(e, out=None, seen=None):
    """Linear facts (each `form >= 0`, atoms as X.lin spells them) that hold for the integer sub-expressions of an index expression:
    x / d (d a positive literal): d*q <= x <= d*q + d - 1;  a.saturating_sub(b): 0 <= s, a - b <= s <= a;  the element e of
    `(lo..hi).step_by(s)`: e = lo + s*k with k >= 0 and e <= hi - 1;  the element of `lo..hi`: lo <= e <= hi - 1."""
    out = [] if out is None else out
    seen = set() if seen is None else seen
    if not isinstance(e, tuple) or not e:
        return out
    key = repr(e)
    if key in seen:
        return out
    seen.add(key)

    def atom(x):
        l = X.lin(x)
        return l

    def sub(a, b):
        o = dict(a)
        for k, v in b.items():
            o[k] = o.get(k, 0) - v
        return {k: v for k, v in o.items() if v != 0}

    def addc(a, c):
        o = dict(a)
        o[''] = o.get('', 0) + c
        return o
    en = norm(e)
    if en[0] == 'bin' and en[1] == 'Div' and norm(en[3])[0] == 'k' and isinstance(norm(en[3])[1], int) and norm(en[3])[1] > 0:
        d = norm(en[3])[1]
        q, x = atom(en), X.lin(en[2])
        dq = {k: v * d for k, v in q.items()}
        out.append(sub(x, dq))                       # x - d*q >= 0
        out.append(addc(sub(dq, x), d - 1))          # d*q + d - 1 - x >= 0
        out.append(q)
    if en[0] == 'call' and en[1].endswith('::saturating_sub') and len(en[2]) == 2:
        sa, a_, b_ = atom(en), X.lin(en[2][0]), X.lin(en[2][1])
        out.append(sa)
        out.append(sub(sa, sub(a_, b_)))
        if norm(en[2][1])[0] == 'k' or True:          # unsigned operands: s <= a
            out.append(sub(a_, sa))
    if en[0] == 'elem' and isinstance(en[1], tuple) and en[1] and en[1][0] == 'iter':
        it = norm(en[1][1])
        rng, step = None, 1
        if it[0] == 'call' and it[1].endswith('Iterator::step_by') and len(it[2]) == 2 and norm(it[2][1])[0] == 'k' and isinstance(norm(it[2][1])[1], int) and norm(it[2][1])[1] > 0:
            rng, step = norm(it[2][0]), norm(it[2][1])[1]
        elif it[0] == 'agg':
            rng = it
        if rng is not None and rng[0] == 'agg' and isinstance(rng[1], tuple) and len(rng[1]) > 2 and rng[1][2] == 'Range' and len(rng[2]) == 2:
            lo, hi = X.lin(rng[2][0]), X.lin(rng[2][1])
            ea = atom(en)
            out.append(addc(sub(hi, ea), -1))            # e <= hi - 1
            if step == 1:
                out.append(sub(ea, lo))
            else:
                kname = 'k#' + next(iter(ea))
                ks = {kname: step}
                eq = sub(sub(ea, lo), ks)                # e - lo - s*k = 0
                out.append(eq)
                out.append({k: -v for k, v in eq.items()})
                out.append({kname: 1})
    for x in en:
        if isinstance(x, tuple):
            index_facts(x, out, seen)
    return out


def chunk_source(coll):
    """The slice a chunk iterator runs over: (x, None) for x itself, (x, end) for the prefix `x[..end]` (a safe index expression: inside x,
    starting at the first element of x)."""
    mm = m(('call~', ('::index', '::index_mut'), ('$x', ('agg', '$adt', ('$end',)))), norm(coll))
    if mm is not None and isinstance(mm['$adt'], tuple) and len(mm['$adt']) > 2 and mm['$adt'][2] == 'RangeTo' and mm['$x'][0] in ('p', 'v'):
        return mm['$x'], mm['$end']
    return norm(coll), None


def chunk_base(base):
    """base = ('slice', <element k of a chunks_exact / chunks_exact_mut iterator, possibly zipped / by_ref>): (loop, collection, chunk length)."""
    if not (isinstance(base, tuple) and len(base) == 2 and base[0] == 'slice'):
        return None
    e = base[1]
    idx = None
    if isinstance(e, tuple) and e and e[0] == 'fld' and str(e[2]).isdigit():
        idx, e = int(e[2]), e[1]
    if not (isinstance(e, tuple) and len(e) == 3 and e[0] == 'elem' and isinstance(e[1], tuple) and e[1] and e[1][0] == 'iter'):
        return None
    H, it = e[2], e[1][1]

    def peel(x):
        while isinstance(x, tuple) and x and ((x[0] == 'call' and x[1].endswith(('Iterator::by_ref', 'IntoIterator::into_iter')) and len(x[2]) == 1) or x[0] in ('ref', 'deref')):
            x = x[2][0] if x[0] == 'call' else x[1]
        return x
    it = peel(it)
    if idx is not None:
        if not (isinstance(it, tuple) and it[0] == 'call' and it[1].endswith('Iterator::zip') and len(it[2]) == 2 and idx in (0, 1)):
            return None
        it = peel(it[2][idx])
    if isinstance(it, tuple) and it and it[0] == 'call' and it[1].endswith(('slice::chunks_exact', 'slice::chunks_exact_mut')) and len(it[2]) == 2:
        coll, n = it[2]
        if isinstance(n, tuple) and n[0] == 'k' and isinstance(n[1], int) and n[1] > 0:
            return H, norm(coll), n[1]
    return None
