"""C09 — count -> frequency -> weight -> log-odds conversions obey their definitions (structural clauses)."""
from lm.db import short
from lm import expr as X, guards as G, tables
from lm.match import norm, m
from . import common

LEVEL_NOTE = ('decides (part): zero-background guard at every division by a background frequency; the one-step and two-step '
              'log-odds routes use the same zero convention; min/max score reduce over all rows and all non-wildcard columns with '
              'the right comparator; validation exits exist with the right polarity and dominate construction; counting increments '
              '(position, symbol) by one. Not decided: the floating-point arithmetic itself (row sums, logarithm values).')


def derives_from_background(db, f, R, e, depth=0):
    """Does expression e (a divisor) denote an element of Background::frequencies()?"""
    for x in X.walk(e):
        if x[0] == 'call' and x[1].endswith('Background::frequencies'):
            return True
        if x[0] == 'fld' and x[2] == 'frequencies':
            return True
    # single-def locals bound from such a call (let new_freqs = b.frequencies())
    for x in X.walk(e):
        if x[0] == 'v':
            for (bi, si, d) in f.defs().get(x[1], []):
                if si == 'term' and (f.callee_short(d) or '').endswith('Background::frequencies'):
                    return True
    # closure parameter bound to an iterator chain in the parent
    if f.kind == 'Closure' and depth < 3 and any(x == ('p', 2) for x in X.walk(e)):
        cb = G.closure_binding(db, f)
        if cb:
            par, PR, adaptor, recv, t = cb
            if recv is not None and derives_from_background(db, par, PR, recv, depth + 1):
                # which component? zip(a, freqs): .1 is the background side
                return 'chain'
    return False


def divisions(f, R):
    """(block, dividend, divisor, span) for every f32 division in f."""
    out = []
    for bi, blk in enumerate(f.blocks):
        if blk['cleanup']:
            continue
        for st in blk['stmts']:
            if st['k'] == 'assign' and st['rv']['k'] == 'bin' and st['rv']['op'] in ('Div', 'Rem') and st['rv'].get('ty') in ('f32', 'f64'):
                out.append((bi, R.operand(st['rv']['a']), R.operand(st['rv']['b']), st.get('span')))
        t = blk['term']
        if t['k'] == 'call':
            c = f.callee_short(t) or ''
            if c.endswith(('Div::div', 'DivAssign::div_assign')) and any(x in (t.get('callee_full') or '') for x in ('f32', 'f64')):
                out.append((bi, R.operand(t['args'][0]), R.operand(t['args'][1]), t.get('span')))
    return out


def r91(db, ctx):
    ctx.rule('R9.1', 'every division whose divisor is a background frequency is control-dependent on a test of that same value against 0')
    n = 0
    scope = [f for f in db.fns.values() if f.crate == 'lightmotif' and not f.promoted_of
             and (f.path.startswith('lightmotif::pwm::') or f.path.startswith('<lightmotif::pwm::')) and '::dist::' not in f.path]
    for f in scope:
        R = X.Rec(f)
        for bi, a, b, span in divisions(f, R):
            bg = derives_from_background(db, f, R, b)
            if not bg:
                continue
            n += 1
            rels = G.relations(f, R, bi)
            cb = X.canon(b)
            g = G.holds(rels, 'ne', lambda e: X.canon(e) == cb, lambda e: norm(e) == ('k', 0.0))
            site = f'division by background frequency {X.show(b, 120)}'
            if g:
                ctx.ok('R9.1', f, site, [f'guard: {X.show(g[1], 80)} != 0.0 on the dividing path'])
            else:
                ctx.fail('R9.1', f, 'unguarded division by a background frequency',
                         f'divisor {X.show(b, 160)} is not tested against 0 on this path (zero background gives inf/NaN instead of the documented convention)', span=span)
    ctx.floor('R9.1', n, 4, 'divisions by a background frequency in lightmotif::pwm')


def zero_branch_value(f, R, freq_pred):
    """In f find the switch on (freq == 0.0); return (value stored on zero side, value stored on non-zero side) as exprs."""
    res = []
    for s in X.stores(f, R):
        rels = G.relations(f, R, s['block'])
        for r in rels:
            if r[0] in ('eq', 'ne') and norm(r[2]) == ('k', 0.0) and freq_pred(r[1]):
                res.append((r[0], s))
    return res


def r92(db, ctx):
    ctx.rule('R9.2', 'one-step (into_scoring) and two-step (to_weight + to_scoring_with_base) routes branch on the same predicate '
                     '(background frequency == 0) with conventions -inf / 0 (log 0 = -inf); base dispatch calls log2/log10/log(base)')
    fs = {k: db.fn(f'lightmotif::pwm::FrequencyMatrix::{k}') for k in ('to_weight', 'into_scoring')}
    want = {'to_weight': 0.0, 'into_scoring': float('-inf')}
    for k, f in fs.items():
        R = X.Rec(f, db, ite=True)        # a helper `if f != 0.0 { x / f } else { 0.0 }` (inlined) makes the stored value conditional
        zs = zero_branch_value(f, R, lambda e: derives_from_background(db, f, R, e))
        if not zs:
            # the branch is inside the stored value: dst = ite(f ==/!= 0, a, b)
            for s_ in X.stores(f, R):
                v_ = norm(s_['value'])
                if v_[0] != 'ite':
                    continue
                rel = G.as_relation(v_[1], True)
                if rel[0] in ('eq', 'ne') and norm(rel[2]) == ('k', 0.0) and derives_from_background(db, f, R, rel[1]):
                    first, second = ('eq', 'ne') if rel[0] == 'eq' else ('ne', 'eq')
                    zs.append((first, dict(s_, value=v_[2])))
                    zs.append((second, dict(s_, value=v_[3])))
        zero_side = [s for r, s in zs if r == 'eq']
        nz_side = [s for r, s in zs if r == 'ne']
        ok = len(zero_side) == 1 and len(nz_side) == 1 and norm(zero_side[0]['value']) == ('k', want[k])
        if ok:
            nz = norm(nz_side[0]['value'])
            # non-zero side: x / f  (to_weight)   or   log2(x / f) (into_scoring)
            div = None
            for x in X.walk(nz):
                if x[0] == 'bin' and x[1] == 'Div':
                    div = x
            if div is None:
                ok = False
            elif k == 'into_scoring' and not (nz[0] == 'call' and nz[1].endswith('f32::log2')):
                ok = False
        if ok:
            ctx.ok('R9.2', f, f'{k}: f == 0 -> {want[k]}, else {"log2(x/f)" if k == "into_scoring" else "x/f"}', ['same predicate over bg.frequencies() zipped with the row'])
        else:
            ctx.fail('R9.2', f, 'zero-background convention',
                     f'expected exactly one store on the f==0 side with value {want[k]} and one on the other side dividing by f; found zero-side {[X.show(s["value"]) for s in zero_side]}, non-zero side {[X.show(s["value"], 80) for s in nz_side]}')
    # same element pairing: the row value and the frequency come from one zip
    # to_scoring = to_scoring_with_base(2.0)
    f = db.fn('lightmotif::pwm::WeightMatrix::to_scoring')
    e = norm(common.return_expr_single_path_allow(f))
    if m(('call~', 'WeightMatrix::to_scoring_with_base', (('p', 1), ('k', 2.0))), e) is not None:
        ctx.ok('R9.2', f, 'to_scoring() = to_scoring_with_base(2.0)')
    else:
        ctx.fail('R9.2', f, 'to_scoring', f'not to_scoring_with_base(self, 2.0): {X.show(e)}')
    f = db.fn('lightmotif::pwm::WeightMatrix::to_scoring_with_base')
    R = X.Rec(f)
    seen = {}
    for bi, t in f.calls():
        c = f.callee_short(t) or ''
        if c in ('std::f32::log2', 'std::f32::log10', 'std::f32::log'):
            rels = G.relations(f, R, bi)
            consts = [norm(r[2]) for r in rels if r[0] == 'eq' and norm(r[1]) == ('p', 2)] + \
                     [norm(r[1]) for r in rels if r[0] == 'eq' and norm(r[2]) == ('p', 2)]
            seen[c] = (consts, [norm(R.operand(a)) for a in t['args']])
    ok = seen.get('std::f32::log2', ([],))[0] == [('k', 2.0)] and seen.get('std::f32::log10', ([],))[0] == [('k', 10.0)] \
        and 'std::f32::log' in seen and seen['std::f32::log'][1][1:] == [('p', 2)]
    if ok:
        ctx.ok('R9.2', f, 'base 2 -> log2, base 10 -> log10, otherwise log(base)', [str({k: v[0] for k, v in seen.items()})])
    else:
        ctx.fail('R9.2', f, 'logarithm dispatch', f'base/callee table is {seen}')


def reduce_summary(db, f):
    """Summarise `self.data.iter().map(|row| row[RANGE].iter().{min_by|max_by}(cmp).unwrap()).sum()`."""
    e = norm(common.return_expr_single_path_allow(f))
    b = m(('call~', 'Iterator::sum', (('call~', 'Iterator::map', (('call~', 'DenseMatrix::iter', ('$src',)), '$clo')),)), e)
    if not b:
        # offsets in to_discrete: ...map(..).cloned().collect()
        return None
    return b


def minmax_closure(db, clo):
    """Inside the per-row closure: row[..END].iter().min_by/max_by(cmp).unwrap() -> (kind, range_end_lin, cmp closure)."""
    e = norm(common.return_expr_single_path_allow(clo))
    if e is None:
        return None
    b = m(('call~', 'Option::unwrap', (('call~', ('Iterator::min_by', 'Iterator::max_by'), (('call~', 'slice::iter', ('$slice',)), '$cmp')),)), e)
    if not b:
        return None
    kind = 'min' if 'min_by' in X.canon(e) else 'max'
    sl = b['$slice']
    rng = None
    bs = m(('call~', '::index', (('p', 2), '$r')), sl)
    if bs:
        r = bs['$r']
        if r[0] == 'agg' and isinstance(r[1], tuple) and r[1][1].endswith('RangeTo'):
            rng = ('to', X.lin(r[2][0]))
        elif r[0] == 'agg' and isinstance(r[1], tuple) and r[1][1].endswith('RangeFull'):
            rng = ('full',)
        elif r[0] == 'agg' and isinstance(r[1], tuple) and r[1][1].endswith('::Range'):
            rng = ('range', X.lin(r[2][0]), X.lin(r[2][1]))
    elif sl == ('p', 2):
        rng = ('full',)
    return kind, rng, b['$cmp']


def cmp_is_natural(db, owner):
    """The comparator closure is |a, b| a.partial_cmp(b).unwrap() (not reversed)."""
    clos = [c for c in db.fns.values() if c.kind == 'Closure' and c.raw.get('iparent') == owner.path]
    if len(clos) != 1:
        return False
    e = norm(common.return_expr_single_path_allow(clos[0]))
    b = m(('call~', 'Option::unwrap', (('call~', '::partial_cmp', ('$a', '$b')),)), e)
    if not b:
        return False
    return b['$a'] == ('p', 2) and b['$b'] == ('p', 3)


def _covers_non_wildcard(lo, hi):
    """Column range lo..hi covers 0..K-1 (hi None = to the end of the row): hi is K or K - 1 for the alphabet constant K."""
    if norm(lo) != ('k', 0):
        return False
    if hi is None:
        return True
    for t in _subterms(hi):
        if common.is_usize_const(t, 'K'):
            return X.lin_eq(hi, t) or X.lin_eq(hi, ('bin', 'Sub', t, ('k', 1)))
    return False


def _subterms(e):
    if isinstance(e, tuple):
        if e and isinstance(e[0], str):
            yield e
        for x in e:
            if isinstance(x, tuple):
                yield from _subterms(x)


def row_extreme(db, C, term, row):
    """term denotes the minimum / maximum, under the natural order, of the non-wildcard columns of `row`:
    (kind, description) or (None, reason).  Canonical form: (min_by | max_by)(natural cmp) over positions p of row[lo + p], unwrapped."""
    from lm import reduce as RD
    from . import reductions as RX
    inner = RD.of_expr(C, term)
    if inner is None or inner['op'] not in ('min_by', 'max_by') or not inner.get('unwrapped'):
        return None, 'reason=unrecognised-shape: the per-row value is not an unwrapped min_by / max_by reduction'
    t, pos = inner['term'], ('pos', inner['L'])
    if not (t[0] == 'at' and t[2] == pos):
        return None, f'reason=unrecognised-shape: reduced element is {X.show(t, 100)}'
    src = t[1]
    sv = RX.slice_view(src)
    base, lo, hi = (sv if sv is not None else (src, ('k', 0), None))
    if base != row:
        return None, f'the per-row reduction reads {X.show(base, 80)}, not the current row'
    ext = inner['extents']
    if not (ext and len(ext) == 1 and ext[0] == ('len', src)):
        return None, f'reason=unrecognised-shape: reduction extent {ext}'
    if not _covers_non_wildcard(lo, hi):
        return None, f'column range {X.show(lo, 30)}..{X.show(hi, 60) if hi is not None else ""} does not cover all non-wildcard columns 0..K-1'
    A, B = ('sym', 'a'), ('sym', 'b')
    c = RD.apply_fn(db, inner['cmp'], [A, B])
    if c is None or m(('call~', 'Option::unwrap', (('call~', '::partial_cmp', (A, B)),)), c) is None:
        return None, 'comparator is not |a, b| a.partial_cmp(b).unwrap()'
    return inner['op'][:3], f'columns {X.show(lo, 10)}..{X.show(hi, 40) if hi is not None else ""}'


def r94(db, ctx):
    ctx.rule('R9.4', 'min_score / max_score sum, over every row, the min (resp. max) under the natural order '
                     'of a column range covering all non-wildcard columns 0..K-1 (closure, function item, composed map and loop spellings are one canonical reduction)')
    from . import reductions as RX
    n = 0
    data = ('fld', ('p', 1), 'data')
    for nm, kind in (('min_score', 'min'), ('max_score', 'max')):
        f = db.fn(f'lightmotif::pwm::ScoringMatrix::{nm}')
        r, why = RX.returned_reduction(db, f)
        if r is None:
            ctx.fail('R9.4', f, nm, f'reason=unrecognised-shape: {why}')
            continue
        red, C = r
        if red['op'] != 'add' or norm(red['init']) not in (('k', 0), ('k', 0.0)) or not RX.extent_is_rows(red['extents'], data):
            ctx.fail('R9.4', f, nm, f'{nm} is a {red["op"]} reduction from {X.show(red["init"], 30)} over {red["extents"]}, expected the sum over all rows of self.data')
            continue
        k, desc = row_extreme(db, C, red['term'], ('at', data, ('pos', red['L'])))
        if k is None:
            ctx.fail('R9.4', f, f'{nm} row reduction', desc)
            continue
        if k != kind:
            ctx.fail('R9.4', f, f'{nm} comparator', f'{nm} reduces each row with {k}_by (sibling deviance: expected {kind}_by)')
            continue
        n += 1
        ctx.ok('R9.4', f, f'{nm} = sum over rows of {kind} over {desc}', ['natural partial_cmp order', 'all rows of self.data'])
    ctx.floor('R9.4', n, 2, 'min_score / max_score')


def r98(db, ctx):
    ctx.rule('R9.8', 'a conversion that takes a background argument builds its result with *that* background (b = background.into().unwrap_or_default()), '
                     'forwards it to the conversion it delegates to, or returns self unchanged only when b has the frequencies of self.background: '
                     'the background a matrix reports is the one its weights are expressed against (rescale twice, or to_weight().rescale(b).to_scoring() vs to_scoring(b))')
    n = 0
    takers = {}
    for k, f in db.fns.items():
        if not k.startswith('lightmotif::pwm::') or f.kind == 'Closure' or f.promoted_of:
            continue
        preds = f.raw.get('preds') or []
        bp = [i for i in range(1, f.arg_count + 1) if any(p.find(f'<{f.local_ty(i)} as core::convert::Into<core::option::Option<lightmotif::abc::Background<') >= 0 for p in preds)]
        if bp:
            takers[k] = (f, bp[0])
    for k, (f, bp) in sorted(takers.items()):
        R = X.Rec(f)
        def bexpr(e, f=f, R=R, bp=bp):
            if m(('call~', ('Option::unwrap_or_default', 'Option::unwrap_or_else', 'Option::unwrap_or'), (('p', bp),)), e) is not None or e == ('p', bp) or \
                    (e[0] == 'call' and e[1].endswith(('Option::unwrap_or_else', 'Option::unwrap_or')) and e[2] and e[2][0] == ('p', bp)):
                return True
            # `match background.into() { Some(b) => b, None => Background::default() }`: a local whose definitions are the payload or the default
            if e[0] == 'v':
                ds = f.defs().get(e[1], [])
                vals = [norm(R.call(d_[2]) if d_[1] == 'term' else R.rvalue(d_[2]), True) for d_ in ds]
                is_payload = lambda v_: v_ == ('fld', ('down', ('p', bp), 'Some'), '0')
                is_default = lambda v_: v_[0] == 'call' and v_[1].endswith(('Default::default', 'Background::uniform')) and not v_[2]
                return len(vals) >= 2 and all(is_payload(v_) or is_default(v_) for v_ in vals) and any(is_payload(v_) for v_ in vals)
            return False
        sites, probs = 0, []
        for bi, blk in enumerate(f.blocks):
            if blk['cleanup']:
                continue
            for st in blk['stmts']:
                if st['k'] == 'assign' and st['rv']['k'] == 'agg' and str(st['rv'].get('adt', '')).startswith('lightmotif::pwm::') and 'background' in (st['rv'].get('fields') or []):
                    v = norm(R.at(bi).rvalue(st['rv']), True)
                    bg = v[2][st['rv']['fields'].index('background')]
                    sites += 1
                    if not bexpr(bg):
                        probs.append(f'the result is built with background {X.show(bg, 80)}, not with the background argument')
            t = blk['term']
            if t['k'] != 'call':
                continue
            c = f.callee_short(t) or ''
            full = t.get('resolved') or t.get('callee') or ''
            if c.endswith(('::new_unchecked', '::new')) and c.startswith('lightmotif::pwm::') and len(t['args']) == 2:
                sites += 1
                bg = norm(R.at(bi).operand(t['args'][0]), True)
                if not bexpr(bg):
                    probs.append(f'{c.rsplit("::", 2)[-2]}::{c.rsplit("::", 1)[-1]} is given background {X.show(bg, 80)}, not the background argument')
            elif any(short(kk) == c or kk == full for kk in takers) and t['dest']['l'] == 0:
                g, gbp = next(v_ for kk, v_ in takers.items() if short(kk) == c or kk == full)
                sites += 1
                bg = norm(R.at(bi).operand(t['args'][gbp - 1]), True)
                if not bexpr(bg):
                    probs.append(f'delegates to {c.rsplit("::", 1)[-1]} with background {X.show(bg, 80)}, not the background argument')
            elif c.endswith('Clone::clone') and t['dest']['l'] == 0 and not t['dest']['pr']:
                # returning self unchanged: only when the requested background has the frequencies of the current one
                sites += 1
                rels = G.relations(f, R, bi)
                okc = False
                for r in rels:
                    call_eq = (r[0] == 'false' and isinstance(r[1], tuple) and r[1][0] == 'call' and r[1][1].endswith('::ne')) or \
                        (r[0] == 'true' and isinstance(r[1], tuple) and r[1][0] == 'call' and r[1][1].endswith('::eq'))
                    if r[0] == 'eq' or call_eq:
                        a_, b_ = (r[1], r[2]) if r[0] == 'eq' else (r[1][2][0], r[1][2][1])
                        sides = [norm(a_, True), norm(b_, True)]
                        fr = [m(('call~', 'Background::frequencies', ('$x',)), x) for x in sides]
                        if all(x is not None for x in fr):
                            xs = [x['$x'] for x in fr]
                            if any(bexpr(x) for x in xs) and any(x == ('fld', ('p', 1), 'background') for x in xs):
                                okc = True
                if not okc:
                    probs.append('returns a clone of self although the requested background may differ from self.background')
        if not sites:
            ctx.fail('R9.8', f, 'result construction', 'reason=unrecognised-shape: no construction / delegation of the result found')
        elif probs:
            ctx.fail('R9.8', f, 'background of the result', '; '.join(probs))
        else:
            n += 1
            ctx.ok('R9.8', f, 'result carries the background argument', [f'{sites} construction / delegation site(s)'])
    ctx.floor('R9.8', n, 4, 'conversions taking a background')


def range_covers(rng):
    if rng is None:
        return False
    if rng[0] == 'full':
        return True
    if rng[0] == 'to':
        l = rng[1]
        ks = [k for k in l if k != '']
        return len(ks) == 1 and 'USIZE' in ks[0] and l[ks[0]] == 1 and l.get('', 0) in (-1, 0)
    if rng[0] == 'range':
        l = rng[2]
        ks = [k for k in l if k != '']
        return set(rng[1]) <= {''} and rng[1].get('', 0) == 0 and len(ks) == 1 and 'USIZE' in ks[0] and l.get('', 0) in (-1, 0)
    return False


def show_rng(rng):
    if rng[0] == 'full':
        return '..'
    if rng[0] == 'to':
        return '..' + X.lin_str(rng[1]).replace('typenum::marker_traits::Unsigned::USIZE', 'K')
    return str(rng)


def err_side_returns_err(f, R, blocks_true):
    return True


def r95(db, ctx):
    ctx.rule('R9.5', 'validation exits: unequal sequence lengths, frequencies outside [0,1] or not summing to 1, empty counts and '
                     'non-normalised frequency rows return Err(InvalidData), and every Ok construction is dominated by the passing side of the test')
    n = 0
    # --- CountMatrix::from_sequences
    f = db.fn('lightmotif::pwm::CountMatrix::from_sequences')
    R = X.Rec(f)
    from lm import iteralg as IA, reduce as RD_
    CA = RD_.RCanon(db, f, R)
    incs = [dict(s, ctarget=CA.canon(s['target']), cvalue=CA.canon(s['value'])) for s in X.stores(f, R) if norm(s['value'])[0] == 'bin' and norm(s['value'])[1] == 'Add']
    # the same increment inside the closure of `rows.zip(seq).for_each(|(row, x)| row[x.as_index()] += 1)`
    incs += [dict(block=fs_['block'], span=fs_['span'], target=fs_['target'], value=fs_['value'], ctarget=fs_['target'], cvalue=fs_['value'])
             for fs_ in RD_.foreach_stores(db, f, R, CA) if fs_['value'][0] == 'bin' and fs_['value'][1] == 'Add']
    okc = False
    if len(incs) == 1:
        s = incs[0]
        tgt, val = s['ctarget'], s['cvalue']
        # d[k][seq[k].as_index()] += 1 for every position k of the sequence (enumerate, zip of rows and symbols, or an index loop)
        b = m(('at', ('at', '$d', '$k'), ('call~', 'as_index', (('at', '$seq', '$k2'),))), tgt)
        ext = CA.extents.get(b['$k'][1]) if b is not None and IA.is_pos(b['$k']) else None
        cover = bool(ext) and ('len', b['$seq']) in ext and all(c_ == ('len', b['$seq']) or c_ == ('rows', b['$d']) for c_ in ext) if b is not None else False
        if not cover and ext and b is not None and len(ext) == 1 and ext[0][0] == 'sub' and ext[0][2] == ('k', 0) and common.is_len_of(ext[0][1], b['$seq']):
            cover = True
        if b is not None and b['$k'] == b['$k2'] and cover and val == ('bin', 'Add', tgt, ('k', 1)):
            okc = True
            ctx.ok('R9.6', f, 'd[i][x.as_index()] += 1 for (i, x) in enumerate(seq)', ['row = position, column = symbol'])
            rels = G.relations(f, R, s['block'])
            # guard: len(seq) == rows(d) on this path
            g = [r for r in rels if r[0] == 'eq' and ((common.is_len_of(r[1]) and common.is_call_to(r[2], '::rows')) or (common.is_len_of(r[2]) and common.is_call_to(r[1], '::rows')))]
            if g:
                n += 1
                ctx.ok('R9.5', f, 'counts are added only after seq.len() == rows(matrix)', [f'{X.show(g[0][1], 60)} == {X.show(g[0][2], 60)}'])
                # and the failing side returns Err without counting
                sw = g[0][3]
                errs = [t for t in f.succs(sw) if not f.dominates(t, s['block'])]
                if all(returns_err(f, t) for t in errs):
                    ctx.ok('R9.5', f, 'length mismatch returns Err(InvalidData)')
                else:
                    ctx.fail('R9.5', f, 'length mismatch exit', 'the failing side of the length test does not return Err')
            else:
                ctx.fail('R9.5', f, 'unequal-length check', 'the count increment is not dominated by a test seq.len() == matrix.rows()', span=s['span'])
    if not okc:
        ctx.fail('R9.6', f, 'count increment', f'reason=unrecognised-shape: expected exactly one `d[i][x.as_index()] += 1`, found {[X.show(s["target"], 100) for s in incs]}')
    # --- Background::new
    from lm import reduce as RD
    f = db.fn('lightmotif::abc::Background::new')
    R = X.Rec(f)
    C = RD.RCanon(db, f, R)
    oks = ok_constructions(f)
    if not oks:
        ctx.fail('R9.5', f, 'Ok construction', 'reason=anchor-missing')
    freqs = ('p', 1)
    for bi in oks:
        # (a) Ok only when the sum of *all* frequencies is exactly 1.0
        has_sum = False
        for r in G.relations(f, R, bi):
            if r[0] != 'eq':
                continue
            for a_, b_ in ((r[1], r[2]), (r[2], r[1])):
                if norm(b_) != ('k', 1.0):
                    continue
                red = RD.sum_view(db, f, R, C, a_, bi)
                if red is not None and red['op'] == 'add' and norm(red['init']) == ('k', 0.0) and red['term'] == ('at', freqs, ('pos', red['L'])) and red['extents'] == [('len', freqs)]:
                    has_sum = True
        if has_sum:
            n += 1
            ctx.ok('R9.5', f, 'Ok(Background) dominated by sum == 1.0')
        else:
            ctx.fail('R9.5', f, 'sum check', 'Ok(Background{..}) is not dominated by the test sum == 1.0')
        # (b) Ok only when every frequency lies in 0.0..=1.0 (a validating loop, all(..), or !any(!..))
        rng_ok = False
        facts = RD.forall_facts(db, f, R, C, bi)
        lo_ok, hi_ok = set(), set()
        for fact in facts:
            if len(fact['pos']) != 1:
                continue
            L = next(iter(fact['pos']))
            if fact['extents'].get(L) != [('len', freqs)]:
                continue
            x = ('at', freqs, ('pos', L))
            rel = fact['rel']
            if rel[0] == 'true' and rel[1][0] == 'call' and rel[1][1].endswith('RangeInclusive::contains') and len(rel[1][2]) == 2 and rel[1][2][1] == x:
                a0 = rel[1][2][0]
                for y in list(X.walk(a0)):
                    if y[0] == 'promoted':
                        pe = common.promoted_expr(db, y[1], y[2])
                        if pe is not None:
                            a0 = norm(pe)
                if [y[1] for y in X.walk(a0) if y[0] == 'k'] == [0.0, 1.0]:
                    rng_ok = True
            if rel[0] in ('ge', 'le') and len(rel) >= 3:
                a_, b_ = rel[1], rel[2]
                if (rel[0] == 'ge' and a_ == x and norm(b_) == ('k', 0.0)) or (rel[0] == 'le' and norm(a_) == ('k', 0.0) and b_ == x):
                    lo_ok.add(L)
                if (rel[0] == 'le' and a_ == x and norm(b_) == ('k', 1.0)) or (rel[0] == 'ge' and norm(a_) == ('k', 1.0) and b_ == x):
                    hi_ok.add(L)
        if lo_ok & hi_ok:
            rng_ok = True
        if rng_ok:
            n += 1
            ctx.ok('R9.5', f, 'each frequency outside 0.0..=1.0 returns Err')
        else:
            ctx.fail('R9.5', f, 'range check', 'Ok(Background{..}) is not reached only when every frequency lies in 0.0..=1.0')
    # --- Background::from_counts: total == 0 -> Err
    f = db.fn('lightmotif::abc::Background::from_counts')
    R = X.Rec(f)
    for bi in ok_constructions(f):
        rels = G.relations(f, R, bi)
        if G.holds(rels, 'ne', lambda e: True, lambda e: norm(e) == ('k', 0)):
            n += 1
            ctx.ok('R9.5', f, 'Ok(Background) dominated by total != 0')
        else:
            ctx.fail('R9.5', f, 'empty counts', 'Ok construction not dominated by total != 0')
    # --- FrequencyMatrix::new
    from lm import reduce as RD
    f = db.fn('lightmotif::pwm::FrequencyMatrix::new')
    R = X.Rec(f)
    C = RD.RCanon(db, f, R)
    good = False
    oks = ok_constructions(f)
    for bi in oks:
        for fact in RD.forall_facts(db, f, R, C, bi):
            b = m(('lt', ('call~', 'f32::abs', (('bin', 'Sub', '$sum', ('k', 1.0)),)), '$tol'), fact['rel'])
            if b is None or not (b['$tol'][0] == 'k' and 0 < b['$tol'][1] <= 0.01) or len(fact['pos']) != 1:
                continue
            Lf = next(iter(fact['pos']))
            row = ('at', ('p', 1), ('pos', Lf))
            red = RD.of_expr(C, b['$sum'])
            if red is None or red['op'] != 'add' or red['term'] != ('at', row, ('pos', red['L'])) or red['extents'] != [('len', row)]:
                continue
            if fact['extents'].get(Lf) == [('rows', ('p', 1))]:
                good = True
    good = good and len(oks) == 1
    if good:
        n += 1
        ctx.ok('R9.5', f, 'Ok(FrequencyMatrix) only when every row satisfies |sum - 1| < 0.01')
    else:
        ctx.fail('R9.5', f, 'row-sum validation', 'Ok construction is not reached only when, for every row of the data, |sum(row) - 1| < tol <= 0.01')
    ctx.floor('R9.5', n, 5, 'validation exits')


def ok_constructions(f):
    """Blocks that build Result::Ok into the return place."""
    out = []
    for bi, blk in enumerate(f.blocks):
        for st in blk['stmts']:
            if st['k'] == 'assign' and st['p']['l'] == 0 and not st['p']['pr'] and st['rv']['k'] == 'agg' \
                    and st['rv'].get('adt', '').endswith('result::Result') and st['rv'].get('variant') == 'Ok':
                out.append(bi)
    return out


def returns_err(f, start):
    """Every path from `start` to return assigns Result::Err to _0 and no Ok."""
    seen = set()
    st = [start]
    saw_err = False
    while st:
        b = st.pop()
        if b in seen:
            continue
        seen.add(b)
        for s in f.blocks[b]['stmts']:
            if s['k'] == 'assign' and s['p']['l'] == 0 and not s['p']['pr'] and s['rv']['k'] == 'agg' and s['rv'].get('adt', '').endswith('result::Result'):
                if s['rv'].get('variant') == 'Ok':
                    return False
                saw_err = True
        t = f.term(b)
        if t['k'] == 'return':
            continue
        # do not walk back into loops: stop at blocks that dominate start (loop headers)
        for s in f.succs(b):
            if not f.dominates(s, start) or s == start:
                st.append(s)
            else:
                return False
    return saw_err


def r93(db, ctx):
    ctx.rule('R9.3', 'sites that single out the wildcard by Symbol::default().as_index() agree with sites that use column K-1 (R5.1d: default symbol is last)')
    n = 0
    for p in ('lightmotif::abc::Background::uniform', '<lightmotif::abc::Pseudocounts<A> as core::convert::From<f32>>::from'):
        try:
            f = db.fn(p)
        except KeyError:
            ctx.fail('R9.3', p, 'site', 'reason=anchor-missing')
            continue
        clos = [c for c in db.fns.values() if c.kind == 'Closure' and c.raw.get('iparent') == f.path]
        ok = False
        for c in clos:
            R = X.Rec(c)
            for b in range(len(c.blocks)):
                if c.term(b)['k'] == 'switch':
                    d = norm(R.operand(c.term(b)['discr']))
                    if d[0] == 'bin' and d[1] in ('Ne', 'Eq') and ('p', 2) in d[2:] and any(
                            x[0] == 'call' and x[1].endswith('as_index') and x[2][0][0] == 'call' and x[2][0][1].endswith('Default::default') for x in d[2:]):
                        ok = True
        if not ok:
            # the index of the default symbol hoisted into a captured local: read the closure with its captures substituted
            from lm import reduce as RD
            Rf = X.Rec(f)
            for bi, t in f.calls():
                for a_ in t['args']:
                    e_ = norm(Rf.at(bi).operand(a_))
                    fv = RD.fn_value(e_)
                    if not fv or fv[0] != 'closure':
                        continue
                    body = RD.apply_fn(db, e_, [('sym', 'i')])
                    if body is None:
                        continue
                    for x in X.walk(norm(body)):
                        if x[0] == 'bin' and x[1] in ('Ne', 'Eq') and ('sym', 'i') in x[2:] and any(
                                y[0] == 'call' and y[1].endswith('as_index') and y[2] and norm(y[2][0])[0] == 'call' and norm(y[2][0])[1].endswith('Default::default') for y in x[2:]):
                            ok = True
        if ok:
            n += 1
            ctx.ok('R9.3', f, 'wildcard column = Symbol::default().as_index()', ['R5.1(d): equals K-1 for both alphabets'])
        else:
            ctx.fail('R9.3', f, 'wildcard column', 'does not compare the column with Symbol::default().as_index()')
    ctx.floor('R9.3', n, 2, 'default-symbol sites')


def r97(db, ctx):
    ctx.rule('R9.7', 'Background::from_counts: frequencies[s] = counts[s] / (sum of all K counts) is written for every symbol index of the alphabet '
                     '(loop over symbols() or exactly 0..K), into a zero-initialised array that becomes the result; total == 0 is rejected')
    try:
        f = db.fn('lightmotif::abc::Background::<A>::from_counts')
    except KeyError:
        ctx.fail('R9.7', 'lightmotif::abc::Background::from_counts', 'from_counts', 'reason=anchor-missing')
        return
    R = X.Rec(f)
    from lm import reduce as RD, iteralg as IA
    RC = RD.RCanon(db, f, R)
    st = [s_ for s_ in X.stores(f, R) if RC.canon(s_['target'])[0] == 'at']
    probs = []
    if len(st) != 1:
        probs.append(f'reason=unrecognised-shape: {len(st)} indexed stores, expected one')
    else:
        tg, v = RC.canon(st[0]['target']), RC.canon(st[0]['value'])
        I = tg[2]
        b = m(('bin', 'Div', ('cast', ('at', ('p', 1), '$j'), '_', 'IntToFloat'), ('cast', '$tot', '_', 'IntToFloat')), v)
        if b is None:
            probs.append(f'stored value is {X.show(v, 120)}, expected counts[i] as f32 / total as f32')
        else:
            if b['$j'] != I:
                probs.append(f'frequencies[{X.show(I, 40)}] is computed from counts[{X.show(b["$j"], 40)}]')
            # total = Σ counts over all K counts: sum / fold / map chain, or an accumulator loop
            tot = b['$tot']
            red = RD.of_expr(RC, tot)
            if red is None and tot[0] == 'v':
                ls = [l_ for l_ in RD.loops_in(db, f, R, RC) if l_['local'] == tot[1] and l_['every_iteration'] and l_['single_exit'] and l_['nested'] == 1]
                if len(ls) == 1:
                    red = dict(ls[0])
                    ids = RD.pos_ids(red['term'])
                    red['L'] = next(iter(ids)) if len(ids) == 1 else None
                    red['extents'] = RC.extents.get(red['L'])
            okt = red is not None and red['op'] == 'add' and norm(red['init']) == ('k', 0) and red['term'] == ('at', ('p', 1), ('pos', red['L'])) \
                and red['extents'] in ([('len', ('p', 1))],) 
            if not okt and red is not None and red['op'] == 'add' and red['term'] == ('at', ('p', 1), ('pos', red['L'])) and red['extents'] and len(red['extents']) == 1 \
                    and red['extents'][0][0] == 'sub' and red['extents'][0][2] == ('k', 0) and (common.is_usize_const(red['extents'][0][1], 'K') or common.is_len_of(red['extents'][0][1], ('p', 1))):
                okt = True
            if not okt:
                probs.append(f'total is {X.show(tot, 80)}, expected the sum of all K counts')
        # coverage of the index
        cov = False
        mi = m(('call~', 'Symbol::as_index', (('at', ('call~', 'Alphabet::symbols', ()), '$p'),)), I)
        if mi is not None and IA.is_pos(mi['$p']):
            e_ = RC.extents.get(mi['$p'][1])
            cov = bool(e_) and len(e_) == 1 and e_[0][0] == 'len' and common.is_call_to(e_[0][1], 'Alphabet::symbols')
            # every symbol of the alphabet (R5.1: symbols() enumerates all K symbols, as_index is a bijection onto 0..K)
        elif IA.is_pos(I):
            e_ = RC.extents.get(I[1])
            if e_ and len(e_) >= 1:
                full = lambda c_: (c_[0] == 'sub' and c_[2] == ('k', 0) and (common.is_usize_const(c_[1], 'K') or common.is_len_of(c_[1], ('p', 1)) or common.is_len_of(c_[1], tg[1]))) \
                    or (c_[0] == 'len' and c_[1] in (('p', 1), tg[1]))
                cov = all(full(c_) for c_ in e_)          # counts and frequencies are both GenericArray<_, K>
        if not cov:
            probs.append(f'the index {X.show(I, 80)} does not range over all K symbol indices (symbols() or 0..K::USIZE): the skipped symbols keep frequency 0 '
                         'and the frequencies no longer sum to one')
        # target array is the returned, zero-initialised one
        F = tg[1]
        okF = False
        if F[0] == 'v':
            ds = f.defs().get(F[1], [])
            okF = len(ds) == 1 and ds[0][1] == 'term' and norm(R.call(ds[0][2]))[1].endswith('default')
        if not okF:
            probs.append('the frequencies array is not a fresh Default::default() array')
        agg = [st_ for blk in f.blocks for st_ in blk['stmts'] if st_['k'] == 'assign' and st_['rv']['k'] == 'agg' and st_['rv'].get('adt', '').endswith('abc::Background')]
        if len(agg) != 1 or norm(R.operand(agg[0]['rv']['ops'][agg[0]['rv']['fields'].index('frequencies')])) != F:
            probs.append('the filled array is not the frequencies field of the returned Background')
    # total == 0 -> Err
    zero_err = False
    for bi in range(len(f.blocks)):
        t = f.term(bi)
        if t['k'] == 'switch':
            d = norm(R.operand(t['discr']))
            if m(('bin', 'Eq', ('call~', 'Iterator::sum', '_'), ('k', 0)), d) is not None or m(('bin', 'Eq', '$x', ('k', 0)), d) is not None:
                zero_err = True
    if not zero_err:
        probs.append('no rejection of an all-zero count vector (division by zero total)')
    if probs:
        ctx.fail('R9.7', f, 'from_counts', '; '.join(probs), span=st[0]['span'] if st else None)
    else:
        ctx.ok('R9.7', f, 'frequencies[idx(s)] = counts[idx(s)] / sum(counts) for every s in symbols(); zero total rejected', ['R5.1 symbols() covers the alphabet'])


def r99(db, ctx):
    ctx.rule('R9.9', 'to_freq: cell (i, j) := count(i, j) + pseudocount(j) for every row i and every column j of the row, then every cell of row i is divided '
                     'by the sum over the whole row i of those values (frequency = (count + pseudocount) / row total)')
    to_freq_form(db, ctx, 'R9.9', 'lightmotif::pwm::CountMatrix::to_freq', ('fld', ('p', 1), 'data'))


def to_freq_form(db, ctx, rid, path, data):
    from lm import reduce as RD, iteralg as IA
    try:
        f = db.fn(path)
    except KeyError:
        ctx.fail(rid, path, 'anchor', 'reason=anchor-missing')
        return
    R = X.Rec(f)
    C = RD.RCanon(db, f, R)
    sts = [(s_, C.canon(s_['target']), C.canon(s_['value'])) for s_ in X.stores(f, R)]
    # stores made by a `for_each` closure count like those of the loop it stands for
    sts += [(dict(block=fs_['block'], span=fs_.get('span')), fs_['target'], fs_['value']) for fs_ in RD.foreach_stores(db, f, R, C)]
    cells = [(s_, t_, v_) for s_, t_, v_ in sts if m(('at', ('at', '$M', '$i'), '$j'), t_) is not None]
    fills = [x for x in cells if x[2][0] == 'bin' and x[2][1] == 'Add']
    divs = [x for x in cells if x[2][0] == 'bin' and x[2][1] == 'Div']
    if len(cells) != 2 or len(fills) != 1 or len(divs) != 1:
        ctx.fail(rid, f, 'row construction', f'reason=unrecognised-shape: {len(cells)} cell stores ({len(fills)} additions, {len(divs)} divisions); expected one `count + pseudocount` and one `/ row total`')
        return
    probs = []
    (sf, tf, vf), (sd, td, vd) = fills[0], divs[0]
    bf = m(('at', ('at', '$M', '$i'), '$j'), tf)
    M, pi, pj = bf['$M'], bf['$i'], bf['$j']
    PC = ('at', ('call~', 'Pseudocounts::counts', ('$p',)), '$j3')
    want = None
    for cell_ in (('cast', ('at', ('at', data, '$i2'), '$j2'), '_', '_'), ('at', ('at', data, '$i2'), '$j2')):
        want = want or m(('bin', 'Add', cell_, PC), vf) or m(('bin', 'Add', PC, cell_), vf)
    if want is None or want['$i2'] != pi or want['$j2'] != pj or want['$j3'] != pj:
        probs.append(f'cell ({X.show(pi, 20)}, {X.show(pj, 20)}) is assigned {X.show(vf, 140)}, expected count of the same row and column plus the pseudocount of the same column')
    ei = C.extents.get(pi[1]) if IA.is_pos(pi) else None
    ej = C.extents.get(pj[1]) if IA.is_pos(pj) else None
    rows_ok = bool(ei) and len(ei) >= 1 and all((c_[0] == 'sub' and c_[2] == ('k', 0) and common.is_call_on(c_[1], 'DenseMatrix::rows', data)) or c_ == ('rows', data)
                                                  or (c_[0] == 'rows' and c_[1] == M) for c_ in ei)
    is_counts = lambda x_: x_[0] == 'call' and x_[1].endswith('Pseudocounts::counts')      # &GenericArray<f32, K>: as long as a row
    cols_ok = bool(ej) and all((c_[0] == 'len' and (c_[1] in (('at', data, pi), ('at', M, pi)) or is_counts(c_[1]))) or
                               (c_[0] == 'sub' and c_[2] == ('k', 0) and common.is_usize_const(c_[1], 'K')) for c_ in ej) and \
        any(c_[0] != 'len' or not is_counts(c_[1]) for c_ in ej)
    if not rows_ok:
        probs.append(f'the rows filled are {ei}, expected every row of self.data')
    if not cols_ok:
        probs.append(f'the columns filled are {ej}, expected every column of the row')
    # the new matrix has as many rows as self.data
    if M[0] == 'v':
        ds = f.defs().get(M[1], [])
        dn = norm(R.call(ds[0][2])) if len(ds) == 1 and ds[0][1] == 'term' else None
        mn = m(('call~', 'DenseMatrix::new', (('call~', ('DenseMatrix::rows', 'CountMatrix::len'), ('$x',)),)), dn) if dn is not None else None
        if mn is None or norm(mn['$x']) not in (data, ('p', 1)):
            probs.append('the frequency matrix is not created with self.data.rows() rows')
    # division by the row total
    bd = m(('at', ('at', '$M2', '$i4'), '$k'), td)
    dv = m(('bin', 'Div', ('at', ('at', '$M3', '$i5'), '$k2'), '$tot'), vd)
    if bd is None or dv is None or bd['$M2'] != M or dv['$M3'] != M or bd['$i4'] != pi or dv['$i5'] != pi or bd['$k'] != dv['$k2']:
        probs.append(f'the normalising store {X.show(td, 60)} := {X.show(vd, 120)} does not divide each cell of the same row of the new matrix by one total')
    else:
        ek = C.extents.get(bd['$k'][1]) if IA.is_pos(bd['$k']) else None
        if not (ek and all(c_ == ('len', ('at', M, pi)) or (c_[0] == 'sub' and c_[2] == ('k', 0) and common.is_usize_const(c_[1], 'K')) for c_ in ek)):
            probs.append(f'the cells divided are {ek}, expected the whole row')
        tot = RD.of_expr(C, dv['$tot'])
        row = ('at', M, pi)
        ok_tot = tot is not None and tot['op'] == 'add' and tot.get('how') == 'sum' and norm(tot['init']) == ('k', 0) and tot.get('L') is not None and C.canon(tot['term']) == ('at', row, ('pos', tot['L'])) and \
            tot['extents'] in ([('len', row)],)
        if not ok_tot:
            probs.append(f'the divisor {X.show(dv["$tot"], 120)} is not the sum over the whole row of the new matrix')
        # the total is taken after the row has been filled and before it is divided
        Ls = [L_ for L_ in f.loops() if sf['block'] in L_['body']]
        Lf = min(Ls, key=lambda L_: len(L_['body'])) if Ls else None
        if Lf is None or not f.dominates(Lf['header'], sd['block']) or sd['block'] in Lf['body']:
            probs.append('the row is not filled (by a completed loop) before it is normalised')
    if probs:
        ctx.fail(rid, f, 'frequency = (count + pseudocount) / row total', '; '.join(probs))
    else:
        ctx.ok(rid, f, 'freq[i][j] = (count[i][j] + pseudo[j]) / sum_j (count[i][j] + pseudo[j]) for every i, j', ['same row / column on both sides', 'total over the whole row'])


def r910(db, ctx):
    ctx.rule('R9.10', 'rescale: every cell (i, j) of a copy of self.data becomes 0 where the new background frequency of column j is 0 and '
                      'cell * old[j] / new[j] otherwise, for every row and every column (one ratio per column, applied in every row)')
    from lm import reduce as RD, iteralg as IA
    try:
        f = db.fn('lightmotif::pwm::WeightMatrix::rescale')
    except KeyError:
        ctx.fail('R9.10', 'lightmotif::pwm::WeightMatrix::rescale', 'anchor', 'reason=anchor-missing')
        return
    R = X.Rec(f, ite=True)
    C = RD.RCanon(db, f, R)
    # an iterator created outside the row loop and advanced inside it (`ratios.by_ref()`) is consumed by the first row: not a per-row view
    if any((f.callee_short(t_) or '').endswith('Iterator::by_ref') for _, t_ in f.calls()):
        ctx.fail('R9.10', f, 'rescale', 'an iterator is shared between rows through by_ref(): it is exhausted by the first row, the later rows are not rescaled')
        return
    sts = [(s_, C.canon(s_['target']), C.canon(s_['value'])) for s_ in X.stores(f, R)]
    sts += [(dict(block=fs_['block']), fs_['target'], fs_['value']) for fs_ in RD.foreach_stores(db, f, R, C)]
    cells = [(s_, t_, v_) for s_, t_, v_ in sts if m(('at', ('at', '$M', '$i'), '$j'), t_) is not None]
    if not cells:
        ctx.fail('R9.10', f, 'rescale', 'reason=unrecognised-shape: no cell store data[i][j] found')
        return
    probs = []
    old = ('call', 'lightmotif::abc::Background::frequencies', (('fld', ('p', 1), 'background'),))
    is_new = lambda e_: e_[0] == 'call' and e_[1].endswith('Background::frequencies') and e_ != old
    tg0 = cells[0][1]
    M, pi, pj = tg0[1][1], tg0[1][2], tg0[2]
    scaled, zero = 0, 0
    for s_, t_, v_ in cells:
        if t_ != tg0:
            probs.append(f'cells are written at {X.show(t_, 60)} and {X.show(tg0, 60)}')
            continue
        vals = [v_] if v_[0] != 'ite' else [v_[2], v_[3]]
        for v1 in vals:
            if norm(v1) in (('k', 0.0), ('k', 0)):
                zero += 1
                continue
            b = m(('bin', 'Mul', tg0, ('bin', 'Div', ('at', '$o', '$j1'), ('at', '$n', '$j2'))), v1) or m(('bin', 'Div', ('bin', 'Mul', tg0, ('at', '$o', '$j1')), ('at', '$n', '$j2')), v1)
            if b is None or b['$o'] != old or not is_new(b['$n']) or b['$j1'] != pj or b['$j2'] != pj:
                probs.append(f'cell ({X.show(pi, 20)}, {X.show(pj, 20)}) becomes {X.show(v1, 140)}, expected cell * old[j] / new[j] with the ratio of its own column')
            else:
                scaled += 1
    if scaled != 1 or zero != 1:
        probs.append(f'{scaled} scaled and {zero} zero assignments (expected one of each, on the two sides of new[j] == 0)')
    ei = C.extents.get(pi[1]) if IA.is_pos(pi) else None
    ej = C.extents.get(pj[1]) if IA.is_pos(pj) else None
    if not (ei and all(c_ == ('rows', M) or (c_[0] == 'sub' and c_[2] == ('k', 0) and common.is_call_on(c_[1], 'DenseMatrix::rows', M)) for c_ in ei)):
        probs.append(f'the rows rescaled are {ei}, expected every row of the copied matrix')
    if not (ej and all((c_[0] == 'sub' and c_[2] == ('k', 0) and common.is_usize_const(c_[1], 'K')) or (c_[0] == 'len' and (c_[1] == ('at', M, pi) or c_[1] == old or is_new(c_[1]))) for c_ in ej)
            and any(not (c_[0] == 'len' and (c_[1] == old or is_new(c_[1]))) or True for c_ in ej)):
        probs.append(f'the columns rescaled are {ej}, expected every column')
    # M is a copy of self.data
    if M[0] == 'v':
        ds = f.defs().get(M[1], [])
        dn = norm(R.call(ds[0][2]), False) if len(ds) == 1 and ds[0][1] == 'term' else None
        if dn is None or not (dn[0] == 'call' and dn[1].endswith('clone') and X.strip_refs(dn[2][0]) == ('fld', ('p', 1), 'data')):
            probs.append('the rescaled matrix is not a clone of self.data')
    if probs:
        ctx.fail('R9.10', f, 'rescale', '; '.join(probs))
    else:
        ctx.ok('R9.10', f, 'w[i][j] := 0 if new[j] == 0 else w[i][j] * old[j] / new[j], every i and j', ['ratio of the cell\'s own column', 'every row'])


def run(db, ctx):
    r910(db, ctx)
    from . import C14
    # (the core-only fact base of the thorough tier has no I/O crate: the rule is evaluated where the crate is built)
    if any(p_.startswith('lightmotif_io::') for p_ in db.fns):
        common.shared_rule(db, ctx, C14.r1412, 'R9.11', 'the TRANSFAC record\'s own to_freq has the form of CountMatrix::to_freq: (value + pseudocount) / total of the whole '
                           'pseudocounted row, every row and column (shared with R14.12; seed C09-11 totalled the raw row)', ['R14.12'])
    r99(db, ctx)
    r91(db, ctx)
    r92(db, ctx)
    r93(db, ctx)
    r94(db, ctx)
    r95(db, ctx)
    r97(db, ctx)
    r98(db, ctx)
