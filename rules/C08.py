"""C08 — 8-bit discretised scores never under-estimate the real score (E6: estimate-direction analysis)."""
from lm.db import short
from lm import expr as X, guards as G
from lm.match import norm, m
from lm import report
from . import common, scanner as S

LEVEL_NOTE = ('decides: rounding direction of the cell discretisation (up) and of the threshold mapping (down) over the same offset/factor fields; '
              'every 8-bit accumulation reachable from a Score<u8> implementation saturates; pruning comparisons are over-estimate >= under-estimate. '
              'The inequality D >= scale(s) then follows by monotonicity (DESIGN §4 C08). Known finding: the generic kernel accumulates with `+=`.')

SAT_INTRINSICS = ('_mm256_adds_epu8', '_mm_adds_epu8', 'vqaddq_u8')
WRAP_INTRINSICS = ('_mm256_add_epi8', '_mm_add_epi8', '_mm256_adds_epi8', '_mm_adds_epi8', '_mm256_add_epi16', '_mm_add_epi16',
                   'vaddq_u8', 'vaddq_s8', 'vqaddq_s8', 'vaddq_u16')


def r81(db, ctx):
    ctx.rule('R8.1', 'to_discrete: cell = ceil((x - offsets[i]) / factor) as u8 (saturating cast), with the struct fields offset = sum(offsets) '
                     'and factor = the same divisor — rounding direction UP')
    f = db.fn('lightmotif::pwm::ScoringMatrix::to_discrete')
    R = X.Rec(f)
    cell = None
    for s in X.stores(f, R):
        v = s['value']
        if v[0] == 'cast' and v[3] == 'FloatToInt' and v[2] == 'u8':
            cell = s
    if not cell:
        ctx.fail('R8.1', f, 'cell store', 'reason=unrecognised-shape: no f32 -> u8 cell store')
        return None
    v = norm(cell['value'][1])
    tgt = norm(cell['target'])
    b = m(('call~', ('f32::ceil',), (('bin', 'Div', ('bin', 'Sub', '$x', '$off'), '$factor'),)), v)
    if not b:
        rnd = v[1].rsplit('::', 1)[-1] if v[0] == 'call' else 'no rounding call'
        ctx.fail('R8.1', f, 'cell rounding',
                 f'cell is {X.show(cell["value"], 160)}: expected ceil((x - offsets[i]) / factor); rounding `{rnd}` is not upward, so a cell can under-estimate', span=cell['span'])
        return None
    # x = pssm[i][j], target = data[i][j], off = offsets[i] with the same i, j — in any loop form (index loops, zipped row iterators, enumerate)
    from lm import iteralg
    CA = iteralg.Canon(f, R)
    tgt_c, x_c, off_c = CA.canon(cell['target']), CA.canon(b['$x']), CA.canon(b['$off'])
    bt = m(('at', ('at', '$data', '$i'), '$j'), tgt_c)
    bx = m(('at', ('at', '$src', '$i2'), '$j2'), x_c)
    bo = m(('at', '$offs', '$i3'), off_c)
    if not (bt and bx and bo and bt['$i'] == bx['$i2'] == bo['$i3'] and bt['$j'] == bx['$j2']):
        ctx.fail('R8.1', f, 'cell indices', f'cell {X.show(cell["target"], 80)} is not computed from the same (row, column) and the row\'s own offset', span=cell['span'])
        return None
    if m(('call~', 'ScoringMatrix::matrix', (('p', 1),)), bx['$src']) is None and m(('fld', ('p', 1), 'data'), bx['$src']) is None:
        ctx.fail('R8.1', f, 'cell source', f'cells are not read from self: {X.show(bx["$src"])}')
        return None
    # coverage: i over all rows of the new matrix, j over all of its columns (the wildcard column included: its cell must be an
    # over-estimate too whenever the wildcard score is finite)
    i_e, j_e = bt['$i'], bt['$j']
    data, src, offs = bt['$data'], bx['$src'], bo['$offs']

    def def_of(v):
        if v[0] == 'v':
            ds = f.defs().get(v[1], [])
            if len(ds) == 1:
                return norm(R.call(ds[0][2]) if ds[0][1] == 'term' else R.rvalue(ds[0][2]))
        return None
    def is_self_matrix(e):
        # self.data and self.matrix() are the same object (matrix() is the trivial getter of the field)
        return m(('call~', 'ScoringMatrix::matrix', (('p', 1),)), e) is not None or m(('fld', ('p', 1), 'data'), e) is not None
    same_src = lambda e: e == src or (is_self_matrix(e) and is_self_matrix(src))
    d_data = def_of(data)
    d_offs = def_of(offs) if offs[0] == 'v' else offs
    # the offsets come from a private helper of self (`self.row_offsets()`): read the helper's own result
    if d_offs is not None and d_offs[0] == 'call' and d_offs[2] == (('p', 1),):
        gs = [g_ for g_ in db.fns.values() if g_.path.startswith('lightmotif::pwm::ScoringMatrix') and not g_.promoted_of and short(g_.path) == d_offs[1]]
        if len(gs) == 1:
            ge = common.return_expr_single_path_allow(gs[0])
            if ge is not None:
                d_offs = norm(ge)
    mnew = m(('call~', 'DenseMatrix::new', (('call~', ('DenseMatrix::rows', 'ScoringMatrix::len'), ('$s',)),)), d_data) if d_data is not None else None
    data_rows_of_src = mnew is not None and (same_src(mnew['$s']) or mnew['$s'] == ('p', 1))
    offs_per_row = d_offs is not None and any(x[0] == 'call' and x[1].endswith('DenseMatrix::iter') and same_src(norm(x[2][0])) for x in X.walk(d_offs)) \
        and d_offs[0] == 'call' and d_offs[1].endswith(('Iterator::collect', 'FromIterator::from_iter')) \
        and not any(x[0] == 'call' and x[1].rsplit('::', 1)[-1] in ('filter', 'take', 'skip', 'step_by', 'take_while', 'skip_while', 'filter_map') for x in X.walk(d_offs))

    def pushed_per_row(v):
        """v is a Vec that starts empty and receives exactly one push in every iteration of one loop over the rows of the source matrix."""
        if v[0] != 'v':
            return False
        ds = f.defs().get(v[1], [])
        if len(ds) != 1 or ds[0][1] != 'term':
            return False
        ini = norm(R.call(ds[0][2]))
        if not (ini[0] == 'call' and ini[1].endswith(('Vec::with_capacity', 'Vec::new'))):
            return False
        pushes, others = [], 0
        for bi_, t_ in f.calls():
            args_ = [norm(R.at(bi_).operand(a_)) for a_ in t_['args']]
            if not any(X.strip_refs(a_) == v for a_ in args_):
                continue
            c_ = f.callee_short(t_) or ''
            if c_.endswith('Vec::push') and X.strip_refs(args_[0]) == v:
                pushes.append((bi_, t_, args_))
            elif c_.rsplit('::', 1)[-1] in ('len', 'iter', 'as_slice', 'deref', 'index', 'into_iter', 'is_empty', 'as_ref', 'capacity'):
                pass
            else:
                others += 1
        if len(pushes) != 1 or others:
            return False
        bi_, t_, args_ = pushes[0]
        val = CA.canon(args_[1])
        from lm import reduce as RD
        ids = [i_ for i_ in RD.pos_ids(val) if not isinstance(i_, tuple)]
        from . import C04
        for lid in ids:
            ext = CA.extents.get(lid)
            L_ = C04._loop_with_header_or_iter(f, R, lid)
            if ext and len(ext) == 1 and ext[0][0] == 'rows' and same_src(ext[0][1]) and L_ is not None and bi_ in L_['body'] \
                    and all(f.dominates(bi_, lt) for lt in L_['latches']) and len(C04._normal_exits(f, L_)) == 1 \
                    and not any(bi_ in L2['body'] and L2['header'] != L_['header'] and L2['header'] in L_['body'] for L2 in f.loops()):
                return True
        return False

    def rows_component_ok(c):
        # the number of iterations contributed by this component is the number of rows of the new matrix
        if c[0] == 'rows' and (c[1] == data or (same_src(c[1]) and data_rows_of_src)):
            return True
        if c[0] == 'sub' and c[2] == ('k', 0):
            hi = c[1]
            if m(('call~', ('DenseMatrix::rows', 'ScoringMatrix::len'), ('$m',)), hi) is not None:
                mm_ = m(('call~', ('DenseMatrix::rows', 'ScoringMatrix::len'), ('$m',)), hi)['$m']
                return mm_ == data or ((same_src(mm_) or mm_ == ('p', 1)) and data_rows_of_src)
        if c[0] == 'len' and c[1] == offs and offs_per_row and data_rows_of_src:
            return True
        if c[0] == 'len' and c[1] == offs and data_rows_of_src and pushed_per_row(offs):
            return True
        return False

    def cols_component_ok(c):
        if c[0] == 'len' and c[1][0] == 'at' and c[1][1] in (data, src) and c[1][2] == i_e:
            return True           # a whole row (fixed-size array of C elements)
        if c[0] == 'sub' and c[2] == ('k', 0):
            hi = c[1]
            if common.is_usize_const(hi, 'K'):
                return True
            mm_ = m(('call~', 'DenseMatrix::columns', ('$m',)), hi)
            return mm_ is not None
        return False
    ri = CA.extents.get(i_e[1]) if iteralg.is_pos(i_e) else None
    cj = CA.extents.get(j_e[1]) if iteralg.is_pos(j_e) else None
    if not (ri and all(rows_component_ok(c) for c in ri)):
        ctx.fail('R8.1', f, 'row coverage', f'cells are filled for rows {X.show(i_e, 60)} over {ri}, expected every row of the new matrix', span=cell['span'])
        return None
    if not (cj and all(cols_component_ok(c) for c in cj)):
        ctx.fail('R8.1', f, 'column coverage',
                 f'cells are filled for columns {X.show(j_e, 60)} over {cj} only: the remaining column(s) keep 0, which under-estimates a finite score of that symbol (e.g. a neutral wildcard)',
                 span=cell['span'])
        return None
    # aggregate
    agg = None
    for blk in f.blocks:
        for st in blk['stmts']:
            if st['k'] == 'assign' and st['rv']['k'] == 'agg' and st['rv'].get('adt', '').endswith('pwm::DiscreteMatrix'):
                agg = st['rv']
    if not agg:
        ctx.fail('R8.1', f, 'result', 'reason=unrecognised-shape: no DiscreteMatrix aggregate')
        return None
    ops = dict(zip(agg['fields'], [norm(R.operand(o)) for o in agg['ops']]))
    probs = []
    if ops.get('factor') != b['$factor']:
        probs.append(f'field factor = {X.show(ops.get("factor"))} but cells are divided by {X.show(b["$factor"])}')
    if ops.get('offsets') != bo['$offs']:
        probs.append('field offsets is not the vector subtracted from the cells')
    # offset = Σ offsets over the whole vector, in any spelling (sum / fold / map chain)
    from lm import reduce as RD
    RC = RD.RCanon(db, f, R)
    red = RD.of_expr(RC, ops.get('offset')) if ops.get('offset') is not None else None
    # the summed sequence is the offsets vector itself, element by element (the vector may be a collected pipeline: compare element-wise)
    el = RC.elem_of(('call', 'core::slice::iter', (bo['$offs'],)), red['L']) if red is not None else None
    if not (red is not None and el is not None and red['op'] == 'add' and norm(red['init']) in (('k', 0), ('k', 0.0)) and red['term'] == el[0] and red['extents'] == el[1]):
        probs.append(f'field offset = {X.show(ops.get("offset"), 100)} is not the sum of the same offsets vector')
    if ops.get('data') != bt['$data']:
        probs.append('field data is not the matrix that was filled')
    if probs:
        ctx.fail('R8.1', f, 'DiscreteMatrix fields', '; '.join(probs))
        return None
    ctx.ok('R8.1', f, 'cell(i,j) = sat_u8(ceil((pssm[i][j] - offsets[i]) / factor)); offset = Σ offsets; same factor stored',
           ['rounding UP', 'float->int `as` cast saturates', 'fields plumbed from the same values'])
    return True


def r82(db, ctx):
    ctx.rule('R8.2', 'scale(x) = floor((x - self.offset) / self.factor) as u8 — rounding direction DOWN over the same fields; unscale is its affine inverse')
    f = db.fn('lightmotif::pwm::DiscreteMatrix::scale')
    e = common.return_expr_single_path_allow(f)
    ok = False
    if e and e[0] == 'cast' and e[3] == 'FloatToInt' and e[2] == 'u8':
        b = m(('call~', 'f32::floor', (('bin', 'Div', ('bin', 'Sub', ('p', 2), ('fld', ('p', 1), 'offset')), ('fld', ('p', 1), 'factor')),)), norm(e[1]))
        ok = b is not None
    if ok:
        ctx.ok('R8.2', f, 'scale = sat_u8(floor((x - offset)/factor))', ['rounding DOWN'])
    else:
        ctx.fail('R8.2', f, 'threshold mapping', f'scale() is {X.show(e, 160) if e else None}: expected floor((x - self.offset) / self.factor) as u8 (a mapping that can round up loses hits)')
    f = db.fn('lightmotif::pwm::DiscreteMatrix::unscale')
    e = common.return_expr_single_path_allow(f)
    en = norm(e) if e else None
    ok = en and (m(('bin', 'Add', ('bin', 'Mul', ('cast', ('p', 2), 'f32', 'IntToFloat'), ('fld', ('p', 1), 'factor')), ('fld', ('p', 1), 'offset')), en) is not None)
    if ok:
        ctx.ok('R8.2', f, 'unscale = x*factor + offset')
    else:
        ctx.fail('R8.2', f, 'unscale', f'not (x as f32)*factor + offset: {X.show(e, 120) if e else None}')


def u8_accumulations(db, f):
    """Yield (kind, description, span) for every 8-bit addition in f: kind in sat / wrap / generic."""
    out = []
    # closures defined in f are part of its body (a `fold` / `map` / `for_each` closure holds the addition of an iterator-style loop)
    for g in common.closures_of(db, f):
        out.extend(u8_accumulations(db, g))
    for bi, blk in enumerate(f.blocks):
        if blk['cleanup']:
            continue
        for st in blk['stmts']:
            if st['k'] == 'assign' and st['rv']['k'] == 'bin' and st['rv']['op'] in ('Add', 'AddWithOverflow', 'AddUnchecked') and st['rv'].get('ty') == 'u8':
                out.append(('wrap', f'u8 `{st["rv"]["op"]}` (overflow-checked in debug, wrapping in release)', st.get('span')))
        t = blk['term']
        if t['k'] == 'call':
            c = (f.callee_short(t) or '')
            last = c.rsplit('::', 1)[-1]
            full = t.get('callee_full') or ''
            if last in SAT_INTRINSICS:
                out.append(('sat', last, t['span']))
            elif last in WRAP_INTRINSICS:
                out.append(('wrap', f'{last} (wrapping / signed)', t['span']))
            elif last == 'saturating_add' and ('u8' in full or c.startswith('core::num')):
                out.append(('sat', 'u8::saturating_add', t['span']))
            elif last in ('wrapping_add', 'add_assign', 'add') and ('AddAssign' in c or 'Add::add' in c or last == 'wrapping_add'):
                # generic `score += x` on T (instantiated with u8) or explicit u8 add through the operator traits
                argtys = [f.local_ty(a[k]['l']) for a in t['args'] for k in ('c', 'm') if k in a]
                if any(x in ('T', '&mut T', 'u8', '&mut u8') for x in argtys) or 'T' in t.get('gargs', []):
                    out.append(('generic', f'{last} on the element type (for u8: overflow-checked in debug, wrapping in release)', t['span']))
    return out


def r83(db, ctx):
    ctx.rule('R8.3', 'every 8-bit accumulation reachable from an implementation of Score<u8,..> (and DiscreteMatrix::score_position) is saturating')
    n = 0
    # (1) DiscreteMatrix::score_position
    f = db.fn('lightmotif::pwm::DiscreteMatrix::score_position')
    acc = u8_accumulations(db, f)
    bad = [a for a in acc if a[0] != 'sat']
    if acc and not bad:
        n += 1
        ctx.ok('R8.3', f, 'accumulates with saturating_add', [a[1] for a in acc])
    elif not acc:
        ctx.fail('R8.3', f, 'accumulation', 'reason=unrecognised-shape: no 8-bit accumulation found')
    for a in bad:
        ctx.fail('R8.3', f, 'non-saturating u8 accumulation', a[1] + ': the sum wraps past 255 and can fall below the image of the real score', span=a[2])
    # (2) Score<u8> implementations
    default_fn = [x for x in db.by_short.get('lightmotif::pli::Score::score_rows_into', []) if x.raw.get('trait_default_of')]
    impls = [im for im in db.impls if im.get('trait_def') == 'lightmotif::pli::Score' and im['crate'] == 'lightmotif']
    ctx.floor('R8.3i', len(impls), 6, 'impl Score<..> blocks')
    inherits = []
    for im in impls:
        tr = im['trait']
        elem = tr[tr.index('Score<') + 6:].split(',')[0].strip()
        if elem not in ('u8', 'T'):
            continue
        if 'score_rows_into' not in im['items']:
            inherits.append(im['self_ty'].replace('lightmotif::', '') + f' ({elem})')
            continue
        root = db.fns.get(im['items']['score_rows_into'])
        if root is None:
            ctx.fail('R8.3', im['path'], 'override', 'reason=anchor-missing: overriding body not found')
            continue
        seen, ext = db.reach([root], stop=lambda g: g.crate != 'lightmotif')
        accs = []
        for g in seen.values():
            if g.crate != 'lightmotif':
                continue
            for a in u8_accumulations(db, g):
                accs.append((g, a))
        # which of them are reachable only through the generic default (reported once below)?
        for g, a in accs:
            if default_fn and g.path == default_fn[0].path:
                if im['self_ty'].replace('lightmotif::', '') + ' (via generic arm)' not in inherits:
                    inherits.append(im['self_ty'].replace('lightmotif::', '') + ' (via generic arm)')
                continue
            if g.path.startswith('lightmotif::pwm::') or 'scan::' in g.path:
                continue
            if a[0] == 'sat':
                n += 1
                ctx.ok('R8.3', g, f'{a[1]} (reached from {im["self_ty"].replace("lightmotif::", "")})', ['saturating 8-bit add'])
            else:
                ctx.fail('R8.3', g, 'non-saturating u8 accumulation', f'{a[1]} reached from {im["path"]}', span=a[2])
    # (3) the generic default body
    for d in default_fn:
        acc = [a for a in u8_accumulations(db, d) if a[0] != 'sat']
        if acc and inherits:
            for a in acc[:1]:
                ctx.fail('R8.3', d, 'non-saturating u8 accumulation (AddAssign)',
                         f'{a[1]}; inherited for 8-bit scores by: {", ".join(sorted(inherits))}', span=a[2])
        elif inherits:
            n += 1
            ctx.ok('R8.3', d, 'generic kernel accumulates with a saturating operation', inherits)
    ctx.floor('R8.3', n, 1, 'saturating accumulation sites')


def r84(db, ctx):
    ctx.rule('R8.4', 'every pruning comparison in the scanner is over-estimate >= under-estimate, and the byte threshold is scale(exact score)')
    for which in ('next', 'max'):
        sub = report.Ctx('C08', ctx.tier)
        ids = {'unwrap': '_', 'bound': '_', 'formula': '_', 'cmp': 'R8.4', 'block': '_', 'once': '_', 'prefilter': 'R8.4', 'down': 'R8.4'}
        S.analyse(db, sub, which, ids)
        for o in sub.obligations:
            if o['rule'] == 'R8.4':
                ctx.obligations.append(o)
        for v in sub.violations:
            if v['rule'] == 'R8.4':
                ctx.violations.append(v)
        ctx.functions |= sub.functions
    n = sum(1 for o in ctx.obligations if o['rule'] == 'R8.4' and o['verdict'] == 'discharged')
    ctx.floor('R8.4', n, 4, 'pruning comparisons / thresholds in Scanner::{next,max}')


def run(db, ctx):
    r81(db, ctx)
    r82(db, ctx)
    r83(db, ctx)
    r84(db, ctx)
    # "never lose a hit": the scanner skips a whole block of 8-bit scores when the block maximum is below the byte threshold, so the
    # maximum itself must not under-estimate any cell of the block (seed C08-5: the AVX2 kernel started from row 0 and never read the last row)
    from . import C07
    common.shared_rule(db, ctx, C07.block_maximum, 'R8.5', 'the block maximum that gates the 8-bit pre-filter is an upper bound of every cell of the block '
                       '(AVX2 max kernel: identity, row range, lane coverage, final reduction; generic: argmax scan over all cells) — shared with R7.1 / R7.4', ['R7.1', 'R7.4'])
    # "every position has a byte score": the 8-bit wrappers return an empty block only when there is no position at all (seed C08-8: `<=`)
    from . import C01
    common.shared_rule(db, ctx, C01.r13, 'R8.6', 'every score_rows_into wrapper resizes the output to (rows.len(), L + 1 - M) and returns early only when L < M or no row is asked for '
                       '(shared with R1.3)', ['R1.3'])
    # the 8-bit score of the dispatching pipeline is the saturating kernel's only if the dispatcher has the arm (seed C08-9)
    common.shared_rule(db, ctx, C01.r15, 'R8.7', 'dispatcher arms: the arm for backend V calls V\'s implementation, and every backend the dispatcher can select has its arm for the '
                       'operations it implements (shared with R1.5)', ['R1.5'])
