"""E3 — guards: which conditions hold at a block because of dominating SwitchInt edges; must-pass-through helpers."""
from . import expr as X
from .match import norm

NEG = {'eq': 'ne', 'ne': 'eq', 'lt': 'ge', 'ge': 'lt', 'le': 'gt', 'gt': 'le'}
BINREL = {'Eq': 'eq', 'Ne': 'ne', 'Lt': 'lt', 'Le': 'le', 'Gt': 'gt', 'Ge': 'ge', 'FLt': 'lt', 'FLe': 'le', 'FGt': 'gt', 'FGe': 'ge'}
# negation of a *partial* order test (floats; PartialOrd through a call on an unknown type): "not less", "not greater or equal", ...
# These relation names are deliberately matched by no rule: nothing follows from them (NaN).
NEG_PARTIAL = {'eq': 'ne', 'ne': 'eq', 'lt': 'nlt', 'ge': 'nge', 'le': 'nle', 'gt': 'ngt'}
CALLREL = {'PartialEq::eq': 'eq', 'PartialEq::ne': 'ne', 'PartialOrd::lt': 'lt', 'PartialOrd::le': 'le',
           'PartialOrd::gt': 'gt', 'PartialOrd::ge': 'ge'}


def edge_constraints(fn, rec, block):
    """[(discr_expr, ('eq', v) | ('notin', [..]), switch_block)] for switch edges that dominate `block`."""
    out = []
    dom = fn.dominators()
    if block not in dom:
        return out
    for d in sorted(dom[block]):
        t = fn.term(d)
        if t['k'] != 'switch':
            continue
        targets = [(int(v), tg) for v, tg in t['arms']]
        allt = [tg for _, tg in targets] + [t['otherwise']]
        hit = None
        for tg in set(allt):
            if tg == block or (tg in dom[block]):
                # the edge d->tg must be the only way into tg (apart from back edges from blocks tg dominates)
                others = [p for p in fn.preds(tg) if p != d and not (p in dom and tg in dom[p])]
                if others:
                    continue
                # and tg must not be the target of several different arms with different meaning
                vals = [v for v, x in targets if x == tg]
                is_other = t['otherwise'] == tg
                if is_other and vals:
                    continue
                hit = (tg, vals, is_other)
        if hit is None:
            continue
        tg, vals, is_other = hit
        de = (rec.at(d) if hasattr(rec, 'at') else rec).operand(t['discr'])
        if is_other:
            out.append((de, ('notin', [v for v, _ in targets]), d))
        elif len(vals) == 1:
            out.append((de, ('eq', vals[0]), d))
        else:
            out.append((de, ('in', vals), d))
    return out


def as_relation(e, truth):
    """Boolean expression + truth value -> (rel, a, b) | ('true'|'false', e)."""
    e0 = e
    while e[0] == 'un' and e[1] == 'Not':
        e = e[2]
        truth = not truth
    if e[0] == 'bin' and e[1] in BINREL:
        r = BINREL[e[1]]
        if not truth:
            r = NEG_PARTIAL[r] if e[1].startswith('F') else NEG[r]
        return (r, e[2], e[3])
    if e[0] == 'call' and len(e[2]) == 2:
        last = e[1].rsplit('::', 1)[-1]
        if last in ('eq', 'ne', 'lt', 'le', 'gt', 'ge'):
            r = last
            if not truth:
                # PartialOrd through a call: the operand type is generic or a reference (it may be a float): partial
                r = NEG_PARTIAL[r]
            return (r, e[2][0], e[2][1])
    return ('true' if truth else 'false', e)


def relations(fn, rec, block):
    """Relations known to hold on entry to `block` (from dominating boolean / discriminant switches)."""
    out = []
    for de, c, d in edge_constraints(fn, rec, block):
        ty = fn.blocks[d]['term'].get('discr_ty')
        if ty == 'bool':
            truth = (c == ('notin', [0])) or (c[0] == 'eq' and c[1] != 0)
            if c[0] in ('eq', 'notin'):
                out.append(as_relation(de, truth) + (d,))
        else:
            out.append(('switch', de, c, d))
    return out


def holds(rels, rel, a_pred, b_pred):
    """Is there a relation `rel` (or its mirrored form) whose sides satisfy the predicates?"""
    MIRROR = {'eq': 'eq', 'ne': 'ne', 'lt': 'gt', 'gt': 'lt', 'le': 'ge', 'ge': 'le'}
    for r in rels:
        if r[0] == rel and a_pred(r[1]) and b_pred(r[2]):
            return r
        if r[0] == MIRROR.get(rel) and a_pred(r[2]) and b_pred(r[1]):
            return r
    return None


def is_const(v):
    return lambda e: norm(e) == ('k', v)


def same_as(x):
    cx = X.canon(x)
    return lambda e: X.canon(e) == cx


def diverges(fn, block):
    """Does every path from `block` end without reaching a return (panic / unreachable)?"""
    seen = set()
    st = [block]
    while st:
        b = st.pop()
        if b in seen:
            continue
        seen.add(b)
        t = fn.term(b)
        if t['k'] == 'return':
            return False
        st.extend(fn.succs(b))
    return True


def closure_binding(db, clo):
    """For a closure passed to an iterator adaptor in its immediate parent, return
    (parent Fn, parent Rec, adaptor short name, receiver/chain expr) or None."""
    ip = clo.raw.get('iparent')
    if not ip or ip not in db.fns:
        return None
    par = db.fns[ip]
    R = X.Rec(par)
    for bi, t in par.calls():
        for ai, a in enumerate(t['args']):
            e = R.operand(a)
            hit = False
            for x in X.walk(e):
                if x[0] == 'agg' and isinstance(x[1], tuple) and x[1][0] == 'closure' and x[1][1] == clo.path:
                    hit = True
                if x[0] == 'closure' and x[1] == clo.path:
                    hit = True
            if hit:
                recv = R.operand(t['args'][0]) if ai > 0 else None
                return par, R, (par.callee_short(t) or ''), recv, t
    return None


def holds_gt(rels, a_pred, b_lin):
    """Is `a > b` implied by a dominating relation, in any of the forms a > b, a >= b + 1, b < a, b + 1 <= a?"""
    for r in rels:
        if r[0] not in ('gt', 'ge', 'lt', 'le'):
            continue
        x, y, rel = r[1], r[2], r[0]
        if rel in ('lt', 'le'):
            x, y, rel = y, x, {'lt': 'gt', 'le': 'ge'}[rel]
        if not a_pred(x):
            continue
        ly = X.lin(y)
        d = {k: ly.get(k, 0) - b_lin.get(k, 0) for k in set(ly) | set(b_lin)}
        d = {k: v for k, v in d.items() if v != 0}
        if rel == 'gt' and d == {}:
            return r
        if rel == 'ge' and d == {'': 1}:
            return r
    return None


def _edge_raw(fn, rec, a, b):
    """Constraint of taking the CFG edge a -> b, unconverted: ('bool', discr expr, truth, a) | ('sw', discr expr, constraint, a) | None."""
    t = fn.term(a)
    if t['k'] != 'switch':
        return None
    targets = [(int(v), tg) for v, tg in t['arms']]
    vals = [v for v, tg in targets if tg == b]
    is_other = t['otherwise'] == b
    if is_other and vals:
        return None
    de = (rec.at(a) if hasattr(rec, 'at') else rec).operand(t['discr'])
    if is_other:
        c = ('notin', [v for v, _ in targets])
    elif len(vals) == 1:
        c = ('eq', vals[0])
    else:
        c = ('in', vals)
    if t.get('discr_ty') == 'bool':
        if c[0] in ('eq', 'notin'):
            truth = (c == ('notin', [0])) or (c[0] == 'eq' and c[1] != 0)
            return ('bool', de, truth, a)
        return None
    return ('sw', de, c, a)


def _edge_relation(fn, rec, a, b):
    """Relation implied by taking the CFG edge a -> b (None when a does not branch or the edge carries no usable constraint)."""
    r = _edge_raw(fn, rec, a, b)
    if r is None:
        return None
    if r[0] == 'bool':
        return as_relation(r[1], r[2]) + (r[3],)
    return ('switch', r[1], r[2], r[3])


def _path_bool_env(fn, rec, blocks):
    """Boolean locals with several definitions that are assigned in the blocks of one path: {('v', l): value on this path}
    (`let improved = match best { Some(h) => a, None => b }; if improved { .. }`: on the Some path `improved` is a)."""
    env = {}
    defs = fn.defs()
    for b in blocks:
        for si, st in enumerate(fn.blocks[b]['stmts']):
            if st['k'] == 'assign' and not st['p']['pr']:
                l = st['p']['l']
                if fn.local_ty(l) == 'bool' and len(defs.get(l, [])) > 1 and l not in fn.borrowed_mut:
                    try:
                        env[('v', l)] = (rec.at(b) if hasattr(rec, 'at') else rec).rvalue(st['rv'])
                    except Exception:
                        env.pop(('v', l), None)
    return env


def _subst_env(e, env):
    if isinstance(e, tuple):
        if e in env:
            return env[e]
        return tuple(_subst_env(x, env) if isinstance(x, tuple) else x for x in e)
    return e


def alternatives(fn, rec, block, limit=12, depth=3):
    """Path condition of `block` in disjunctive form: a list of alternatives, each a list of relations (same tuples as `relations`).
    Every alternative contains the dominating relations; where `block` or one of its dominators is a join (short-circuit `a || b`,
    a `match` with several arms leading to the same code), the alternatives enumerate the acyclic forward paths from the join's
    immediate dominator, with the constraints of the edges taken (at most `depth` joins up the dominator chain, at most `limit`
    alternatives; beyond that the single alternative `relations(block)` is returned, which is always sound).  A boolean flag that is
    assigned on the arms of such a join and tested afterwards is replaced, per alternative, by the value it got on that arm."""
    base = relations(fn, rec, block)
    dom = fn.dominators()
    if block not in dom:
        return [base]

    def idom_of(b):
        strict = dom[b] - {b}
        for d in strict:
            if all(x in dom[d] for x in strict):
                return d
        return None

    def local_paths(d, b):
        paths = []

        def walk(x, acc, seen, blocks):
            if len(paths) > limit:
                return
            if x == b:
                paths.append((list(acc), list(blocks)))
                return
            for s_ in fn.succs(x):
                if s_ in seen or s_ not in dom or d not in dom[s_] or (s_ in dom[x] and s_ != b):
                    continue
                r = _edge_raw(fn, rec, x, s_)
                walk(s_, acc + ([r] if r is not None else []), seen | {s_}, blocks + [s_])
        walk(d, [], {d}, [])
        return paths

    extra = [([], {}, [])]       # (raw edge constraints in execution order, flag values, blocks of the path in execution order)
    b, joins = block, 0
    while True:
        d = idom_of(b)
        if d is None:
            break
        paths = local_paths(d, b)
        if not paths or len(paths) > limit:
            return [base]
        if len(paths) > 1:
            joins += 1
            if joins > depth:
                break
            new = []
            for raws, blocks in paths:
                env_p = _path_bool_env(fn, rec, blocks[:-1] if blocks and blocks[-1] == b else blocks)
                for raws_e, env_e, blocks_e in extra:
                    env = dict(env_p)
                    env.update(env_e)
                    new.append((raws + raws_e, env, [d] + blocks + blocks_e))
            extra = new
            if len(extra) > limit:
                return [base]
        else:
            extra = [(paths[0][0] + raws_e, env_e, [d] + paths[0][1] + blocks_e) for raws_e, env_e, blocks_e in extra]
        b = d
    # a constraint read at block c about a local that is assigned again on a way from c to `block` (a loop-carried `best` tested before the
    # loop, then replaced inside it) says nothing about the value the local has at `block`: such constraints are dropped
    defs = fn.defs()

    def _reach(a, avoid=None):
        seen, st = set(), [a]
        while st:
            x = st.pop()
            for y in fn.succs(x):
                if y not in seen and y != avoid:
                    seen.add(y)
                    st.append(y)
        return seen
    _rc = {}

    def stale(expr, c):
        for x in _walk(expr):
            if isinstance(x, tuple) and len(x) == 2 and x[0] == 'v' and len(defs.get(x[1], [])) > 1:
                for d in defs[x[1]]:
                    db_ = d[0]
                    if c not in _rc:
                        _rc[c] = _reach(c)
                    if db_ in _rc[c] and (block in _reach(db_, avoid=c) or db_ == c):
                        return True
        return False

    def _walk(e):
        if isinstance(e, tuple):
            yield e
            for y in e:
                if isinstance(y, tuple):
                    yield from _walk(y)
    def stale_on_path(expr, c, blocks):
        # a constraint taken on the enumerated path itself: stale only if the local is assigned again further along that path
        if c not in blocks:
            return stale(expr, c)
        later = set(blocks[blocks.index(c) + 1:]) - {block}
        for x in _walk(expr):
            if isinstance(x, tuple) and len(x) == 2 and x[0] == 'v' and len(defs.get(x[1], [])) > 1:
                if any(d[0] in later for d in defs[x[1]]):
                    return True
        return False
    extra = [([r for r in raws if not stale_on_path(r[1], r[3], blocks)], env) for raws, env, blocks in extra]
    base = [r for r in base if not (isinstance(r[1], tuple) and stale(r[1], r[-1])) and not (len(r) > 3 and isinstance(r[2], tuple) and r[0] != 'switch' and stale(r[2], r[-1]))]
    key = lambda r: (r[0], repr(r[1:-1]))
    out = []
    for raws, env in extra:
        rels = []
        for r in base:
            if env and r[0] in ('true', 'false') and isinstance(r[1], tuple) and any(k == r[1] or _contains(r[1], k) for k in env):
                rels.append(as_relation(_subst_env(r[1], env), r[0] == 'true') + (r[-1],))
            else:
                rels.append(r)
        have = {key(r) for r in rels}
        for r in raws:
            de = _subst_env(r[1], env) if env else r[1]
            q = (as_relation(de, r[2]) + (r[3],)) if r[0] == 'bool' else ('switch', de, r[2], r[3])
            if key(q) not in have:
                rels.append(q)
                have.add(key(q))
        out.append(rels)
    return out


def _contains(e, x):
    if e == x:
        return True
    if isinstance(e, tuple):
        return any(_contains(y, x) for y in e if isinstance(y, tuple))
    return False


def expr_alternatives(e, truth=True, limit=16):
    """DNF of a boolean expression: list of conjunctions of relations.  `a | b`, `a || b` (BitOr on bools) split into alternatives,
    `a & b` joins; negation is pushed inwards (De Morgan)."""
    while e[0] == 'un' and e[1] == 'Not':
        e, truth = e[2], not truth
    if e[0] == 'bin' and e[1] in ('BitOr', 'BitAnd'):
        is_or = (e[1] == 'BitOr') == truth
        A, B = expr_alternatives(e[2], truth, limit), expr_alternatives(e[3], truth, limit)
        if is_or:
            out = A + B
        else:
            out = [x + y for x in A for y in B]
        return out if len(out) <= limit else [[as_relation(e, truth)]]
    if e[0] == 'ite' and len(e) == 4:
        # (c & a) | (!c & b), with constant arms simplified
        c, a, b = e[1], e[2], e[3]
        out = []
        for cv, arm in ((True, a), (False, b)):
            if arm[0] == 'k' and isinstance(arm[1], bool):
                if arm[1] == truth:
                    out.extend(expr_alternatives(c, cv, limit))
                continue
            out.extend([x + y for x in expr_alternatives(c, cv, limit) for y in expr_alternatives(arm, truth, limit)])
        return out if 0 < len(out) <= limit else [[as_relation(e, truth)]]
    return [[as_relation(e, truth)]]


def feasible(alt):
    """False when the alternative constrains one discriminant / integer expression to two different values (an infeasible combination
    of a path through a `match` with the other arm's value of a flag computed by that same match)."""
    from .match import norm as _n
    must, cannot = {}, {}
    for r in alt:
        if r[0] == 'switch':
            k = repr(_n(r[1]))
            if r[2][0] == 'eq':
                must.setdefault(k, set()).add(r[2][1])
            elif r[2][0] == 'notin':
                cannot.setdefault(k, set()).update(r[2][1])
            elif r[2][0] == 'in':
                pass
        elif r[0] in ('eq', 'ne') and len(r) > 3 and isinstance(r[2], tuple) and _n(r[2])[0] == 'k' and isinstance(_n(r[2])[1], int) and not isinstance(_n(r[2])[1], bool):
            k = repr(_n(r[1]))
            (must if r[0] == 'eq' else cannot).setdefault(k, set()).add(_n(r[2])[1])
    for k, vs in must.items():
        if len(vs) > 1 or (vs & cannot.get(k, set())):
            return False
    return True


def expand_alternatives(alts, limit=24):
    """Split the boolean-expression relations ('true' / 'false', e) inside each alternative into their own alternatives."""
    out = []
    for a in alts:
        acc = [[]]
        for r in a:
            if r[0] in ('true', 'false') and isinstance(r[1], tuple) and ((r[1][0] == 'bin' and r[1][1] in ('BitOr', 'BitAnd')) or r[1][0] == 'ite'):
                parts = expr_alternatives(r[1], r[0] == 'true')
                acc = [x + [q + (r[-1],) for q in p] for x in acc for p in parts]
            else:
                acc = [x + [r] for x in acc]
            if len(acc) > limit:
                return alts
        out.extend(acc)
    out = [a for a in out if feasible(a)] or out
    return out if len(out) <= limit else alts
