"""Normalisation and pattern matching on recovered expressions."""
from .expr import is_ident_call

TRANSPARENT_CASTS = ('IntToInt', 'PtrToPtr')


def norm(e, clone_transparent=False):
    """Drop refs/derefs, integer/pointer casts and identity conversions (as_ref/into/from/borrow/deref)."""
    if not isinstance(e, tuple) or not e or not isinstance(e[0], str):
        return e
    t = e[0]
    if t == 'named':
        return norm(e[2], clone_transparent)
    if t in ('ref', 'deref'):
        return norm(e[1], clone_transparent)
    if t == 'cast' and (e[3] in TRANSPARENT_CASTS or e[3].startswith('PointerCoercion')):
        return norm(e[1], clone_transparent)
    if t == 'call':
        if len(e[2]) == 1 and (is_ident_call(e[1]) and (clone_transparent or not e[1].endswith('clone'))):
            return norm(e[2][0], clone_transparent)
        if len(e) > 3 and e[3] and (e[1].endswith('Unsigned::to_usize') or e[1] == 'lightmotif::dense::DenseMatrix::columns'):
            from .expr import const_call
            kc = const_call(e[1], e[3])
            if kc is not None:
                return ('kc', kc[1])
        args = tuple(norm(a, clone_transparent) for a in e[2])
        # m[MatrixCoordinates::new(r, c)] is m[r][c] (dense.rs Index<MatrixCoordinates>: data[row][col])
        if e[1].endswith(('ops::index::Index::index', 'ops::index::IndexMut::index_mut')) and len(args) == 2 and args[1][0] == 'call' \
                and args[1][1].endswith('MatrixCoordinates::new') and len(args[1][2]) == 2:
            return ('idx', ('call', e[1], (args[0], args[1][2][0])), args[1][2][1])
        # `p.cast::<U>()` is `p as *const U` (a pointer cast is already transparent in canonical forms)
        if e[1] in ('core::ptr::const_ptr::cast', 'core::ptr::mut_ptr::cast', 'core::ptr::const_ptr::cast_mut', 'core::ptr::mut_ptr::cast_const') and len(args) == 1:
            return args[0]
        # std::cmp::min(a, b) is a.min(b)
        if e[1] in ('core::cmp::min', 'core::cmp::max', 'std::cmp::min', 'std::cmp::max') and len(args) == 2:
            return ('call', 'core::cmp::Ord::' + e[1].rsplit('::', 1)[-1], args)
        # cond.then_some(v) is `if cond { Some(v) } else { None }` (v is evaluated either way; it has no effects in a recovered expression)
        if e[1].endswith('bool::then_some') and len(args) == 2:
            return ('ite', args[0], ('agg', ('adt', 'core::option::Option', 'Some', ('0',)), (args[1],)), ('agg', ('adt', 'core::option::Option', 'None', ()), ()))
        return ('call', e[1], args)
    if t == 'fld' and isinstance(e[1], tuple) and e[1] and e[1][0] == 'down' and str(e[2]) == '0':
        inner = norm(e[1][1], clone_transparent)
        var = e[1][2]
        # a borrowed option has the payload of the option: (o.as_ref() as Some).0 = (o as Some).0
        for _ in range(2):
            if var == 'Some' and inner[0] == 'call' and inner[1].endswith(('Option::as_ref', 'Option::as_mut', 'Option::as_deref', 'Option::as_deref_mut')) and len(inner[2]) == 1:
                inner = inner[2][0]
        # the success payload passes unchanged through error adapters: (r.map_err(f) as Ok).0 = (r as Ok).0, (o.ok_or(e) as Ok).0 = (o as Some).0
        for _ in range(3):
            if var == 'Ok' and inner[0] == 'call' and inner[1].endswith('Result::map_err') and len(inner[2]) == 2:
                inner = inner[2][0]
            elif var == 'Ok' and inner[0] == 'call' and inner[1].endswith(('Option::ok_or', 'Option::ok_or_else')) and len(inner[2]) == 2:
                inner, var = inner[2][0], 'Some'
            else:
                break
        # (Some(v) as Some).0 = v ;  (Ok(v) as Ok).0 = v
        if inner[0] == 'agg' and isinstance(inner[1], tuple) and inner[1][0] == 'adt' and inner[1][2] == var and len(inner[2]) == 1:
            return norm(inner[2][0], clone_transparent)
        # `x?` : (Try::branch(r) as Continue).0 is the success payload of r
        if var == 'Continue' and inner[0] == 'call' and inner[1].endswith('Try::branch') and len(inner[2]) == 1:
            r = inner[2][0]
            if r[0] == 'call' and r[1].endswith(('Option::ok_or_else', 'Option::ok_or')) and r[2]:
                return norm(('fld', ('down', r[2][0], 'Some'), '0'), clone_transparent)
            if r[0] == 'call' and r[1].endswith(('Option::as_ref', 'Option::as_mut', 'Option::as_deref')) and len(r[2]) == 1:
                return norm(('fld', ('down', r[2][0], 'Some'), '0'), clone_transparent)       # `let x = self.opt.as_ref()?;`
            if r[0] == 'call' and r[1].endswith('Result::map_err') and r[2]:
                return norm(('fld', ('down', r[2][0], 'Ok'), '0'), clone_transparent)
            if r[0] == 'agg' and isinstance(r[1], tuple) and r[1][0] == 'adt' and r[1][2] in ('Ok', 'Some') and len(r[2]) == 1:
                return norm(r[2][0], clone_transparent)
        return ('fld', ('down', inner, var), e[2])
    if t == 'fld' and isinstance(e[1], tuple) and e[1] and str(e[2]).isdigit():
        # (a, b).0 = a : a field of a tuple built in place (a helper returning a pair, inlined)
        inner = norm(e[1], clone_transparent)
        if inner[0] == 'agg' and inner[1] == 'tuple' and int(e[2]) < len(inner[2]):
            return norm(inner[2][int(e[2])], clone_transparent)
        return ('fld', inner, e[2])
    if t == 'ite':
        c, a, b = norm(e[1], clone_transparent), norm(e[2], clone_transparent), norm(e[3], clone_transparent)
        # if x < y { x } else { y }  and friends: the minimum / maximum of the two operands
        if c[0] == 'bin' and c[1] in ('Lt', 'Le', 'Gt', 'Ge'):
            x, y = c[2], c[3]
            less = c[1] in ('Lt', 'Le')
            if (a, b) == (x, y):
                return ('call', 'core::cmp::Ord::min' if less else 'core::cmp::Ord::max', (x, y))
            if (a, b) == (y, x):
                return ('call', 'core::cmp::Ord::max' if less else 'core::cmp::Ord::min', (x, y))
        return ('ite', c, a, b)
    if t == 'k':
        return ('k', e[1])
    if t == 'kc':
        return ('kc', e[1])
    out = [t]
    for x in e[1:]:
        if isinstance(x, tuple) and x and isinstance(x[0], str):
            out.append(norm(x, clone_transparent))
        elif isinstance(x, tuple):
            out.append(tuple(norm(y, clone_transparent) if isinstance(y, tuple) else y for y in x))
        else:
            out.append(x)
    r = tuple(out)
    # x - (x / d) * d  is  x % d  (integer division: the identity that defines the remainder)
    if t == 'bin' and len(r) == 4 and r[1] == 'Sub' and isinstance(r[3], tuple) and r[3] and r[3][0] == 'bin' and r[3][1] == 'Mul':
        for q, d in ((r[3][2], r[3][3]), (r[3][3], r[3][2])):
            if isinstance(q, tuple) and q and q[0] == 'bin' and q[1] == 'Div' and q[2] == r[2] and q[3] == d:
                return ('bin', 'Rem', r[2], d)
    return r


def m(pat, e, b=None):
    """Match pattern against (normalised) expression. Pattern atoms:
       '_' anything; '$x' capture (must be equal on repeat); ('call~', suffix, (args...)) callee by suffix;
       ('call~', suffix) any args; other tuples matched structurally."""
    if b is None:
        b = {}
    if pat == '_':
        return b
    if isinstance(pat, str) and pat.startswith('$'):
        if pat in b:
            return b if b[pat] == e else None
        b = dict(b)
        b[pat] = e
        return b
    if isinstance(pat, tuple) and pat and pat[0] == 'call~':
        if not (isinstance(e, tuple) and e and e[0] == 'call'):
            return None
        sufs = pat[1] if isinstance(pat[1], (list, tuple)) else (pat[1],)
        if not any(e[1].endswith(s) for s in sufs):
            return None
        if len(pat) == 2:
            return b
        if len(pat[2]) != len(e[2]):
            return None
        for pp, ee in zip(pat[2], e[2]):
            b = m(pp, ee, b)
            if b is None:
                return None
        return b
    if isinstance(pat, tuple):
        if not isinstance(e, tuple) or len(pat) != len(e):
            return None
        for pp, ee in zip(pat, e):
            b = m(pp, ee, b)
            if b is None:
                return None
        return b
    return b if pat == e else None


def find(pat, e):
    """All bindings for sub-expressions of e matching pat."""
    from .expr import walk
    out = []
    for x in walk(e):
        r = m(pat, x)
        if r is not None:
            out.append(r)
    return out
