"""Shared analysis of lightmotif::scan::Scanner::{next,max} used by C02, C03 and C08 (E3 + E5 + E6)."""
from lm.db import short
from lm import expr as X, guards as G
from lm.match import norm, m
from . import common

NEXT = r'^<lightmotif::scan::Scanner<.*> as core::iter::traits::iterator::Iterator>::next$'
MAX = r'^<lightmotif::scan::Scanner<.*> as core::iter::traits::iterator::Iterator>::max$'


def get(db, which):
    fs = db.find(NEXT if which == 'next' else MAX)
    fs = [f for f in fs if f.kind == 'AssocFn' and not f.promoted_of]
    return fs[0] if len(fs) == 1 else None


def self_field(e, name):
    """`self.<name>` for &mut self or self by value."""
    e = norm(e)
    return m(('fld', ('p', 1), name), e) is not None


def is_dscores(e):
    return self_field(e, 'dscores')


def canon_has(e, *subs):
    c = X.canon(e)
    return all(s in c for s in subs)


def is_seq_rows(e):
    """rows(seq.matrix()) - wrap(seq)   (plain or saturating)."""
    e = norm(e)
    b = m(('call~', 'saturating_sub', ('$a', '$b')), e)
    if b is None:
        b = m(('bin', 'Sub', '$a', '$b'), e)
    if b is None:
        return False
    a, w = b['$a'], b['$b']
    okA = m(('call~', 'DenseMatrix::rows', (('call~', 'StripedSequence::matrix', ('$s',)),)), a)
    okW = m(('call~', 'StripedSequence::wrap', ('$s2',)), w)
    return bool(okA and okW and is_self_seq(okA['$s']) and is_self_seq(okW['$s2']))


def is_self_seq(e):
    return self_field(e, 'seq')


def is_real(f, R, e, depth=0):
    """Expression denotes an exact f32 score: self.threshold, a hit's score, score_position(..)."""
    e = norm(e)
    if m(('fld', ('p', 1), 'threshold'), e) is not None:
        return 'threshold'
    if e[0] == 'fld' and e[2] == 'score':
        return 'hit.score'
    if e[0] == 'call' and e[1].endswith(('ScoringMatrix::score_position', 'Hit::score')):
        return 'rescored'
    # opt.map_or(default, |h| h.score): exact when both the default and the closure's result are exact
    b = m(('call~', 'Option::map_or', ('_', '$d', ('agg', '$tag', '_'))), e)
    if b is not None and isinstance(b['$tag'], tuple) and b['$tag'][0] == 'closure' and R.db is not None:
        k1 = is_real(f, R, b['$d'], depth + 1)
        cf = R.db.fns.get(b['$tag'][1])
        k2 = None
        if cf is not None:
            from . import common
            ce = common.return_expr_single_path_allow(cf)
            if ce is not None:
                cn = norm(ce)
                if cn[0] == 'fld' and cn[2] == 'score':
                    k2 = 'hit.score'
        if k1 and k2:
            return f'{k1}|{k2}'
    if e[0] == 'v' and depth < 3:
        ds = f.defs().get(e[1], [])
        kinds = set()
        for bi, si, x in ds:
            v = R.call(x) if si == 'term' else R.rvalue(x)
            k = is_real(f, R, v, depth + 1)
            if not k:
                return None
            kinds.add(k)
        return '|'.join(sorted(kinds)) if kinds else None
    return None


def down_class(f, R, e, depth=0):
    """Is e an UNDER-estimate image of a real score: dm.scale(REAL), or a variable only ever assigned such values?
    Returns (True, description) or (False, offending description)."""
    e = norm(e)
    b = m(('call~', 'DiscreteMatrix::scale', ('$dm', '$x')), e)
    if b is not None:
        if not self_field(b['$dm'], 'dm'):
            return False, f'scale() of a different matrix {X.show(b["$dm"])}'
        k = is_real(f, R, b['$x'])
        if k:
            return True, f'scale({k})'
        return False, f'scale() of a non-exact value {X.show(b["$x"], 80)}'
    if e[0] == 'v' and depth < 3:
        ds = f.defs().get(e[1], [])
        if not ds:
            return False, f'variable _{e[1]} has no definition'
        descr = []
        for bi, si, x in ds:
            v = R.call(x) if si == 'term' else R.rvalue(x)
            ok, d = down_class(f, R, v, depth + 1)
            if not ok:
                nm = f.local_name(e[1]) or f'_{e[1]}'
                sp = (x.get('span') if isinstance(x, dict) else None)
                return False, f'variable `{nm}` is assigned {X.show(v, 100)} ({d})'
            descr.append(d)
        return True, ' | '.join(sorted(set(descr)))
    return False, f'{X.show(e, 100)} is not scale(exact score)'


def find_calls(f, suffixes):
    out = []
    for bi, t in f.calls():
        c = f.callee_short(t) or short(t.get('callee') or '')
        if c.endswith(tuple(suffixes)):
            out.append((bi, t))
    return out


def _reaches_rescoring(f, start):
    """Is a call to score_position reachable from block `start` without taking a back edge (i.e. within the current iteration)?"""
    dom = f.dominators()
    seen, st = set(), [start]
    while st:
        b = st.pop()
        if b in seen or b not in dom:
            continue
        seen.add(b)
        t = f.term(b)
        if t['k'] == 'call' and (f.callee_short(t) or '').endswith('score_position'):
            return True
        for s_ in f.succs(b):
            if s_ in dom.get(b, ()):        # back edge
                continue
            st.append(s_)
    return False


def analyse(db, ctx, which, ids):
    """ids: mapping logical rule -> rule id for this property (unwrap, bound, formula, cmp, block, once, prefilter)."""
    f = get(db, which)
    if f is None:
        ctx.fail(ids['unwrap'], f'Scanner::{which}', 'anchor', 'reason=anchor-missing: Scanner::' + which + ' body not found')
        return None
    R = X.AliasRec(f, db)      # `max` takes self by value: `let mut row = self.row` is the field from then on
    ctx.analysed(f)

    # ---- block scoring call
    sc = find_calls(f, ['Score::score_rows_into'])
    if len(sc) != 1:
        ctx.fail(ids['block'], f, 'score_rows_into call', f'reason=unrecognised-shape: {len(sc)} calls to score_rows_into')
        return None
    sbi, st = sc[0]
    rng = norm(R.operand(st['args'][3]))
    out_buf = R.operand(st['args'][4])
    pssm_arg = R.operand(st['args'][1])
    b = m(('agg', '$tag', ('$start', '$end')), rng)
    ok_block = False
    if b and self_field(b['$start'], 'row'):
        e = b['$end']
        bm = m(('call~', 'Ord::min', ('$x', '$y')), e)
        if bm:
            xs = [bm['$x'], bm['$y']]
            step = [x for x in xs if m(('bin', 'Add', ('fld', ('p', 1), 'row'), ('fld', ('p', 1), 'block_size')), x) is not None
                    or m(('bin', 'Add', ('fld', ('p', 1), 'block_size'), ('fld', ('p', 1), 'row')), x) is not None]
            lim = [x for x in xs if is_seq_rows(x)]
            if len(step) == 1 and len(lim) == 1:
                ok_block = True
    if ok_block and is_dscores(out_buf) and self_field(pssm_arg, 'dm'):
        ctx.ok(ids['block'], f, 'block = self.row .. min(self.row + block_size, rows - wrap) scored with self.dm into self.dscores',
               ['range end clipped to the sequence rows (wrap rows excluded)'])
    else:
        ctx.fail(ids['block'], f, 'block range',
                 f'range passed to score_rows_into is {X.show(R.operand(st["args"][3]), 200)}; expected self.row .. min(self.row + self.block_size, rows(seq) - wrap(seq)) on (self.dm, self.dscores)', span=st['span'])
    # row advance: exactly one store self.row = self.row + self.block_size, executed on every iteration
    loops = [L for L in f.loops() if sbi in L['body']]
    outer = max(loops, key=lambda L: len(L['body'])) if loops else None
    rs = [s for s in X.stores(f, R) + R.alias_stores() if m(('fld', ('p', 1), 'row'), norm(s['target'])) is not None]
    adv_ok = False
    if outer and len(rs) == 1:
        v = norm(rs[0]['value'])
        if (m(('bin', 'Add', ('fld', ('p', 1), 'row'), ('fld', ('p', 1), 'block_size')), v) is not None) and \
                all(f.dominates(rs[0]['block'], l) for l in outer['latches']) and rs[0]['block'] in outer['body']:
            adv_ok = True
    if adv_ok:
        ctx.ok(ids['block'], f, 'self.row += self.block_size once per block iteration', ['store dominates the loop latch'])
    else:
        ctx.fail(ids['block'], f, 'row advance', f'expected exactly one `self.row += self.block_size` on every iteration of the block loop; found {[X.show(s["value"], 80) for s in rs]}')

    # ---- R2.1: no unwrap of Maximum::max / argmax on a possibly empty block
    mx = find_calls(f, ['Maximum::max', 'Maximum::argmax'])
    n_mx = 0
    for bi, t in mx:
        n_mx += 1
        dst = t['dest']['l']
        # how is the Option consumed?
        bad = None
        for bj, t2 in f.calls():
            c2 = f.callee_short(t2) or ''
            if c2.endswith(('Option::unwrap', 'Option::expect', 'Option::unwrap_unchecked')):
                a = norm(R.operand(t2['args'][0]))
                if a[0] == 'call' and a[1].endswith(('Maximum::max', 'Maximum::argmax')):
                    rels = G.relations(f, R, bj)
                    guarded = any(r[0] == 'false' and r[1][0] == 'call' and r[1][1].endswith('is_empty') and is_dscores(r[1][2][0]) for r in rels)
                    if not guarded:
                        bad = t2
        if bad is not None:
            ctx.fail(ids['unwrap'], f, 'unwrap of the block maximum',
                     'Maximum::max(..) is None whenever the scored block is empty (sequence shorter than the motif, empty sequence, or a block that '
                     'starts inside the wrap rows) and the result is unwrapped without a guard: panic', span=bad['span'])
        else:
            ctx.ok(ids['unwrap'], f, 'block maximum consumed without unwrap (None = empty block handled)', ['Option matched / guarded'])
    if n_mx == 0:
        ctx.note(f'Scanner::{which}: no Maximum::max pre-check (every block is thresholded)')

    # ---- threshold candidates
    th = find_calls(f, ['Threshold::threshold'])
    if len(th) != 1:
        ctx.fail(ids['prefilter'], f, 'threshold call', f'reason=unrecognised-shape: {len(th)} calls to Threshold::threshold')
        return None
    tbi, tt = th[0]
    targ = R.operand(tt['args'][2])
    if not is_dscores(R.operand(tt['args'][1])):
        ctx.fail(ids['prefilter'], f, 'threshold input', 'candidates are not taken from self.dscores')
    # E6: the byte threshold must be an under-estimate
    ok, d = down_class(f, R, targ)
    if ok:
        ctx.ok(ids['prefilter'], f, f'candidate threshold is an under-estimate: {d}', ['scale() rounds down (R8.2)'])
    else:
        ctx.fail(ids['down'], f, 'byte threshold is not an under-estimate', d + ' — an 8-bit score is an over-estimate (UP); pruning with it can discard a better position', span=tt['span'])
    # pre-filter comparisons: UP >= DOWN  (in the body, or inside a closure given to Option::map_or / is_some_and on the block maximum)
    UPMARK = ('up', 'block-max')
    comps = []
    for bi in range(len(f.blocks)):
        t = f.term(bi)
        if t['k'] != 'switch' or t.get('discr_ty') != 'bool':
            continue
        de = R.at(bi).operand(t['discr'])      # recovered at the branch: a condition bound to a boolean variable first is seen through
        # orientation: the relation that holds on the edge that *keeps* the candidate (leads to the rescoring call within this
        # iteration); `if d < t { continue }` keeps on the false edge, i.e. under d >= t.  Without a unique keeping edge: as written.
        truth = True
        f_tgt, t_tgt = (t['arms'][0][1], t['otherwise']) if len(t['arms']) == 1 and int(t['arms'][0][0]) == 0 else (None, None)
        if f_tgt is not None and f_tgt != t_tgt:
            kt, kf = _reaches_rescoring(f, t_tgt), _reaches_rescoring(f, f_tgt)
            if kf and not kt:
                truth = False
        rel = G.as_relation(de, truth)
        if rel[0] in ('ge', 'gt', 'le', 'lt', 'eq', 'ne'):
            comps.append((rel[0], norm(rel[1]), norm(rel[2]), t['span']))
    for bi, t in f.calls():
        c = f.callee_short(t) or ''
        if c.endswith(('Option::map_or', 'Option::is_some_and', 'Option::is_none_or')):
            a0 = norm(R.operand(t['args'][0]))
            if not (a0[0] == 'call' and a0[1].endswith(('Maximum::max',))):
                continue
            clo = norm(R.operand(t['args'][-1]))
            if c.endswith('map_or') and norm(R.operand(t['args'][1])) != ('k', False):
                ctx.fail(ids['unwrap'], f, 'empty block default', 'map_or default for an empty block is not `false`', span=t['span'])
            if clo[0] == 'agg' and isinstance(clo[1], tuple) and clo[1][0] == 'closure' and clo[1][1] in db.fns:
                cf = db.fns[clo[1][1]]
                ce = common.return_expr_single_path_allow(cf)
                if ce is None:
                    ctx.fail(ids['cmp'], cf, 'pre-filter closure', 'reason=unrecognised-shape')
                    continue
                cn = subst_captures(norm(ce), clo[2], UPMARK)
                rel = G.as_relation(cn, True)
                if rel[0] in ('ge', 'gt', 'le', 'lt', 'eq', 'ne'):
                    comps.append((rel[0], rel[1], rel[2], t['span']))
                else:
                    ctx.fail(ids['cmp'], cf, 'pre-filter closure', f'reason=unrecognised-shape: closure returns {X.show(ce)}')
            else:
                ctx.fail(ids['cmp'], f, 'pre-filter closure', 'reason=unrecognised-shape: not a closure literal', span=t['span'])

    def is_up(e):
        if e[0] == 'fld' and e[1][0] == 'down' and e[1][2] == 'Some' and e[1][1][0] == 'call' and e[1][1][1].endswith('Maximum::max'):
            return True
        return e == UPMARK or \
            (e[0] == 'call' and e[1].endswith('Option::unwrap') and e[2][0][0] == 'call' and e[2][0][1].endswith('Maximum::max')) or \
            (e[0] == 'call' and e[1].endswith('::index') and canon_has(e, 'dscores'))
    n_pref = 0
    for rel0, a, bb, span in comps:
        up_l, up_r = is_up(a), is_up(bb)
        if not (up_l or up_r):
            continue
        n_pref += 1
        up, other, r = (a, bb, rel0) if up_l else (bb, a, {'ge': 'le', 'gt': 'lt', 'le': 'ge', 'lt': 'gt'}.get(rel0, rel0))
        okd, d = down_class(f, R, other)
        if r != 'ge':
            ctx.fail(ids['cmp'], f, 'pre-filter comparison', f'8-bit comparison is `{r}` instead of `>=`: positions whose byte score equals the byte threshold are lost', span=span)
        elif not okd:
            ctx.fail(ids['down'], f, 'pre-filter comparison against an over-estimate', d, span=span)
        else:
            ctx.ok(ids['prefilter'], f, f'8-bit test {X.show(up, 60)} >= under-estimate', [d])

    if n_mx and not any(is_up(a) and (a == UPMARK or a[0] != 'call' or a[1].endswith('Option::unwrap')) or
                        is_up(b_) and (b_ == UPMARK or b_[0] != 'call' or b_[1].endswith('Option::unwrap')) for _, a, b_, _ in comps):
        ctx.fail(ids['cmp'], f, 'block maximum test', 'reason=unrecognised-shape: Maximum::max is called but its comparison with the byte threshold was not found')

    # ---- candidate -> position -> rescoring
    sp = find_calls(f, ['ScoringMatrix::score_position'])
    if len(sp) != 1:
        ctx.fail(ids['formula'], f, 'score_position call', f'reason=unrecognised-shape: {len(sp)} rescoring calls')
        return None
    pbi, pt = sp[0]
    idx = R.operand(pt['args'][2])
    # R2.3 formula
    l = X.lin(idx)
    want_row = None
    terms = dict(l)
    okf = terms.pop('', 0) == 0
    prod = [k for k in terms if k.startswith('(')]
    rowt = [k for k in terms if k.endswith('.row') and 'arg1' in k and 'elem' not in k]
    crow = [k for k in terms if k.endswith('.row') and 'elem' in k]
    if not (okf and len(terms) == 3 and len(prod) == 1 and len(rowt) == 1 and len(crow) == 1 and all(v == 1 for v in terms.values())):
        okf = False
    else:
        p = prod[0]
        if not ('.col' in p and 'DenseMatrix::rows' in p and 'StripedSequence::wrap' in p and 'Threshold::threshold' in p):
            okf = False
    # check the product is col * (rows - wrap) structurally
    if okf:
        found = False
        for x in X.walk(norm(idx)):
            if x[0] == 'bin' and x[1] == 'Mul':
                sides = [x[2], x[3]]
                cols = [s for s in sides if s[0] == 'fld' and s[2] == 'col' and s[1][0] == 'elem']
                rws = [s for s in sides if is_seq_rows(s)]
                if len(cols) == 1 and len(rws) == 1:
                    found = True
        okf = found
    if okf:
        ctx.ok(ids['formula'], f, 'position = c.col * (rows - wrap) + self.row + c.row', ['striped layout R1.4 with block offset'])
    else:
        ctx.fail(ids['formula'], f, 'position formula', f'candidate position is {X.show(idx, 300)}; expected c.col * (rows(seq) - wrap(seq)) + self.row + c.row', span=pt['span'])
    # R2.2 bound before rescoring
    rels = G.relations(f, R, pbi)
    cidx = X.canon(idx)
    bound = None
    for r in rels:
        if r[0] in ('lt', 'gt', 'le', 'ge'):
            lo, hi, strict = (r[1], r[2], r[0] == 'lt') if r[0] in ('lt', 'le') else (r[2], r[1], r[0] == 'gt')
            if X.canon(lo) == cidx and strict:
                h = norm(hi)
                if h[0] == 'call' and h[1].endswith('StripedScores::max_index') and is_dscores(h[2][0]):
                    bound = 'index < self.dscores.max_index()'
                else:
                    lh = X.lin(h)
                    ks = {k: v for k, v in lh.items() if k != ''}
                    if lh.get('', 0) == 1 and sorted(ks.values()) == [-1, 1] and any('seq' in k and 'len' in k for k in ks) and any(('pssm' in k or 'dm' in k) for k in ks):
                        bound = 'index < len(seq) + 1 - len(pssm)'
            # index + M <= L
            if not strict and bound is None:
                ll = X.lin(lo)
                li = X.lin(idx)
                rest = {k: ll.get(k, 0) - li.get(k, 0) for k in set(ll) | set(li)}
                rest = {k: v for k, v in rest.items() if v != 0}
                if len(rest) == 1 and list(rest.values()) == [1] and any(s in list(rest)[0] for s in ('pssm', 'dm')) \
                        and canon_has(hi, 'seq', 'len'):
                    bound = 'index + len(pssm) <= len(seq)'
    if bound:
        ctx.ok(ids['bound'], f, 'candidate position checked before rescoring', [bound])
    else:
        ctx.fail(ids['bound'], f, 'candidate position not bounded before rescoring',
                 'cells of the 8-bit block past the last valid position (index >= len - M + 1) reach score_position unchecked when the threshold is low: '
                 'out-of-bounds panic or hits past the sequence end', span=pt['span'])
    return {'f': f, 'R': R, 'idx': idx, 'score_call': pt, 'score_block': pbi, 'outer': outer, 'thr_arg': targ}


def subst_captures(e, ops, param_mark):
    """Rewrite a closure-body expression into the parent's terms: captured field k -> ops[k]; closure argument -> param_mark."""
    if not isinstance(e, tuple) or not e or not isinstance(e[0], str):
        return e
    if e == ('p', 2):
        return param_mark
    if e[0] == 'fld' and e[1] == ('p', 1) and e[2].isdigit() and int(e[2]) < len(ops):
        return norm(ops[int(e[2])])
    out = [e[0]]
    for x in e[1:]:
        if isinstance(x, tuple) and x and isinstance(x[0], str):
            out.append(subst_captures(x, ops, param_mark))
        elif isinstance(x, tuple):
            out.append(tuple(subst_captures(y, ops, param_mark) if isinstance(y, tuple) else y for y in x))
        else:
            out.append(x)
    return tuple(out)
