"""MIR inlining of *new* helper functions.

Rules recognise constructs inside the functions they are anchored in.  Extracting a few statements into a fresh private helper (or
factoring duplicated code out of several functions) moves those constructs into a function no rule knows about, which used to end in
`reason=unrecognised-shape` although nothing changed.  At load time every call from a workspace body to a workspace function that does
not exist in the reference function table (`/verif/baseline_fns.json`, the function paths of the tree the rules were written against) is
therefore inlined into its caller (bounded depth, non-recursive, callee without closures).  The transformation is purely structural
(block / local renumbering, argument moves, `return` -> `goto continuation`) and semantics-preserving; a private helper all of whose call
sites were inlined is dropped from the function table, so inventories (unsafe code, panic sites) see its body exactly once, in its callers.
"""
import copy, json, os

VERIF = os.path.dirname(os.path.dirname(os.path.abspath(__file__)))
BASELINE = os.path.join(VERIF, 'baseline_fns.json')
WORKSPACE = ('lightmotif', 'lightmotif_io', 'lightmotif_py', 'lightmotif_tfmpvalue')
MAX_BLOCKS = 120
MAX_DEPTH = 3


def load_baseline():
    try:
        return set(json.load(open(BASELINE))['functions'])
    except Exception:
        return None


def _place(p, loff):
    return {'l': p['l'] + loff, 'pr': [({**x, 'idx': x['idx'] + loff} if isinstance(x, dict) and 'idx' in x else x) for x in p['pr']]}


def _remap(x, loff):
    """Deep copy with every place's locals shifted by loff."""
    if isinstance(x, dict):
        if 'l' in x and 'pr' in x and isinstance(x['l'], int) and isinstance(x['pr'], list):
            return _place(x, loff)
        return {k: _remap(v, loff) for k, v in x.items()}
    if isinstance(x, list):
        return [_remap(v, loff) for v in x]
    return x


def _retarget(t, boff):
    for k in ('target', 'unwind', 'otherwise'):
        if isinstance(t.get(k), int):
            t[k] = t[k] + boff
    if 'arms' in t:
        t['arms'] = [[v, tg + boff] for v, tg in t['arms']]


def inline_call(caller_raw, bi, callee_raw):
    """Replace the call terminating block `bi` of caller_raw by the body of callee_raw (in place)."""
    blocks, locals_ = caller_raw['blocks'], caller_raw['locals']
    call = blocks[bi]['term']
    loff, boff = len(locals_), len(blocks)
    locals_.extend(copy.deepcopy(callee_raw['locals']))
    span = call.get('span')
    # argument moves
    for k, a in enumerate(call['args'], start=1):
        blocks[bi]['stmts'].append({'k': 'assign', 'p': {'l': loff + k, 'pr': []}, 'rv': {'k': 'use', 'a': a}, 'span': span, 'inlined_arg': True})
    cont = call.get('target')
    unwind = call.get('unwind')
    dest = call['dest']
    blocks[bi]['term'] = {'k': 'goto', 'target': boff, 'span': span, 'inlined': callee_raw['path']}
    for cb in callee_raw['blocks']:
        nb = {'cleanup': cb['cleanup'], 'stmts': [_remap(s, loff) for s in cb['stmts']], 'term': _remap(cb['term'], loff)}
        t = nb['term']
        _retarget(t, boff)
        if t['k'] == 'return':
            nb['stmts'].append({'k': 'assign', 'p': dest, 'rv': {'k': 'use', 'a': {'m': {'l': loff, 'pr': []}}}, 'span': t.get('span'), 'inlined_ret': True})
            nb['term'] = {'k': 'goto', 'target': cont, 'span': t.get('span')} if cont is not None else {'k': 'unreachable', 'span': t.get('span')}
        elif t['k'] == 'resume' and unwind is not None:
            nb['term'] = {'k': 'goto', 'target': unwind, 'span': t.get('span')}
        blocks.append(nb)


def inlined_copy(db, f, suffixes, depth=2):
    """A copy of f in which every call to a workspace function whose path ends with one of `suffixes` is replaced by the callee's body.
    Rules that describe a protocol spread over a function and its private helpers use it to read one canonical body, whether the author
    keeps the helpers or has merged them into the caller."""
    from .db import Fn
    raw = copy.deepcopy(f.raw)
    done = False
    for _ in range(depth):
        changed = False
        bi = 0
        while bi < len(raw['blocks']):
            t = raw['blocks'][bi]['term']
            if t['k'] == 'call':
                c = t.get('resolved') or t.get('callee') or ''
                g = db.fns.get(c)
                if g is None and t.get('callee'):
                    g = db.fns.get(t['callee'])
                if g is not None and g.path != f.path and g.path.endswith(tuple(suffixes)) and g.kind in ('Fn', 'AssocFn') and \
                        len(raw['blocks']) + len(g.raw['blocks']) < 2000:
                    inline_call(raw, bi, g.raw)
                    changed = done = True
            bi += 1
        if not changed:
            break
    if not done:
        return f
    thread_jumps(raw)
    return Fn(raw, f.crate)


def apply(db):
    base = load_baseline()
    db.inlined = {}
    db.adopted_closures = {}
    if base is None:
        return
    # materialised boolean merges (`!(a && b)`, `let ok = if .. {true} else {false}; if ok ..`) are threaded in every workspace body
    for f in db.fns.values():
        if f.crate in WORKSPACE and not f.promoted_of and len(f.raw['blocks']) < 1500:
            before = len(f.raw['blocks'])
            thread_jumps(f.raw)
            if len(f.raw['blocks']) != before or any(b.get('dead') for b in f.raw['blocks']):
                f.blocks = f.raw['blocks']
                f._succ = f._pred = f._dom = f._pdom = f._defs = f._loops = None
    cands = {}
    for f in db.fns.values():
        if f.crate in WORKSPACE and f.kind in ('Fn', 'AssocFn') and not f.promoted_of and f.path not in base and not f.raw.get('derived') \
                and not f.raw.get('trait_default_of') and not f.raw.get('impl_trait') and len(f.blocks) <= MAX_BLOCKS:
            # a helper with closures is inlined too: its closures are then also closures of the caller (db.adopted_closures)
            cands[f.path] = f
    if not cands:
        return
    used_elsewhere = set()
    for _ in range(MAX_DEPTH):
        changed = False
        for f in list(db.fns.values()):
            if f.crate not in WORKSPACE:
                continue
            bi = 0
            while bi < len(f.raw['blocks']):
                t = f.raw['blocks'][bi]['term']
                if t['k'] == 'call':
                    c = t.get('resolved') if t.get('resolved') in cands else (t.get('callee') if t.get('callee') in cands else None)
                    if c and c != f.path and len(f.raw['blocks']) + len(cands[c].raw['blocks']) < 2000:
                        inline_call(f.raw, bi, cands[c].raw)
                        db.inlined.setdefault(f.path, []).append(c)
                        own = [g.path for g in db.fns.values() if g.kind == 'Closure' and g.parent == c] + list(db.adopted_closures.get(c, ()))
                        if own:
                            db.adopted_closures.setdefault(f.path, [])
                            db.adopted_closures[f.path] += [x for x in own if x not in db.adopted_closures[f.path]]
                        changed = True
                bi += 1
            if f.path in db.inlined:
                thread_jumps(f.raw)
                f.blocks, f.locals = f.raw['blocks'], f.raw['locals']
                f._succ = f._pred = f._dom = f._pdom = f._defs = f._loops = None
        if not changed:
            break
    # drop helpers that are no longer called from anywhere (private or crate-visible)
    still = set()
    for f in db.fns.values():
        for blk in f.raw['blocks']:
            t = blk['term']
            if t['k'] == 'call':
                for k in ('resolved', 'callee'):
                    if t.get(k) in cands:
                        still.add(t[k])
            for st in blk['stmts']:
                txt = json.dumps(st) if 'fn' in json.dumps(st) else ''
                for c in cands:
                    if txt and c in txt:
                        still.add(c)
    for c, f in cands.items():
        if c not in still and f.raw.get('vis') != 'Public' and any(c in v for v in db.inlined.values()):
            db.fns.pop(c, None)
            lst = db.by_short.get(f.short, [])
            if f in lst:
                lst.remove(f)


# ---- jump threading after inlining -------------------------------------------------------------------------------------------------
# A helper that returns a flag (`fn prepare(..) -> bool`) turns the caller's control flow into: several helper paths each setting the flag
# to a constant, a merge, then a switch on the flag.  Dominance-based rules then no longer see that "the kernel call is only reached through
# the path that resized the buffer".  After inlining, paths on which the switched value is a known constant are threaded directly to the
# corresponding switch target (the small merge/plumbing blocks are cloned per predecessor), which restores the pre-extraction CFG shape.

def _succs(t):
    k = t['k']
    if k == 'goto':
        return [t['target']]
    if k == 'switch':
        return [a[1] for a in t['arms']] + [t['otherwise']]
    if k in ('drop', 'assert', 'call'):
        return [t['target']] if t.get('target') is not None else []
    return []


def _const_of(op, st):
    if 'k' in op and isinstance(op['k'], dict):
        k = op['k']
        if k.get('ty') == 'bool' and k.get('text') in ('true', 'false'):
            return k['text'] == 'true'
        if 'bits' in k and str(k['bits']).lstrip('-').isdigit() and k.get('ty') in ('u8', 'u16', 'u32', 'u64', 'usize', 'i8', 'i16', 'i32', 'i64', 'isize'):
            return int(k['bits'])
        if isinstance(k.get('val'), (int, bool)):
            return k['val']
        txt = k.get('text')
        if isinstance(txt, str):
            if txt in ('true', 'false'):
                return txt == 'true'
            mm = txt.split('_')[0]
            if mm.lstrip('-').isdigit():
                return int(mm)
        return None
    pl = op.get('c') or op.get('m')
    if pl and not pl['pr']:
        return st.get(pl['l'])
    return None


VARIANT_DISCR = {'None': 0, 'Some': 1, 'Ok': 0, 'Err': 1, 'Continue': 0, 'Break': 1}
# pure adaptors through which the variant of an Option / Result is known statically
ADAPT = {'core::option::Option::ok_or_else': {'Some': 'Ok', 'None': 'Err'}, 'core::option::Option::ok_or': {'Some': 'Ok', 'None': 'Err'},
         'core::ops::try_trait::Try::branch': {'Ok': 'Continue', 'Err': 'Break', 'Some': 'Continue', 'None': 'Break'},
         'core::result::Result::ok': {'Ok': 'Some', 'Err': 'None'}, 'core::result::Result::map_err': {'Ok': 'Ok', 'Err': 'Err'},
         'core::option::Option::map': {'Some': 'Some', 'None': 'None'}, 'core::result::Result::map': {'Ok': 'Ok', 'Err': 'Err'}}


def _short_callee(t):
    c = t.get('callee') or ''
    import re
    return re.sub(r'::<[^<>]*(<[^<>]*>[^<>]*)*>', '', c)


def _transfer(st, stmts):
    st = dict(st)
    for s in stmts:
        if s['k'] != 'assign':
            continue
        p = s['p']
        if p['pr']:
            if p['pr'][0] != '*':
                st.pop(p['l'], None)
            continue
        rv = s['rv']
        v = None
        if rv['k'] == 'use':
            v = _const_of(rv['a'], st)
        elif rv['k'] == 'un' and rv.get('op') == 'Not':
            a = _const_of(rv['a'], st)
            v = (not a) if isinstance(a, bool) else None
        elif rv['k'] == 'bin' and rv.get('op') in ('Eq', 'Ne'):
            a, b = _const_of(rv['a'], st), _const_of(rv['b'], st)
            if a is not None and b is not None and not isinstance(a, tuple) and not isinstance(b, tuple):
                v = (a == b) if rv['op'] == 'Eq' else (a != b)
        elif rv['k'] == 'agg' and rv.get('ak') == 'adt' and rv.get('variant') in VARIANT_DISCR and \
                str(rv.get('adt', '')).endswith(('option::Option', 'result::Result', 'ops::control_flow::ControlFlow')):
            v = ('variant', rv['variant'])
        elif rv['k'] == 'discr':
            pl = rv['p']
            a = st.get(pl['l']) if not pl['pr'] else None
            if isinstance(a, tuple) and a[0] == 'variant':
                v = VARIANT_DISCR[a[1]]
        if v is None:
            st.pop(p['l'], None)
        else:
            st[p['l']] = v
    return st


def _transfer_term(st, t):
    """Effect of a block terminator on the constant state (calls kill their destination, known adaptors map variants)."""
    if t['k'] == 'call' and not t['dest']['pr']:
        st = dict(st)
        tab = ADAPT.get(_short_callee(t))
        v = None
        if tab and t['args']:
            a = _const_of(t['args'][0], st)
            if isinstance(a, tuple) and a[0] == 'variant' and a[1] in tab:
                v = ('variant', tab[a[1]])
        if v is None:
            st.pop(t['dest']['l'], None)
        else:
            st[t['dest']['l']] = v
    return st


def thread_jumps(raw, max_chain=6, rounds=6):
    blocks = raw['blocks']
    for _ in range(rounds):
        n = len(blocks)
        preds = {i: [] for i in range(n)}
        for i, b in enumerate(blocks):
            for s in _succs(b['term']):
                if s is not None and s < n:
                    preds[s].append(i)
        # forward constant propagation (exit states)
        out = {}
        work = [0]
        seen_in = {0: {}}
        it = 0
        while work and it < 20000:
            it += 1
            b = work.pop()
            so = _transfer_term(_transfer(seen_in[b], blocks[b]['stmts']), blocks[b]['term'])
            out[b] = so
            for s in _succs(blocks[b]['term']):
                if s is None or s >= n or blocks[s]['cleanup']:
                    continue
                if s not in seen_in:
                    seen_in[s] = dict(so)
                    work.append(s)
                else:
                    merged = {k: v for k, v in seen_in[s].items() if so.get(k, '__none__') == v}
                    if merged != seen_in[s]:
                        seen_in[s] = merged
                        work.append(s)
        changed = False
        for M in range(n):
            if blocks[M]['cleanup']:
                continue
            ps = [p for p in preds[M] if not blocks[p]['cleanup']]
            if len(ps) < 2:
                continue
            # forward linear chain M -> ... -> S: assignment-only blocks linked by gotos or by calls to known pure adaptors, ending in a switch
            chain = [M]
            S = None
            while len(chain) <= max_chain:
                cur = chain[-1]
                t = blocks[cur]['term']
                if not all(s_['k'] == 'assign' for s_ in blocks[cur]['stmts']):
                    break
                if t['k'] == 'switch':
                    S = cur
                    break
                nxt = None
                if t['k'] == 'goto':
                    nxt = t['target']
                elif t['k'] == 'call' and _short_callee(t) in ADAPT and t.get('target') is not None:
                    nxt = t['target']
                if nxt is None or nxt in chain or nxt >= n or blocks[nxt]['cleanup'] or len([p for p in preds[nxt] if not blocks[p]['cleanup']]) != 1:
                    break
                chain.append(nxt)
            if S is None:
                continue
            t = blocks[S]['term']
            pl = t['discr'].get('c') or t['discr'].get('m')
            if not pl or pl['pr']:
                continue
            for P in ps:
                if P in chain:
                    continue
                pt = blocks[P]['term']
                if pt['k'] not in ('goto', 'drop') or pt.get('target') != M or P not in out:
                    continue
                st = dict(out[P])
                for c in chain:
                    st = _transfer(st, blocks[c]['stmts'])
                    if c != S:
                        st = _transfer_term(st, blocks[c]['term'])
                v = st.get(pl['l'])
                if v is None or isinstance(v, tuple):
                    continue
                iv = int(v)
                tgt = None
                for val, tg in t['arms']:
                    if int(val) == iv:
                        tgt = tg
                if tgt is None:
                    tgt = t['otherwise']
                first = len(blocks)
                for ci, c in enumerate(chain):
                    nxt_clone = (len(blocks) + 1) if ci + 1 < len(chain) else tgt
                    ct = blocks[c]['term']
                    if c != S and ct['k'] == 'call':
                        nt = copy.deepcopy(ct)
                        nt['target'] = nxt_clone
                    else:
                        nt = {'k': 'goto', 'target': nxt_clone, 'span': ct.get('span')}
                    blocks.append({'cleanup': False, 'stmts': copy.deepcopy(blocks[c]['stmts']), 'threaded_from': c, 'term': nt})
                pt['target'] = first
                changed = True
        if not changed:
            break
    # blank out blocks that became unreachable
    n = len(blocks)
    reach, work = set(), [0]
    while work:
        b = work.pop()
        if b in reach:
            continue
        reach.add(b)
        t = blocks[b]['term']
        for s in _succs(t) + ([t['unwind']] if isinstance(t.get('unwind'), int) else []):
            if s is not None and s < n:
                work.append(s)
    for i in range(n):
        if i not in reach:
            blocks[i] = {'cleanup': True, 'stmts': [], 'term': {'k': 'unreachable', 'span': blocks[i]['term'].get('span')}, 'dead': True}
