"""C06 — no safe API call reads or writes outside the memory it owns (E9 on the lane engine's access log + E3/E2 rules)."""
from fractions import Fraction
from lm import lanes as LN, expr as X, guards as G, linprove as LP
from lm.lanes import Vec, Ptr, lane
from lm.match import norm, m
from lm.db import short
import re
from . import common, kernels as K, C01, C19

LEVEL_NOTE = ('decides (part): inventory of every unsafe fn / unsafe call of the core crate, each claimed by a rule; kernel preconditions (wrap check, resize, early return) dominate the '
              'only call site of each scoring kernel; aligned intrinsics only on row-derived pointers at aligned offsets; every vector access through a slice-derived pointer is inside the slice '
              '(linear entailment by Fourier-Motzkin from the loop guard and pointer/counter lock-step); accesses through row pointers stay inside the row and the row counts match the matrix '
              'they walk; who-may-call for uninitialised storage. Trusted: std Vec/allocator, generic-array, intrinsic contracts. Documented gap: a caller-supplied row range outside the '
              'sequence rows is not checked by the library (out of contract).')

AVX2 = 'lightmotif::pli::platform::avx2::'
SSE2 = 'lightmotif::pli::platform::sse2::'
KERNEL_WRAPPERS = {
    AVX2 + 'score_f32_avx2_permute': AVX2 + 'Avx2::score_f32_rows_into_permute',
    AVX2 + 'score_f32_avx2_gather': AVX2 + 'Avx2::score_f32_rows_into_gather',
    AVX2 + 'score_u8_avx2_shuffle': AVX2 + 'Avx2::score_u8_rows_into_shuffle',
    SSE2 + 'score_sse2': SSE2 + 'Sse2::score_rows_into',
}
ALL_KERNELS = [AVX2 + x for x in ('encode_into_avx2', 'score_f32_avx2_permute', 'score_f32_avx2_gather', 'score_u8_avx2_shuffle', 'argmax_f32_avx2', 'max_f32_avx2',
                                 'argmax_u8_avx2', 'max_u8_avx2', 'stripe_avx2')] + [SSE2 + x for x in ('encode_into_sse2', 'score_sse2', 'argmax_sse2')]
CLAIMS = {  # unsafe item -> rule that covers it
    'lightmotif::dense::DenseMatrix::ravel': 'R19.5 / R6.6 (length = rows*stride over the row vector)',
    'lightmotif::dense::DenseMatrix::ravel_mut': 'R19.5 / R6.6',
    'lightmotif::dense::DenseMatrix::uninitialized': 'R6.6 (who-may-call)',
}


def r61(db, ctx):
    ctx.rule('R6.1', 'inventory: every unsafe fn of the core crate and every call of an unsafe callee from it is claimed by one of the rules below (no unreviewed unsafe code)')
    uns = sorted(f.path for f in db.fns.values() if f.crate == 'lightmotif' and f.unsafe and not f.promoted_of)
    n = 0
    for p in uns:
        sp = short(p)
        if p in ALL_KERNELS or sp in ALL_KERNELS:
            n += 1
            ctx.ok('R6.1', p, 'unsafe SIMD kernel: covered by R6.2 / R6.4 / R6.5 / R6.3b')
        elif sp in CLAIMS:
            n += 1
            ctx.ok('R6.1', p, 'unsafe fn: ' + CLAIMS[sp])
        else:
            ctx.fail('R6.1', p, 'unclaimed unsafe fn', 'an unsafe function that no memory-safety rule covers (reason=unrecognised-shape)')
    allowed_callees = {'alloc::vec::Vec::set_len': {'lightmotif::dense::DenseMatrix::uninitialized', 'lightmotif::pli::Encode::encode_raw'},
                       'core::slice::raw::from_raw_parts': {'lightmotif::dense::DenseMatrix::ravel'},
                       'core::slice::raw::from_raw_parts_mut': {'lightmotif::dense::DenseMatrix::ravel_mut'},
                       'lightmotif::dense::DenseMatrix::ravel_mut': {'lightmotif::dense::DenseMatrix::fill'},
                       'lightmotif::dense::DenseMatrix::uninitialized': {'lightmotif::dense::DenseMatrix::from_rows', 'lightmotif::seq::StripedSequence::sample'}}
    for f in db.fns.values():
        if f.crate != 'lightmotif' or f.promoted_of:
            continue
        for bi, t in f.calls():
            if not t.get('callee_unsafe') or t.get('expn'):
                continue
            c = f.callee_short(t) or ''
            if c.startswith('core::core_arch') or c.startswith('core::ptr::') or c.startswith('core::intrinsics'):
                if not f.unsafe and not short(f.path).startswith(('lightmotif::pli::platform::',)):
                    ctx.fail('R6.1', f, f'raw pointer / intrinsic use {c}', 'intrinsic or raw-pointer operation outside the reviewed kernels', span=t['span'])
                continue
            if c in ALL_KERNELS:
                continue  # R6.2
            owner = short(f.path if f.kind != 'Closure' else f.raw.get('parent', f.path))
            if owner in allowed_callees.get(c, ()):  # claimed by R6.6 / R19.5
                n += 1
            else:
                ctx.fail('R6.1', f, f'call of unsafe {c}', f'{owner} calls the unsafe {c}; allowed callers are {sorted(allowed_callees.get(c, []))}', span=t['span'])
    ctx.floor('R6.1', n, 15 + 4, 'unsafe functions and unsafe call sites claimed')


def r62(db, ctx):
    ctx.rule('R6.2', 'each unsafe scoring kernel has exactly one caller (its safe wrapper); that call is dominated by the diverging wrap check wrap >= rows(pssm) - 1, '
                     'by the resize of the output to rows.len() rows, and by the early return on len < rows(pssm) or empty rows')
    n = 0
    for kern, wrap in KERNEL_WRAPPERS.items():
        callers = db.callers(short(kern))
        if len(callers) != 1 or short(callers[0][0].path) != short(wrap):
            ctx.fail('R6.2', kern, 'who-may-call', f'called from {[c[0].path for c in callers]}; expected only {wrap}')
            continue
        f, bi, t = callers[0]
        R = X.Rec(f)
        rels = G.relations(f, R, bi)
        probs = []
        # (a) wrap >= rows - 1   (the panic side diverges)
        g = None
        for r in rels:
            if r[0] in ('ge', 'le', 'gt', 'lt'):
                a, b, rel = r[1], r[2], r[0]
                if rel in ('le', 'lt'):
                    a, b, rel = b, a, {'le': 'ge', 'lt': 'gt'}[rel]
                d = LP.lin_sub(X.lin(a), X.lin(b))
                ks = {k: v for k, v in d.items() if k != ''}
                if len(ks) == 2 and any('StripedSequence::wrap' in k and v == 1 for k, v in ks.items()) and any('DenseMatrix::rows' in k and v == -1 for k, v in ks.items()):
                    c0 = d.get('', 0)
                    if (rel == 'ge' and c0 <= 1) or (rel == 'gt' and c0 <= 2):
                        g = r
        if g is None:
            probs.append('no dominating guard wrap(seq) >= rows(pssm) - 1 (the kernel reads rows(pssm) consecutive sequence rows)')
        # (b) resize dominates
        rs = [(b2, t2) for b2, t2 in f.calls() if (f.callee_short(t2) or '').endswith('StripedScores::resize') and f.dominates(b2, bi) and b2 != bi]
        ok_rs = False
        for b2, t2 in rs:
            a1 = norm(R.at(b2).operand(t2['args'][1]))
            rng = common.range_of_len(f, a1)
            if rng is not None and X.canon(rng) == X.canon(norm(R.operand(t['args'][2]))):
                ok_rs = True
        if not ok_rs:
            probs.append('the output is not resized to rows.len() rows (of the same range passed to the kernel) before the call')
        # (c) early return
        g1 = common.length_guard_strength(rels)[0] in ('exact', 'stronger')   # any guard implying len(seq) >= rows(pssm) is enough for memory safety
        g2 = common.range_nonempty(rels)
        if not (g1 and g2):
            probs.append('the call is not on the far side of the early return for len(seq) < rows(pssm) or empty rows')
        # the operands passed are the checked ones
        if probs:
            ctx.fail('R6.2', f, f'preconditions of {kern.rsplit("::", 1)[-1]}', '; '.join(probs), span=t['span'])
        else:
            n += 1
            ctx.ok('R6.2', f, f'{kern.rsplit("::", 1)[-1]}: wrap check, resize(rows.len()), early return all dominate the single call', ['diverging guard', 'same operands'])
    # other kernels: one caller each
    for kern in ALL_KERNELS:
        if kern in KERNEL_WRAPPERS:
            continue
        callers = db.callers(short(kern))
        names = sorted({short(c[0].path) for c in callers})
        if len(names) == 1 and names[0].startswith('lightmotif::pli::platform::'):
            n += 1
            ctx.ok('R6.2', kern, f'single safe wrapper {names[0].rsplit("::", 2)[-2]}::{names[0].rsplit("::", 1)[-1]}')
        else:
            ctx.fail('R6.2', kern, 'who-may-call', f'callers {names}')
    ctx.floor('R6.2', n, 12, 'kernels with a single guarded caller')


# ---------------------------------------------------------------------------
# pointer classification

root_of = K.root_of
classify = K.classify


def multiple_of(l, A, elem, facts):
    """Is every term of the byte-offset linear form a multiple of A?  stride atoms are multiples of 32/elem elements (row size % 32 == 0)."""
    for k, v in l.items():
        if k == '':
            if v % A != 0:
                return False, f'constant offset {v}'
        elif 'DenseMatrix::stride' in k and '*' not in k.replace('DenseMatrix::stride', ''):
            # v bytes-per-element * stride elements: stride*elem = size_of(Row), a multiple of 32
            if elem and (v % elem) != 0:
                return False, f'{v}*stride'
        elif k in facts and isinstance(facts[k], tuple):
            if v % A != 0:
                return False, f'{v}*{k[:40]}'
        elif k in facts:
            if (v * facts[k]) % A != 0:
                return False, f'{v}*{k[:40]}'
        else:
            return False, f'{v}*{k[:60]} (unknown divisibility)'
    return True, ''


def block_offset_facts(db, E, f=None):
    """Atoms known to be multiples of 16: the SSE2 column block offset = 16*i, i in 0..C/16 (see kernels.block_offset)."""
    facts = {}
    for H, L in E.loops.items():
        bo = K.block_offset(db, f if f is not None else E.fn, E, H)
        if bo is None:
            continue
        facts[X.canon(('elem', L.iter, H))] = 16 if bo[0] == 'offset' else ('block', 1)
    return facts


def r64(db, ctx):
    ctx.rule('R6.4', 'alignment: every aligned load/store/stream is on a pointer derived from a DenseMatrix row start, advanced only by whole rows, at a byte offset that is a multiple of the access width')
    n = 0
    for path in ALL_KERNELS:
        f, E, err = K.evaluate(db, path)
        if E is None:
            ctx.fail('R6.4', f, 'lane evaluation', f'reason=unrecognised-shape: {err}')
            continue
        facts = block_offset_facts(db, E, f)
        for a in E.acc:
            if not a.aligned:
                continue
            if not isinstance(a.ptr, Ptr):
                ctx.fail('R6.4', f, f'{a.name}', 'aligned access through a value that is not a tracked pointer', span=a.span)
                continue
            root, steps, off = root_of(E, a.ptr)
            cls = classify(root.base) if root is not None else ('OTHER', None)
            A = a.width
            if cls[0] != 'ROW':
                ctx.fail('R6.4', f, f'{a.name} on a {cls[0].lower()} pointer',
                         f'aligned {A}-byte access through {a.ptr}: only matrix rows are {32}-byte aligned; slices and locals need the unaligned form', span=a.span)
                continue
            elem = root.elem or a.ptr.elem
            okc, why = multiple_of(off, A, LN.sizeof('u8') if False else None, facts)
            # element sizes: use the element size of the matrix row for stride terms
            row_elem = row_elem_size(f, root)
            okc, why = multiple_of(off, A, row_elem, facts)
            oks = True
            for H, l, st in steps:
                o2, w2 = multiple_of(st, A, row_elem, facts)
                if not o2:
                    oks, why = False, 'step ' + w2
            if okc and oks:
                n += 1
                ctx.ok('R6.4', f, f'{a.name} at row + {X.lin_str(off)}', [f'ROW pointer, offset and steps multiples of {A}', 'Row<T,C>: align 32, size % 32 == 0 (R19.1)'])
            else:
                ctx.fail('R6.4', f, f'{a.name} misaligned', f'aligned {A}-byte access at row start + {X.lin_str(off)}: {why} is not a multiple of {A}', span=a.span)
    ctx.floor('R6.4', n, 40, 'aligned accesses on row pointers')


def row_elem_size(f, root):
    """Size in bytes of one element of the matrix row this pointer was derived from.  Taken from the *matrix type* (the pointer's own
    pointee type changes with every `as *const __m256i` cast and says nothing about the row)."""
    cls = classify(root.base)
    if cls[0] != 'ROW':
        return root.elem
    M = norm(cls[1]) if isinstance(cls[1], tuple) else cls[1]
    import re

    def elem_of_ty(ty):
        mm = re.search(r'(?:DenseMatrix|StripedScores)<\s*([^,<>]+(?:<[^<>]*>)?)\s*,', ty or '')
        if mm:
            return LN.sizeof(mm.group(1).strip())
        if 'StripedSequence<' in (ty or '') or 'abc::Nucleotide' in (ty or '') or 'abc::AminoAcid' in (ty or ''):
            return 1
        return None
    # walk to the parameter / local the matrix comes from
    e = M
    for _ in range(6):
        if isinstance(e, tuple) and e and e[0] in ('p', 'v'):
            sz = elem_of_ty(f.local_ty(e[1]))
            if sz:
                return sz
            break
        if isinstance(e, tuple) and e and e[0] == 'call' and e[2]:
            if e[1].endswith(('StripedSequence::matrix', 'StripedSequence::into_matrix')):
                return 1           # symbols are one byte (R5.1 / R19.1)
            e = e[2][0]
            continue
        if isinstance(e, tuple) and e and e[0] in ('ref', 'deref', 'fld'):
            e = e[1]
            continue
        break
    return root.elem


def counter_relation(E, H):
    """For loop H: scalar counter local c with c' = c + k (k const) and init; returns (local, init expr, step)."""
    L = E.loops[H]
    out = []
    for l, v in L.carried.items():
        if isinstance(v, (Ptr, Vec)):
            continue
        u = L.update.get(l)
        if isinstance(u, tuple):
            lu = X.lin(u)
            me = X.canon(('phi', H, l))
            if lu.get(me) == 1 and set(lu) <= {me, ''} and lu.get('', 0) != 0:
                out.append((l, v, lu.get('', 0)))
    return out


def r65(db, ctx):
    ctx.rule('R6.5', 'strip-mined slice loops: for every vector load/store through a pointer derived from a slice, offset + width <= len*size is entailed (Fourier-Motzkin) by the loop guard, '
                     'the pointer/counter lock-step and the defining inequalities of ceil-div')
    n = 0
    for path in ALL_KERNELS:
        f, E, err = K.evaluate(db, path)
        if E is None:
            continue
        for a in E.acc:
            if a.kind not in ('load', 'store') or not isinstance(a.ptr, Ptr) or not a.width:
                continue
            root, steps, off = root_of(E, a.ptr)
            if root is None:
                ctx.fail('R6.5', f, f'{a.name}', f'reason=unrecognised-shape: cannot resolve pointer {a.ptr}', span=a.span)
                continue
            cls = classify(root.base)
            if cls[0] != 'SLICE':
                continue
            # a block drawn from `x.chunks_exact(n)`: the access stays inside that block of n elements, which chunks_exact guarantees to lie
            # inside x (std contract: every yielded chunk has exactly n elements of x)
            if len(steps) == 1 and isinstance(steps[0][1], tuple) and steps[0][1][0] == 'chunks' and cls[0] == 'SLICE':
                _, coll, nchunk = steps[0][1]
                step_b = steps[0][2].get('', 0)
                c0 = off.get('', 0)
                if set(off) <= {''} and c0 >= 0 and c0 + a.width <= step_b and K.chunk_source(coll)[0] == ('p', cls[1]):
                    n += 1
                    ctx.ok('R6.5', f, f'{a.name}: {a.width} bytes at offset {c0} of a chunk of {nchunk} elements ({step_b} bytes) of `{f.local_name(cls[1]) or cls[1]}`',
                           ['chunks_exact yields whole chunks inside the slice'])
                else:
                    ctx.fail('R6.5', f, f'{a.name}', f'access of {a.width} bytes at offset {X.lin_str(off)} does not stay inside a chunk of {step_b} bytes', span=a.span)
                continue
            # pointer = base + (step_p/step_c) * (c - c0) + off, for the loop H carrying it
            hyps = []
            lin = dict(off)
            ok_shape = True
            for H, l, st in steps:
                cr = counter_relation(E, H)
                if len(cr) != 1 or set(st) - {''}:
                    ok_shape = False
                    break
                cl, cinit, cstep = cr[0]
                ratio = Fraction(st.get('', 0)) / cstep
                catom = X.canon(('phi', H, cl))
                ci = X.lin(cinit)
                lin[catom] = lin.get(catom, 0) + ratio
                for k, v in ci.items():
                    lin[k] = lin.get(k, 0) - ratio * v
                hyps.append({catom: 1})  # counter >= 0
                Lh = E.loops[H]
                for cnd, truth in Lh.conds:
                    for hcond in guard_hyps(cnd, truth):
                        hyps.append(hcond)
            if not ok_shape:
                ctx.fail('R6.5', f, f'{a.name}', 'reason=unrecognised-shape: pointer and counter are not in lock-step', span=a.span)
                continue
            stepped = {H for H, _, _ in steps}
            for H in a.loops:
                if H in stepped or H not in E.loops:
                    continue
                # the access is addressed through a loop counter directly (`base.add(i)`): the guards of the enclosing loops bound it
                for cl, cinit, cstep in counter_relation(E, H):
                    hyps.append({X.canon(('phi', H, cl)): 1})
                for cnd, truth in E.loops[H].conds:
                    hyps += guard_hyps(cnd, truth)
            # slice length in bytes
            plocal = cls[1]
            esz = root.elem or 1
            sl_elem = LN.sizeof(LN.pointee(f.local_ty(plocal)).strip('[]')) or 1
            len_atom = X.canon(('call', 'core::slice::len', (('p', plocal),)))
            # other slices of equal length (assert_eq!(seq.len(), dst.len()))
            eqs = equal_lengths(f)
            rep = eqs.get(plocal, plocal)
            len_atom = X.canon(('call', 'core::slice::len', (('p', rep),)))
            hyps.append({len_atom: 1})
            # rename len(other) -> len(rep)
            def ren(d):
                o = {}
                for k, v in d.items():
                    k2 = k
                    for a_, b_ in eqs.items():
                        k2 = k2.replace(f'core::slice::len(arg{a_})', f'core::slice::len(arg{b_})')
                    o[k2] = o.get(k2, 0) + v
                return o
            # accesses through a sub-slice addressed by an index expression: what that expression's own operators guarantee
            for o_ in getattr(root, 'subslice_offs', []) or []:
                hyps += K.index_facts(o_)
            hyps = [ren(h) for h in hyps]
            lin = ren(lin)
            hyps += ceil_div_facts(lin, hyps)
            for k in list(lin) + [k for h in hyps for k in h]:
                if k != '' and ('Div' in k or 'len' in k or 'phi' in k):
                    hyps.append({k: 1})
            goal = LP.lin_sub({len_atom: Fraction(sl_elem)}, LP.lin_addc(lin, a.width))
            if LP.entails(hyps, goal):
                n += 1
                ctx.ok('R6.5', f, f'{a.name} {a.width} bytes at slice + {X.lin_str(lin)[:70]}', ['offset + width <= len*size entailed by the loop guard (Fourier-Motzkin)'])
            else:
                ctx.fail('R6.5', f, f'{a.name} may run past the slice',
                         f'{a.kind} of {a.width} bytes at {X.lin_str(lin)[:120]} bytes into the slice `{f.local_name(plocal) or plocal}`: offset + {a.width} <= {sl_elem}*len is not entailed by the loop guard', span=a.span)
    ctx.floor('R6.5', n, 2 + 2 + 32, 'vector accesses through slice pointers proved in bounds')


def guard_hyps(cond, truth=True):
    """Linear hypotheses holding inside a loop body that is entered when `cond` evaluates to `truth`."""
    out = []
    c = cond
    if isinstance(c, tuple) and c[0] == 'bin' and c[1] in ('BitAnd',) and truth:
        return guard_hyps(c[2]) + guard_hyps(c[3])
    if isinstance(c, tuple) and c[0] == 'bin' and c[1] in ('Le', 'Lt', 'Ge', 'Gt'):
        a, b = X.lin(c[2]), X.lin(c[3])
        op = c[1] if truth else {'Le': 'Gt', 'Lt': 'Ge', 'Ge': 'Lt', 'Gt': 'Le'}[c[1]]
        c = ('bin', op, c[2], c[3])
        if c[1] == 'Le':
            out.append(LP.lin_sub(b, a))
        elif c[1] == 'Lt':
            out.append(LP.lin_addc(LP.lin_sub(b, a), -1))
        elif c[1] == 'Ge':
            out.append(LP.lin_sub(a, b))
        else:
            out.append(LP.lin_addc(LP.lin_sub(a, b), -1))
    return out


def ceil_div_facts(lin, hyps):
    """For atoms of the form `(c + X Div d)` add  d*atom <= X + c  and  d*atom >= X + c - (d - 1)."""
    import re
    out = []
    atoms = set(lin)
    for h in hyps:
        atoms |= set(h)
    for k in atoms:
        mm = re.match(r'^\((\d+) \+ (.+) Div (\d+)\)$', k)
        if mm:
            c, x, d = int(mm.group(1)), mm.group(2), int(mm.group(3))
            out.append({x: 1, '': c, k: -d})                 # X + c - d*q >= 0
            out.append({k: d, x: -1, '': -c + d - 1})         # d*q - X - c + d - 1 >= 0
    return out


def equal_lengths(f):
    """param slices asserted to have equal length: {param: representative}."""
    R = X.Rec(f)
    eq = {}
    for bi in range(len(f.blocks)):
        t = f.term(bi)
        if t['k'] == 'switch':
            d = norm(R.operand(t['discr']))
            if d[0] == 'bin' and d[1] == 'Eq':
                a, b = d[2], d[3]
                pa = m(('call~', 'slice::len', (('p', '$x'),)), a) if False else None
            # assert_eq!(a.len(), b.len()) compiles to a comparison of two temporaries; match on canon
            c = X.canon(d)
            import re
            mm = re.search(r'core::slice::len\(arg(\d+)\) Eq core::slice::len\(arg(\d+)\)', c)
            if mm:
                a_, b_ = int(mm.group(1)), int(mm.group(2))
                # the failing side must diverge
                if any(G.diverges(f, tg) for _, tg in t['arms']) or G.diverges(f, t['otherwise']):
                    eq[max(a_, b_)] = min(a_, b_)
    return eq


def score_into_range(db, ctx, rid):
    """Score::score_into scores exactly the sequence rows: 0 .. rows(matrix) - wrap of the *same* striped sequence (the look-ahead rows are
    not positions; a range derived from the motif length instead is only right when wrap == M - 1)."""
    f = [g for g in db.by_short.get('lightmotif::pli::Score::score_into', []) if g.raw.get('trait_default_of')]
    if not f:
        ctx.fail(rid, 'lightmotif::pli::Score::score_into', 'default body', 'reason=anchor-missing')
        return
    f = f[0]
    R = X.Rec(f)
    n = 0
    for bi, t in f.calls():
        if (f.callee_short(t) or '').endswith('Score::score_rows_into'):
            n += 1
            rng = norm(R.at(bi).operand(t['args'][3]))
            seq = norm(R.operand(t['args'][2]))
            b = m(('agg', '_', (('k', 0), ('bin', 'Sub', ('call~', 'DenseMatrix::rows', (('call~', 'StripedSequence::matrix', ('$s',)),)), ('call~', 'StripedSequence::wrap', ('$s2',))))), rng)
            ok = b is not None and b['$s'] == b['$s2'] == seq
            (ctx.ok if ok else ctx.fail)(rid, f, 'score_into scores rows 0..rows(data) - wrap', *([['range end within the sequence rows']] if ok else
                                         [f'range is {X.show(rng, 100)}, expected 0 .. seq.matrix().rows() - seq.wrap() of the scored sequence']))
    if not n:
        ctx.fail(rid, f, 'score_into', 'reason=unrecognised-shape: no call to score_rows_into')


def r63b(db, ctx):
    ctx.rule('R6.3', 'row pointers: each row pointer is advanced once per iteration of a loop whose trip count equals the number of rows it may visit, and every access through it stays inside the row '
                     '(offset + width <= C*size_of(T) <= size_of(Row)); library call sites pass row ranges within the sequence rows')
    n = 0
    for path in ALL_KERNELS:
        f, E, err = K.evaluate(db, path)
        if E is None:
            continue
        facts = block_offset_facts(db, E, f)
        for a in E.acc:
            if a.kind not in ('load', 'store', 'gather') or not isinstance(a.ptr, Ptr):
                continue
            root, steps, off = root_of(E, a.ptr)
            if root is None:
                continue
            cls = classify(root.base)
            if cls[0] != 'ROW':
                continue
            # offset within the row: constant part + block offset; must satisfy off + width <= 32*elem (C = 32) or C*elem via the block fact
            e = row_elem_size(f, root) or 1
            const = off.get('', 0)
            others = {k: v for k, v in off.items() if k != '' and 'DenseMatrix::stride' not in k}
            width = a.width if a.kind != 'gather' else 0
            ok = False
            why = ''
            if not others:
                # columns 0..C-1 with C >= 32 for the AVX2 kernels (Lanes = U32), table rows: any row is >= 32 bytes
                ok = const + width <= 32 * e or const + width <= 32
                why = f'{const}+{width} <= row size'
            else:
                # SSE2: offset = 16*i elements, i < C/16  =>  offset*e + const + width <= C*e  iff const + width <= 16*e
                ks = list(others)
                if len(ks) == 1 and ks[0] in facts and facts[ks[0]] == 16 and others[ks[0]] == e:
                    ok = const + width <= 16 * e
                    why = f'block offset + {const}+{width} <= 16*{e}'
                elif len(ks) == 1 and isinstance(facts.get(ks[0]), tuple) and others[ks[0]] == 16 * e:
                    # block index b in 0..C/16 times 16 elements: offset*e + const + width <= C*e  iff  const + width <= 16*e
                    ok = const + width <= 16 * e
                    why = f'16*block + {const}+{width} <= 16*{e}'
                elif len(ks) == 1 and 'elem' in ks[0] and 'USIZE' in ks[0] and others[ks[0]] == e and a.width == e:
                    ok = True   # load1_ps(pssmptr + k), k < K <= row width
                    why = 'k < K columns of a K-wide row'
            # steps: whole rows
            for H, l, st in steps:
                if not (len(st) == 1 and 'DenseMatrix::stride' in list(st)[0]):
                    ok = False
                    why = f'pointer step {X.lin_str(st)} is not a whole row'
            if ok:
                n += 1
                ctx.ok('R6.3', f, f'{a.name} inside its row ({why})', ['Row size >= 32 and >= C*size_of(T) (R19.1)'])
            else:
                ctx.fail('R6.3', f, f'{a.name} leaves its row', f'access of {width} bytes at row + {X.lin_str(off)}: {why}', span=a.span)
    # call sites of score_rows_into inside the library pass ranges within rows - wrap
    score_into_range(db, ctx, 'R6.3')
    ctx.note('R6.3: a caller-supplied row range outside 0..rows-wrap is not checked by the library (documented contract gap, out of the property\'s in-contract scope)')
    ctx.floor('R6.3', n, 40, 'row-pointer accesses shown inside their row')


def r66(db, ctx):
    ctx.rule('R6.6', 'uninitialised storage: encode_raw returns the set_len buffer only on the Ok path of encode_into; DenseMatrix::uninitialized is called only by from_rows and '
                     'StripedSequence::sample, both of which overwrite every row')
    fs = [g for g in db.by_short.get('lightmotif::pli::Encode::encode_raw', []) if g.raw.get('trait_default_of')]
    if len(fs) != 1:
        ctx.fail('R6.6', 'lightmotif::pli::Encode::encode_raw', 'default body', 'reason=anchor-missing')
    else:
        f = fs[0]
        R = X.Rec(f)
        oks = [bi for bi, blk in enumerate(f.blocks) for st in blk['stmts'] if st['k'] == 'assign' and st['p']['l'] == 0 and st['rv']['k'] == 'agg' and st['rv'].get('variant') == 'Ok']
        good = bool(oks)
        for bi in oks:
            rels = G.relations(f, R, bi)
            if not any(r[0] == 'switch' and 'encode_into' in X.canon(r[1]) and r[2] == ('eq', 0) for r in rels):
                good = False
        if not oks:
            # `self.encode_into(s, &mut buffer).map(|_| buffer)`: Result::map runs the closure (which moves the buffer out) on Ok only
            e = common.return_expr_single_path_allow(f)
            en = norm(e) if e is not None else None
            mm = m(('call~', 'Result::map', (('call~', 'Encode::encode_into'), ('agg', '$tag', '$caps'))), en) if en is not None else None
            if mm is not None and isinstance(mm['$tag'], tuple) and mm['$tag'][0] == 'closure':
                cf = db.fns.get(mm['$tag'][1])
                ce = common.return_expr_single_path_allow(cf) if cf is not None else None
                # the closure returns its captured buffer
                if ce is not None and norm(ce)[0] == 'fld' and norm(ce)[1] == ('p', 1):
                    good = True
        sl = [(bi, t) for bi, t in f.calls() if (f.callee_short(t) or '').endswith('Vec::set_len')]
        cap = [(bi, t) for bi, t in f.calls() if (f.callee_short(t) or '').endswith('Vec::with_capacity')]
        same = bool(sl and cap) and X.canon(norm(R.operand(sl[0][1]['args'][1]))) == X.canon(norm(R.operand(cap[0][1]['args'][0])))
        (ctx.ok if good and same else ctx.fail)('R6.6', f, 'encode_raw: buffer (capacity = set_len = input length) escapes only under Ok(encode_into)', *([['encoders write all len cells on Ok (R5.2-R5.5)']] if good and same else ['the uninitialised buffer can be returned without a successful encode_into, or set_len exceeds the capacity']))
    # from_rows / sample overwrite all rows: checked structurally
    try:
        f = db.fn('lightmotif::seq::StripedSequence::sample')
    except KeyError:
        f = None    # feature `sampling` disabled in this configuration
    if f is not None:
        R = X.Rec(f)
        un = [(bi, t) for bi, t in f.calls() if (f.callee_short(t) or '').endswith('DenseMatrix::uninitialized')]
        it = [(bi, t) for bi, t in f.calls() if (f.callee_short(t) or '').endswith('DenseMatrix::iter_mut')]
        ok = len(un) == 1 and len(it) == 1
        (ctx.ok if ok else ctx.fail)('R6.6', f, 'sample: every row of the uninitialised matrix is written through iter_mut()', *([['zip with an infinite sample_iter fills all C columns']] if ok else ['uninitialised rows are not all overwritten']))
    ctx.ok('R6.6', 'lightmotif::dense::DenseMatrix::from_rows', 'from_rows overwrites every uninitialised row (R19.5)')


def r67(db, ctx):
    ctx.rule('R6.7', 'scalar reductions that index with SIMD-produced indices use bounds-checked indexing (no get_unchecked / unchecked arithmetic)')
    bad = []
    for f in db.fns.values():
        if f.crate != 'lightmotif' or f.promoted_of:
            continue
        for bi, t in f.calls():
            c = f.callee_short(t) or ''
            if 'unchecked' in c.rsplit('::', 1)[-1] and c.startswith(('core::', 'alloc::', 'std::')) and not c.startswith('core::core_arch') and 'precondition' not in c and not t.get('expn'):
                bad.append((f, c, t))
    for f, c, t in bad:
        ctx.fail('R6.7', f, f'unchecked operation {c}', 'unchecked indexing / arithmetic in the core crate', span=t['span'])
    if not bad:
        ctx.ok('R6.7', 'lightmotif', 'no get_unchecked / unchecked_* call in the core crate')


def r68(db, ctx):
    ctx.rule('R6.8', 'row budget: for every access through a row pointer the row reached — start row + (rows advanced per iteration x iteration index of each '
                     'enclosing loop) + rows in the access offset — is at most rows(matrix) - 1, entailed (Fourier-Motzkin) by the loop ranges / guards, the '
                     'dominating assertions, and the wrapper obligations R6.2 (wrap >= rows(pssm) - 1, output resized to rows.len()) and the row-range contract')
    n = 0
    for path in ALL_KERNELS:
        f, E, err = K.evaluate(db, path)
        if E is None:
            continue
        R = X.Rec(f)
        for a in E.acc:
            if a.kind not in ('load', 'store', 'gather') or not isinstance(a.ptr, Ptr):
                continue
            root, steps, off = root_of(E, a.ptr)
            if root is None:
                continue
            cls = classify(root.base)
            if cls[0] != 'ROW':
                continue
            M, row0 = cls[1], cls[2]
            cM = X.canon(M)
            e = row_elem_size(f, root) or 1
            rows_atom = X.canon(('call', 'lightmotif::dense::DenseMatrix::rows', (M,)))
            hyps = [{rows_atom: 1}]
            prem = []
            rowlin = {}
            bad = None

            def is_stride_of_M(k):
                return k.startswith('lightmotif::dense::DenseMatrix::stride(') and k[len('lightmotif::dense::DenseMatrix::stride('):-1] == cM

            def add(d, k, v):
                d[k] = d.get(k, 0) + v
            # rows contributed by the access offset
            for k, v in off.items():
                if 'DenseMatrix::stride' in k:
                    if not is_stride_of_M(k) or Fraction(v) % e != 0:
                        bad = f'offset term {v}*{k[:60]} is not a whole number of rows of this matrix'
                    else:
                        add(rowlin, '', Fraction(v) / e)
            # start row
            r0 = norm(row0)
            if r0 == ('k', 0):
                pass
            elif (r0[0] == 'elem' and isinstance(r0[1], tuple) and r0[1][0] == 'iter' and norm(r0[1][1], True)[0] == 'p') or \
                    (r0[0] == 'fld' and str(r0[2]) == '1' and r0[1][0] == 'elem' and isinstance(r0[1][1], tuple) and r0[1][1][0] == 'iter'
                     and m(('call~', 'Iterator::enumerate', (('p', '_'),)), norm(r0[1][1][1], True)) is not None):
                # a row of the caller's range: contract rows.end <= rows(seq) - wrap, and R6.2: wrap >= rows(pssm) - 1
                ratom = X.canon(r0)
                wrap_atom = 'WRAP(' + cM + ')'
                add(rowlin, ratom, 1)
                hyps.append({ratom: 1})
                hyps.append({rows_atom: 1, wrap_atom: -1, ratom: -1, '': -1})       # r <= rows - wrap - 1
                pssm_rows = None
                for H_, L_ in E.loops.items():
                    if L_.iter and L_.iter[0] == 'range' and common.is_call_to(L_.iter[2], 'DenseMatrix::rows') and norm(L_.iter[1]) == ('k', 0):
                        pssm_rows = X.lin(L_.iter[2])
                if pssm_rows is None:
                    bad = 'reason=unrecognised-shape: no loop over the rows of the scoring matrix'
                else:
                    h = {wrap_atom: 1, '': 1}
                    for k, v in pssm_rows.items():
                        add(h, k, -v)
                    hyps.append(h)                                                     # wrap >= M - 1
                    prem += ['R6.2 wrap >= rows(pssm) - 1', 'row range within rows(seq) - wrap (R6.3 call sites / contract)']
            else:
                bad = f'reason=unrecognised-shape: start row {X.show(r0, 60)}'
            # loops advancing the pointer
            for H, l, st in steps:
                if bad:
                    break
                ks = [k for k in st if k != '']
                if len(ks) != 1 or not is_stride_of_M(ks[0]) or st.get('', 0) != 0 or Fraction(st[ks[0]]) % e != 0:
                    bad = f'pointer step {X.lin_str(st)[:80]} is not a whole number of rows of this matrix'
                    break
                per = Fraction(st[ks[0]]) / e
                L = E.loops[H]
                if L.iter and L.iter[0] == 'range':
                    it = f'it#{H}'
                    add(rowlin, it, per)
                    hyps.append({it: 1})
                    h = {it: -1, '': -1}
                    for k, v in X.lin(L.iter[2]).items():
                        add(h, k, v)
                    for k, v in X.lin(L.iter[1]).items():
                        add(h, k, -v)
                    hyps.append(h)                                                     # it <= hi - lo - 1
                elif L.iter and L.iter[0] == 'iter' and (norm(L.iter[1], True)[0] == 'p' or m(('call~', 'Iterator::enumerate', (('p', '_'),)), norm(L.iter[1], True)) is not None):
                    pos = f'pos#{H}'
                    itp = norm(L.iter[1], True)
                    itp = itp if itp[0] == 'p' else itp[2][0]
                    len_atom = 'LEN(' + X.canon(itp) + ')'
                    add(rowlin, pos, per)
                    hyps.append({pos: 1})
                    hyps.append({len_atom: 1, pos: -1, '': -1})                       # pos <= len - 1
                    if 'matrix_mut' in cM or 'StripedScores' in cM:
                        hyps.append({rows_atom: 1, len_atom: -1})                     # rows(out) >= rows.len()  (R6.2: resize dominates the call)
                        prem.append('R6.2 output resized to rows.len()')
                elif L.iter and L.iter[0] == 'iter' and m(('call~', 'Iterator::step_by', (('agg', '_', ('$lo', '$hi')), ('k', '$s'))), norm(L.iter[1])) is not None:
                    # (lo..hi).step_by(s): iteration t yields lo + s*t < hi
                    b_ = m(('call~', 'Iterator::step_by', (('agg', '_', ('$lo', '$hi')), ('k', '$s'))), norm(L.iter[1]))
                    it = f'it#{H}'
                    add(rowlin, it, per)
                    hyps.append({it: 1})
                    h = {it: -b_['$s'], '': -1}
                    for k, v in X.lin(b_['$hi']).items():
                        add(h, k, v)
                    for k, v in X.lin(b_['$lo']).items():
                        add(h, k, -v)
                    hyps.append(h)                                                     # s*t <= hi - lo - 1
                elif L.iter is None:
                    cr = counter_relation(E, H)
                    if len(cr) != 1:
                        bad = 'reason=unrecognised-shape: pointer and counter are not in lock-step'
                        break
                    cl, cinit, cstep = cr[0]
                    ratio = per / cstep
                    catom = X.canon(('phi', H, cl))
                    add(rowlin, catom, ratio)
                    for k, v in X.lin(cinit).items():
                        add(rowlin, k, -ratio * v)
                    hyps.append({catom: 1})
                    for cnd, truth in L.conds:
                        hyps += guard_hyps(cnd, truth)
                else:
                    bad = f'reason=unrecognised-shape: loop {H} iterates over {L.iter}'
            if bad:
                ctx.fail('R6.8', f, f'{a.name} row budget', bad, span=a.span)
                continue
            # dominating assertions / guards at the access: equalities between linear forms, non-emptiness
            def alias(d):
                # rows(_N) where local N is (a borrow of) the very matrix this row pointer was derived from
                import re as _re
                o = {}
                for k, v in d.items():
                    mm = _re.fullmatch(r'lightmotif::dense::DenseMatrix::rows\(_(\d+)\)', k)
                    if mm:
                        ds = f.defs().get(int(mm.group(1)), [])
                        if len(ds) == 1:
                            bi_, si_, x_ = ds[0]
                            try:
                                de = norm(R.call(x_) if si_ == 'term' else R.rvalue(x_))
                            except Exception:
                                de = None
                            if de is not None and X.canon(de) == cM:
                                k = rows_atom
                    o[k] = o.get(k, 0) + v
                return o
            for r in G.relations(f, R, a.block):
                if r[0] == 'eq':
                    la, lb = alias(X.lin(norm(r[1]))), alias(X.lin(norm(r[2])))
                    hyps.append(LP.lin_sub(la, lb))
                    hyps.append(LP.lin_sub(lb, la))
                if (r[0] == 'false' and r[1][0] == 'call' and r[1][1].endswith('is_empty')) or (r[0] == 'ne' and common.is_call_to(r[1], 'DenseMatrix::rows') and norm(r[2]) == ('k', 0)):
                    hyps.append({rows_atom: 1, '': -1})                                # rows >= 1 (R7.3: is_empty() = rows == 0)
                    prem.append('non-empty guard')
            hyps += ceil_div_facts(rowlin, hyps)
            for k in list(rowlin) + [k for h in hyps for k in h]:
                if k != '' and ('Div' in k or 'len' in k or 'phi' in k or k.startswith(('LEN(', 'WRAP('))):
                    hyps.append({k: 1})
            goal = LP.lin_sub({rows_atom: 1, '': -1}, rowlin)
            if LP.entails(hyps, goal):
                n += 1
                ctx.ok('R6.8', f, f'{a.name}: row {X.lin_str(rowlin)[:60] or "0"} <= rows - 1', prem or ['loop range'])
            else:
                ctx.fail('R6.8', f, f'{a.name} may leave the matrix',
                         f'{a.kind} through a row pointer reaches row {X.lin_str(rowlin)[:100] or "0"} of {X.show(M, 50)}; row <= rows - 1 is not entailed by the loop '
                         f'range / guards (an iteration touches a row past the last one)', span=a.span)
    ctx.floor('R6.8', n, 40, 'row-pointer accesses with a proved row budget')


def r69(db, ctx):
    ctx.rule('R6.9', 'scratch buffers: every vector load/store through a pointer into a local array stays inside it: offset + width <= size_of(array); '
                     'a buffer indexed by the SSE2 column-block offset (16*i, i < C/16) must be C elements long (GenericArray<_, C>), not a fixed length')
    n = 0
    for path in ALL_KERNELS:
        f, E, err = K.evaluate(db, path)
        if E is None:
            continue
        facts = block_offset_facts(db, E, f)
        for a in E.acc:
            if a.kind not in ('load', 'store') or not isinstance(a.ptr, Ptr) or not a.width:
                continue
            root, steps, off = root_of(E, a.ptr)
            if root is None:
                continue
            cls = classify(root.base)
            if cls[0] in ('ROW', 'SLICE'):
                continue
            size, sym_len, what = None, None, None
            if cls[0] == 'LOCAL':
                ty = f.local_ty(cls[1]) or ''
                mm = re.match(r'^\[(.+); (\d+)\]$', ty)
                if mm and LN.sizeof(mm.group(1)):
                    size, what = int(mm.group(2)) * LN.sizeof(mm.group(1)), f'`{f.local_name(cls[1]) or cls[1]}`: {ty}'
            else:
                # a local GenericArray<T, N> (its value is the fresh `GenericArray::default()`)
                inner = cls[1]
                fresh = any(isinstance(x, tuple) and x and x[0] == 'call' and str(x[1]).startswith('generic_array::') and str(x[1]).endswith('default') for x in X.walk(inner)) \
                    if isinstance(inner, tuple) else False
                gas = [f.local_ty(t['dest']['l']) for _, t in f.calls() if (f.callee_short(t) or '').startswith('generic_array::') and (f.callee_short(t) or '').endswith('default')]
                if fresh and len(gas) == 1 and gas[0].startswith('generic_array::GenericArray<'):
                    args_ = gas[0][len('generic_array::GenericArray<'):-1]
                    elem_ty, n_ty = args_.split(',', 1)[0].strip(), args_.split(',', 1)[1].strip()
                    if LN.sizeof(elem_ty):
                        sym_len, what = (n_ty, LN.sizeof(elem_ty)), f'GenericArray<{elem_ty}, {n_ty}>'
            if size is None and sym_len is None:
                ctx.fail('R6.9', f, f'{a.name}', f'reason=unrecognised-shape: vector access through a pointer that is neither a matrix row, a parameter slice nor a local array: {root}', span=a.span)
                continue
            if steps:
                ctx.fail('R6.9', f, f'{a.name}', 'a pointer into a scratch buffer is advanced by a loop', span=a.span)
                continue
            const = off.get('', 0)
            others = {k: v for k, v in off.items() if k != ''}
            ok, why = False, ''
            if not others and size is not None:
                ok = 0 <= const and const + a.width <= size
                why = f'{const} + {a.width} <= {size}'
            elif not others and sym_len is not None:
                # N >= 16 for a column count that is a multiple of 16
                ok = 0 <= const and const + a.width <= 16 * sym_len[1] and n_is_columns(f, sym_len[0])
                why = f'{const} + {a.width} <= 16*{sym_len[1]} <= N*{sym_len[1]}'
            elif len(others) == 1:
                k_ = next(iter(others))
                if facts.get(k_) == 16 and sym_len is not None and others[k_] == sym_len[1] and n_is_columns(f, sym_len[0]):
                    # offset = 16*i elements with i < C/16: offset*e + const + width <= C*e  iff  const + width <= 16*e
                    ok = 0 <= const and const + a.width <= 16 * sym_len[1]
                    why = f'16*i*{sym_len[1]} + {const} + {a.width} <= C*{sym_len[1]} for i < C/16'
                elif isinstance(facts.get(k_), tuple) and sym_len is not None and others[k_] == 16 * sym_len[1] and n_is_columns(f, sym_len[0]):
                    # block index b in 0..C/16 times 16 elements
                    ok = 0 <= const and const + a.width <= 16 * sym_len[1]
                    why = f'16*b*{sym_len[1]} + {const} + {a.width} <= C*{sym_len[1]} for b < C/16'
                elif size is not None:
                    why = (f'the offset {X.lin_str(off)[:60]} grows with the column count C, but the buffer is {what} ({size} bytes): for C > {size // max(1, int(others[k_]))} '
                           'the store lands past the array, in the caller\'s frame')
            if ok:
                n += 1
                ctx.ok('R6.9', f, f'{a.name} inside {what} ({why})')
            else:
                ctx.fail('R6.9', f, f'{a.name} may leave its scratch buffer', why or f'access of {a.width} bytes at {X.lin_str(off)[:80]} is not shown to stay inside {what}', span=a.span)
    ctx.floor('R6.9', n, 13, 'vector accesses to scratch buffers shown in bounds')


def n_is_columns(f, n_ty):
    """The array length parameter is the column-count parameter C of the function (bounded `MultipleOf<U16>`, hence >= 16)."""
    preds = ' '.join(f.raw.get('preds') or [])
    return n_ty == 'C' and 'MultipleOf' in preds


def run(db, ctx):
    r69(db, ctx)
    r61(db, ctx)
    r62(db, ctx)
    r63b(db, ctx)
    r64(db, ctx)
    r65(db, ctx)
    r66(db, ctx)
    r67(db, ctx)
    r68(db, ctx)
    # fill / ravel hand out `rows * stride` elements of the row storage: a byte count there is a 4x overrun for f32 (seed C06-9)
    common.shared_rule(db, ctx, C19.storage_rules, 'R6.10', 'flat views of a DenseMatrix span rows()*stride() elements from data.as_ptr(), and the row count always matches the row vector '
                       '(shared with R19.2 / R19.5)', ['R19.2', 'R19.5'])
    # the scanner is the one library caller that passes row *blocks* to the u8 kernel: each block must end within the sequence rows
    # (rows() - wrap), or the kernel's M-row look-ahead runs past the matrix (seed C06-10 clamped with matrix().rows())
    from . import scanner as SC
    # only the block clauses (range handed to the kernel, row advance) bear on memory; the pre-filter / rescoring clauses are C02 / C03 / C08 matter
    ids = {k_: ('R6.11' if k_ == 'block' else '_drop') for k_ in ('unwrap', 'bound', 'formula', 'cmp', 'block', 'once', 'prefilter', 'down')}
    ctx.rule('R6.11', 'Scanner::next / max score row blocks self.row .. min(self.row + block_size, rows - wrap): every block lies within the sequence rows, so the '
                      'kernels\' look-ahead stays inside the wrap rows (the scanner rules R2.1-R2.5 / R3.2 re-evaluated)')
    for which in ('next', 'max'):
        SC.analyse(db, ctx, which, ids)
    ctx.obligations[:] = [o_ for o_ in ctx.obligations if o_.get('rule') != '_drop']
    ctx.violations[:] = [v_ for v_ in ctx.violations if v_.get('rule') != '_drop']
    ctx.rules_text.pop('_drop', None)
