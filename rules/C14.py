"""C14 — well-formed motif files load completely and exactly under any stream chunking (structural clauses)."""
import re
from lm.db import short
from lm import expr as X, guards as G, tables
from lm.match import norm, m
from . import common, C15

LEVEL_NOTE = ('decides (part): every matrix-filling site writes value -> (row = its position, column = its symbol); JASPAR raw row order; duplicate-symbol '
              'rejection; the stream is consumed only through chunk-oblivious std primitives (read_until / read_line); reader state is reset on the success path; '
              'buffer compaction keeps the unparsed suffix; record / motif fields are not crossed; TRANSFAC tag -> field table; end of input reached. '
              'Not decided: that arbitrary well-formed text is accepted by the nom grammar.')

FILL_SITES = [r'^lightmotif_io::jaspar::parse::build_matrix$', r'^lightmotif_io::jaspar16::parse::build_matrix$', r'^lightmotif_io::uniprobe::parse::build_matrix$',
              r'^lightmotif_io::transfac::parse::parse_record$', r'^lightmotif_io::transfac::Record::<A>::to_counts$',
              r'^lightmotif_py::dict_to_alphabet_array$', r'^lightmotif_py::CountMatrix::__init__$', r'^lightmotif_py::ScoringMatrix::__init__$']


def elems(e):
    return [x for x in X.walk(e) if x[0] == 'elem']


def r141(db, ctx):
    ctx.rule('R14.1', 'at every site that fills a matrix from parsed vectors: row index = position counter of the value\'s own vector, column index = '
                      'as_index of the symbol paired with that vector (or the column counter for an identity copy)')
    n = 0
    for pat in FILL_SITES:
        fs = [f for f in db.find(pat) if not f.promoted_of and f.kind != 'Closure']
        if not fs:
            ctx.fail('R14.1', pat, 'fill site', 'reason=anchor-missing')
            continue
        for f in fs:
            R = X.Rec(f)
            sites = [s for s in X.stores(f, R) if 'format' not in (s.get('span') or '')]
            from lm import iteralg as IA_
            CA_ = IA_.Canon(f, R)

            def _canon_matrix_store(s_):
                tc_ = CA_.canon(s_['target'])
                return tc_[0] == 'at' and tc_[1][0] == 'at' and tc_[1][1][0] in ('v', 'p') and 'DenseMatrix<' in f.local_ty(tc_[1][1][1])
            sites = [s for s in sites if (norm(s['target'])[0] == 'idx' and is_matrix_store(f, norm(s['target']))) or _canon_matrix_store(s)]
            if not sites:
                ctx.fail('R14.1', f, 'matrix store', 'reason=unrecognised-shape: no matrix cell store found')
                continue
            for s in sites:
                tg, v = norm(s['target']), norm(s['value'])
                ev = elems(v)
                col = tg[2]
                base = tg[1]
                probs = []
                one_d = not (base[0] == 'call' and base[1].endswith(('index_mut', '::index')))
                if not one_d:
                    row = base[2][1]
                    b = m(('fld', ('elem', '$src', '$L'), '0'), row)
                    if b is None or not (b['$src'][0] == 'call' and b['$src'][1].endswith('enumerate')):
                        probs.append(f'row index {X.show(row, 80)} is not the position counter of an enumerated vector')
                    elif ('elem', b['$src'], b['$L']) not in ev:
                        probs.append('row counter does not come from the iteration that yields the stored value')
                # column
                if col[0] == 'call' and col[1].endswith('Symbol::as_index'):
                    es = elems(col)
                    tied = any(x in ev for x in es)
                    if not tied:
                        # python dict forms: value looked up under the symbol's own letter
                        chars = [x for x in X.walk(v) if x[0] == 'call' and x[1].endswith('Symbol::as_char')]
                        tied = any(X.canon(c[2][0]) == X.canon(col[2][0]) for c in chars)
                    if not tied and one_d:
                        # dict item: key and value of the same dict element
                        tied = any(x in elems(v) for x in es)
                    if not tied:
                        probs.append(f'column symbol {X.show(col, 80)} is not paired with the vector the value comes from')
                else:
                    b2 = m(('fld', ('elem', '$src', '$L'), '0'), col)
                    if b2 is None or ('elem', b2['$src'], b2['$L']) not in ev:
                        probs.append(f'column index {X.show(col, 80)} is neither as_index(paired symbol) nor the column counter of the copied row')
                if probs:
                    # the same relation in index-loop form (`for k in 0..n { let v = &input[k]; let j = symbols[k].as_index(); for i in 0..v.len() { m[i][j] = v[i] } }`):
                    # decided on the canonical element form of lm/iteralg.py
                    from lm import iteralg
                    CA = iteralg.Canon(f, R)
                    tc, vc = CA.canon(tg), CA.canon(v)
                    bt = m(('at', ('at', '$m', '$row'), '$col'), tc)
                    if bt is not None and iteralg.is_pos(bt['$row']) and iteralg.is_pos(bt['$col']):
                        # identity copy  m[i][j] = f(src[i][j])  over every row of src and every cell of its rows
                        srcs = [x for x in X.walk(vc) if x[0] == 'at' and x[2] == bt['$col'] and x[1][0] == 'at' and x[1][2] == bt['$row']]
                        if srcs:
                            src = srcs[0][1][1]
                            er, ec = CA.extents.get(bt['$row'][1]), CA.extents.get(bt['$col'][1])
                            if er in ([('rows', src)], [('len', src)]) and ec == [('len', ('at', src, bt['$row']))]:
                                probs = []
                            else:
                                # rows of source and destination zipped: the destination was created with the source's row count
                                dm_ = bt['$m']
                                made = False
                                if dm_[0] == 'v':
                                    ds_ = f.defs().get(dm_[1], [])
                                    if len(ds_) == 1 and ds_[0][1] == 'term':
                                        dn_ = norm(R.call(ds_[0][2]))
                                        mk_ = m(('call~', 'DenseMatrix::new', (('call~', 'DenseMatrix::rows', ('$x',)),)), dn_)
                                        made = mk_ is not None and CA.canon(mk_['$x']) == src
                                ok_r = bool(er) and all(c_ in (('rows', src), ('len', src), ('rows', dm_)) for c_ in er) and any(c_[1] == src for c_ in er)
                                ok_c = bool(ec) and all(c_ in (('len', ('at', src, bt['$row'])), ('len', ('at', dm_, bt['$row']))) for c_ in ec) and \
                                    any(c_ == ('len', ('at', src, bt['$row'])) for c_ in ec)
                                if made and ok_r and ok_c:
                                    probs = []
                    if bt is not None and probs:
                        vecs = [x for x in X.walk(vc) if x[0] == 'at' and x[2] == bt['$row']]
                        rpos = [x for x in X.walk(bt['$row']) if iteralg.is_pos(x)]
                        cm = m(('call~', 'Symbol::as_index', ('$sym',)), bt['$col'])
                        if vecs and rpos and cm is not None:
                            vec = vecs[0][1]
                            own = any((c_[0] == 'len' and c_[1] == vec) or (c_[0] == 'sub' and c_[2] == ('k', 0) and common.is_len_of(c_[1], vec)) for c_ in CA.extents.get(rpos[0][1], []))
                            if not own:
                                # `for i in 0..rows` with rows = len of another vector, under a dominating check len(vec) == rows
                                for c_ in CA.extents.get(rpos[0][1], []):
                                    if c_[0] == 'sub' and c_[2] == ('k', 0):
                                        for r_ in G.relations(f, R, s['block']):
                                            if r_[0] == 'eq':
                                                a_, b_ = CA.canon(r_[1]), CA.canon(r_[2])
                                                if (common.is_len_of(a_, vec) and b_ == c_[1]) or (common.is_len_of(b_, vec) and a_ == c_[1]):
                                                    own = True
                            # pairing: apart from the row position, the value and the symbol are selected by the same iteration
                            # (`input[k][i]` with `symbols[k]`, or `counts[i][j]` with `symbols[j]`)
                            atoms = lambda e_: {x for x in X.walk(e_) if iteralg.is_pos(x) or x[0] == 'elem'}
                            kv = atoms(vc) - atoms(bt['$row'])
                            ks = atoms(cm['$sym'])
                            if own and ks and ks <= kv:
                                probs = []
                if probs:
                    ctx.fail('R14.1', f, 'matrix fill: ' + X.show(tg, 90), '; '.join(probs), span=s['span'])
                else:
                    n += 1
                    ctx.ok('R14.1', f, 'matrix[position][symbol] = value', ['row = enumerate counter of the value vector', 'column = as_index of the paired symbol'])
    ctx.floor('R14.1', n, 8, 'matrix-filling sites')


def is_matrix_store(f, tg):
    base = tg[1]
    if base[0] == 'call' and base[1].endswith(('index_mut',)):
        return True
    if base[0] == 'v':
        ty = f.local_ty(base[1])
        return 'GenericArray<f32' in ty
    return False


def r142(db, ctx):
    ctx.rule('R14.2', 'JASPAR raw format: the four rows are A, C, G, T in file order and are handed to build_matrix with the symbol table [A, C, G, T]')
    f = db.fn('lightmotif_io::jaspar::parse::matrix')
    R = X.Rec(f)
    cols = [(bi, t) for bi, t in f.calls() if (f.callee_short(t) or '').endswith('parse::matrix_column')]
    # order of calls along the straight-line path
    order = sorted(cols, key=lambda x: len(f.dominators()[x[0]]))
    bm = [(bi, t) for bi, t in f.calls() if (f.callee_short(t) or '').endswith('parse::build_matrix')]
    ok = False
    why = ''
    if len(order) == 0 and len(bm) == 1:
        # combinator form: `tuple((matrix_column, matrix_column, matrix_column, matrix_column))(input)` applies its parsers in order, so
        # field k of its result is the k-th row of the file
        arr = norm(R.operand(bm[0][1]['args'][0]))
        syms = R.operand(bm[0][1]['args'][1])
        lit = next((x[2] for x in X.walk(arr) if x[0] == 'agg' and x[1] == 'array' and len(x[2]) == 4), None)
        names = []
        for x in X.walk(syms):
            if x[0] == 'promoted':
                try:
                    names = [(tables.enum_variant(el) or (None, None))[1] for el in tables.promoted_array(db, f.path, x[2])]
                except tables.NotTabulable:
                    pass
        fields_ok = False
        if lit:
            bases = {op[1] for op in lit if op[0] == 'fld'}
            fields_ok = len(bases) == 1 and [str(op[2]) for op in lit if op[0] == 'fld'] == ['0', '1', '2', '3']
            if fields_ok:
                base = next(iter(bases))
                parsers = None
                for x in X.walk(base):
                    if x[0] == 'call' and 'nom::sequence::tuple' in x[1]:
                        for y in X.walk(x):
                            if y[0] == 'agg' and y[1] == 'tuple' and len(y[2]) == 4 and all(z[0] == 'fnitem' for z in y[2]):
                                parsers = y[2]
                        for a_ in x[2]:
                            if a_[0] == 'v':
                                for bi_, si_, d_ in f.defs().get(a_[1], []):
                                    v_ = norm(R.call(d_) if si_ == 'term' else R.rvalue(d_))
                                    for y in X.walk(v_):
                                        if y[0] == 'agg' and y[1] == 'tuple' and len(y[2]) == 4 and all(z[0] == 'fnitem' for z in y[2]):
                                            parsers = y[2]
                fields_ok = parsers is not None and all(z[1].endswith('parse::matrix_column') for z in parsers)
        ok = bool(fields_ok and names == ['A', 'C', 'G', 'T'])
        why = f'tuple form: fields in order / four matrix_column parsers = {fields_ok}, symbols {names}'
    elif len(order) == 4 and len(bm) == 1:
        arr = norm(R.operand(bm[0][1]['args'][0]))
        syms = R.operand(bm[0][1]['args'][1])
        # array literal operands
        lit = None
        for x in X.walk(arr):
            if x[0] == 'agg' and x[1] == 'array' and len(x[2]) == 4:
                lit = x[2]
        names = []
        for x in X.walk(syms):
            if x[0] == 'promoted':
                try:
                    for el in tables.promoted_array(db, f.path, x[2]):
                        ev = tables.enum_variant(el)
                        names.append(ev[1] if ev else None)
                except tables.NotTabulable:
                    pass
        if lit and names == ['A', 'C', 'G', 'T']:
            # k-th literal operand must come from the k-th matrix_column call
            dests = [t['dest']['l'] for _, t in order]
            got = []
            for op in lit:
                ls = [x[1] for x in X.walk(op) if x[0] == 'v']
                cs = X.canon(op)
                got.append(cs)
            # each operand is `.1` of Try::branch(matrix_column(input_k)); input_k chains from the previous call
            chain_ok = True
            prev = None
            for k, op in enumerate(lit):
                calls = [x for x in X.walk(op) if x[0] == 'call' and x[1].endswith('parse::matrix_column')]
                if len(calls) < 1:
                    chain_ok = False
                    break
                depth = sum(1 for x in X.walk(op) if x[0] == 'call' and x[1].endswith('parse::matrix_column'))
                if depth != k + 1:
                    chain_ok = False
            ok = chain_ok
            why = f'array operands nest {[sum(1 for x in X.walk(op) if x[0] == "call" and x[1].endswith("parse::matrix_column")) for op in lit]} matrix_column calls'
        else:
            why = f'symbols {names}, literal found {lit is not None}'
    if ok:
        ctx.ok('R14.2', f, 'rows 1..4 of the file -> [A, C, G, T]', ['k-th array element is the result of the k-th matrix_column call', 'symbol table promoted constant'])
    else:
        ctx.fail('R14.2', f, 'row order', 'cannot match the four matrix_column results with [A, C, G, T] in file order: ' + why)


def r143(db, ctx):
    ctx.rule('R14.3', 'JASPAR-2016 / UniPROBE: a symbol that already has a column is rejected (tested before the copy, marked after)')
    for fam in ('jaspar16', 'uniprobe'):
        f = db.fn(f'lightmotif_io::{fam}::parse::build_matrix')
        R = X.Rec(f)
        from lm import iteralg as IA_
        CA_ = IA_.Canon(f, R)

        def _cell(s_):
            if is_matrix_store(f, norm(s_['target'])):
                return True
            tc_ = CA_.canon(s_['target'])        # a row drawn from matrix.iter_mut(): row[col] = ..
            return tc_[0] == 'at' and tc_[1][0] == 'at' and tc_[1][1][0] in ('v', 'p') and 'DenseMatrix<' in f.local_ty(tc_[1][1][1]) and norm(s_['target'])[0] == 'idx'
        cell = [s for s in X.stores(f, R) if _cell(s)]
        mark = [s for s in X.stores(f, R) if norm(s['value']) == ('k', True) and norm(s['target'])[0] in ('idx', 'call')]
        marks = []
        for bi, t in f.calls():
            pass
        ok = False
        if cell:
            rels = G.relations(f, R, cell[0]['block'])
            tested = [r for r in rels if r[0] in ('false', 'true') and 'as_index' in X.canon(r[1])]
            not_done = [r for r in rels if r[0] == 'false' and 'as_index' in X.canon(r[1]) and 'index' in X.canon(r[1])]
            # mark: `done[idx] = true` appears as store through IndexMut::index_mut
            st_true = [s for s in X.stores(f, R) if norm(s['value']) == ('k', True)]
            same_sym = bool(not_done) and bool(st_true) and X.canon(norm(cell[0]['target'])[2]) in X.canon(not_done[0][1]) and X.canon(norm(cell[0]['target'])[2]) in X.canon(st_true[0]['target'])
            ok = same_sym
        if ok:
            ctx.ok('R14.3', f, 'done[sym] tested (false) before the copy and set after', ['Err(InvalidData) on a repeated symbol'])
        else:
            ctx.fail('R14.3', f, 'duplicate symbol', 'the column copy is not guarded by !done[sym] paired with done[sym] = true')


ALLOWED_STREAM = ('read_until', 'read_line', 'lines', 'split', 'read_to_end', 'read_to_string')
FORBIDDEN_STREAM = ('fill_buf', 'consume', 'read', 'read_vectored', 'read_buf', 'read_exact', 'read_buf_exact', 'bytes', 'skip_until', 'has_data_left')


def r144(db, ctx, seen, ext):
    ctx.rule('R14.4', 'reader code reaches the stream only through read_until / read_line (chunk-oblivious std primitives); fill_buf / consume / read are not reachable')
    used = {}
    for c, users in ext.items():
        if c.startswith('std::io::BufRead::') or c.startswith('std::io::Read::'):
            used[c] = sorted(users)
    bad = {c: u for c, u in used.items() if c.rsplit('::', 1)[-1] in FORBIDDEN_STREAM}
    good = {c: u for c, u in used.items() if c.rsplit('::', 1)[-1] in ALLOWED_STREAM}
    for c, u in bad.items():
        ctx.fail('R14.4', u[0], f'stream access {c}', f'{c} exposes chunk boundaries of the underlying stream; records could depend on how the bytes are delivered')
    if not bad and good:
        ctx.ok('R14.4', 'lightmotif_io readers', f'stream methods used: {sorted(c.rsplit("::", 1)[-1] for c in good)}', ['std contract: result is a function of the byte stream only'])
    ctx.floor('R14.4', len(good), 2, 'stream primitives used by the readers')


def r145(db, ctx):
    ctx.rule('R14.5', 'reader state is reset on every path that returns a record: TRANSFAC clears the buffer and zeroes last; UniPROBE pairs buffer.clear() with line = false; '
                      'JASPAR advances start by the bytes consumed (C15 invariant)')
    # TRANSFAC
    f = [g for g in db.fns.values() if g.path.startswith('<lightmotif_io::transfac::reader::Reader<') and g.path.endswith('Iterator>::next') and g.kind == 'AssocFn'][0]
    R = X.Rec(f)
    oks = [bi for bi, blk in enumerate(f.blocks) for st in blk['stmts'] if st['k'] == 'assign' and st['rv']['k'] == 'agg' and st['rv'].get('variant') == 'Ok'
           and st['rv'].get('adt', '').endswith('Result')]
    clears = [bi for bi, t in f.calls() if (f.callee_short(t) or '').endswith('String::clear')]
    zeros = [s['block'] for s in X.stores(f, R) if norm(s['target'])[0] == 'fld' and norm(s['target'])[2] == 'last' and norm(s['value']) == ('k', 0)]
    good = oks and all(any(f.dominates(c, o) for c in clears) and any(f.dominates(z, o) or z == o for z in zeros) for o in oks)
    (ctx.ok if good else ctx.fail)('R14.5', f, 'TRANSFAC: Some(Ok(record)) dominated by buffer.clear() and last = 0',
                                   *([['must-pass-through']] if good else ['a record is returned on a path that keeps the parsed text / offset: the next record would be parsed from stale data']))
    # UniPROBE: every buffer.clear() after a consumed line is paired with line = false; lines that did not parse are not cleared
    f = [g for g in db.fns.values() if g.path.startswith('<lightmotif_io::uniprobe::Reader<') and g.path.endswith('Iterator>::next') and g.kind == 'AssocFn'][0]
    R = X.Rec(f)
    col = [(bi, t) for bi, t in f.calls() if (f.callee_short(t) or '').endswith('parse::matrix_column')]
    ok = False
    if len(col) == 1:
        # on the Ok side of matrix_column: push + clear + line=false ; on the Err side: no clear
        pushes = [bi for bi, t in f.calls() if (f.callee_short(t) or '').endswith('Vec::push')]
        falses = [s['block'] for s in X.stores(f, R) if norm(s['target'])[0] == 'fld' and norm(s['target'])[2] == 'line' and norm(s['value']) == ('k', False)]
        clears = [bi for bi, t in f.calls() if (f.callee_short(t) or '').endswith('String::clear')]
        ok = bool(pushes) and all(any(f.dominates(p, c) or f.dominates(c, p) for c in clears) and any(f.dominates(p, z) for z in falses) for p in pushes)
    (ctx.ok if ok else ctx.fail)('R14.5', f, 'UniPROBE: a parsed column line is cleared and line reset; an unparsed line is kept for the next record',
                                 *([['push dominates clear + line=false']] if ok else ['consumed column line is not cleared / line flag not reset together']))
    for fam in ('jaspar', 'jaspar16'):
        ok, why = C15.offset_invariant(db, fam)
        (ctx.ok if ok else ctx.fail)('R14.5', f'lightmotif_io::{fam}::Reader', 'JASPAR: start advances by len(text) - len(rest)', *([[str(why)]] if ok else ['; '.join(map(str, why))]))


def r145b(db, ctx):
    ctx.rule('R14.5b', 'buffer compaction keeps exactly the unparsed suffix: copy_within(start.., 0); truncate(len - start); start = 0 under one guard')
    for fam in ('jaspar', 'jaspar16'):
        f = [g for g in db.fns.values() if g.path.startswith(f'<lightmotif_io::{fam}::Reader<') and g.path.endswith('Iterator>::next') and g.kind == 'AssocFn'][0]
        R = X.Rec(f)
        cw = [(bi, t) for bi, t in f.calls() if (f.callee_short(t) or '').endswith('copy_within')]
        tr = [(bi, t) for bi, t in f.calls() if (f.callee_short(t) or '').endswith('Vec::truncate')]
        z = [s for s in X.stores(f, R) if m(('fld', ('p', 1), 'start'), norm(s['target'])) is not None and norm(s['value']) == ('k', 0)]
        ok = False
        why = 'pieces missing'
        if len(cw) == 1 and len(tr) == 1 and len(z) == 1:
            a = [norm(R.operand(x)) for x in cw[0][1]['args']]
            src_ok = common.is_tail_range(a[1], lambda e: m(('fld', ('p', 1), 'start'), norm(e)) is not None, ('fld', ('p', 1), 'buffer')) and a[2] == ('k', 0)
            ta = norm(R.operand(tr[0][1]['args'][1]))
            l = X.lin(ta)
            keys = {k: v for k, v in l.items() if k != ''}
            tr_ok = l.get('', 0) == 0 and len(keys) == 2 and sorted(keys.values()) == [-1, 1] and any('start' in k and v == -1 for k, v in keys.items()) and any('len' in k and v == 1 for k, v in keys.items())
            same_region = f.dominates(cw[0][0], tr[0][0]) and f.dominates(tr[0][0], z[0]['block'])
            # len captured before copy_within (copy_within does not change len) — ok either way
            ok = src_ok and tr_ok and same_region
            why = f'copy_within ok={src_ok}, truncate(len - start) ok={tr_ok} [{X.show(ta, 60)}], ordered together={same_region}'
        (ctx.ok if ok else ctx.fail)('R14.5b', f, 'compaction = buffer[start..] moved to the front', *([['new buffer = old buffer[start..]', 'start := 0']] if ok else [why]))


def walk_nearest(e):
    """Pre-order walk that does not descend below a `named` node (the variable closest to the use wins)."""
    yield e
    if e[0] == 'named':
        return
    for x in e[1:]:
        if isinstance(x, tuple):
            if x and isinstance(x[0], str):
                yield from walk_nearest(x)
            else:
                for y in x:
                    if isinstance(y, tuple) and y and isinstance(y[0], str):
                        yield from walk_nearest(y)


def names(f, e):
    out = [x[1] for x in walk_nearest(e) if x[0] == 'named']
    for x in walk_nearest(e):
        if x[0] == 'v' and f.local_name(x[1]):
            out.append(f.local_name(x[1]))
        if x[0] == 'p' and f.local_name(x[1]):
            out.append(f.local_name(x[1]))
        if f.kind == 'Closure' and x[0] == 'fld' and x[1] in (('p', 1), ('deref', ('p', 1))) and str(x[2]).isdigit():
            ups = f.raw.get('upvars') or []
            if int(x[2]) < len(ups):
                out.append(ups[int(x[2])]['name'])
    return out


def r146(db, ctx):
    ctx.rule('R14.6', 'field plumbing: in every Record / *Motif aggregate each field is filled from the same-named accessor or variable (no crossed fields); '
                      'TRANSFAC tags map to their fields (AC accession, ID id, NA name, DE description)')
    n = 0
    for f in db.fns.values():
        if f.crate not in ('lightmotif_io', 'lightmotif_py') or f.promoted_of or f.raw.get('derived'):
            continue
        R = None
        for blk in f.blocks:
            for st in blk['stmts']:
                if st['k'] == 'assign' and st['rv']['k'] == 'agg' and st['rv'].get('ak') == 'adt':
                    adt = st['rv']['adt']
                    if not (adt.endswith('::Record') or adt.endswith('Motif')) or adt.endswith('::Motif') and f.crate != 'lightmotif_py':
                        continue
                    fields = st['rv']['fields']
                    if len(fields) < 2 and not adt.endswith('JasparMotif'):
                        continue
                    R = R or X.Rec(f, keep_names=True)
                    crossed = []
                    for fld, o in zip(fields, st['rv']['ops']):
                        ns = set(names(f, R.operand(o)))
                        # accessor calls: record.name() etc.
                        for x in walk_nearest(R.operand(o)):
                            if x[0] == 'call' and '::Record::' in x[1]:
                                ns.add(x[1].rsplit('::', 1)[-1])
                        others = set(fields) - {fld}
                        alias = {'name': {'id'}} if adt.endswith('Motif') else {}
                        if (ns & others) and fld not in ns:
                            crossed.append(f'{fld} <- {sorted(ns & others)}')
                    if crossed:
                        ctx.fail('R14.6', f, f'{adt.rsplit("::", 2)[-2]}::{adt.rsplit("::", 1)[-1]} aggregate', 'crossed fields: ' + ', '.join(crossed), span=st.get('span'))
                    else:
                        n += 1
                        ctx.ok('R14.6', f, f'{adt.rsplit("::", 1)[-1]} {{ {", ".join(fields)} }} filled from same-named sources')
    ctx.floor('R14.6', n, 6, 'Record / Motif aggregates')
    # TRANSFAC tag -> variable table
    f = db.fn('lightmotif_io::transfac::parse::parse_record')
    R = X.Rec(f)
    want = {'accession': 'AC', 'id': 'ID', 'name': 'NA', 'description': 'DE'}
    got = {}
    for bi, blk in enumerate(f.blocks):
        if blk['cleanup']:
            continue
        for st in blk['stmts']:
            if st['k'] == 'assign' and not st['p']['pr'] and f.local_name(st['p']['l']) in want and \
                    not (st['rv']['k'] == 'agg' and st['rv'].get('variant') == 'None'):
                rels = G.relations(f, R, bi)
                lits = []
                for r in rels:
                    if r[0] == 'eq':
                        for side in (r[1], r[2]):
                            v = common.str_const(norm(side)) if norm(side)[0] == 'kc' else None
                            if v:
                                lits.append(v)
                    if r[0] == 'true' and r[1][0] == 'call':
                        for a in r[1][2]:
                            v = common.str_const(norm(a)) if norm(a)[0] == 'kc' else None
                            if v:
                                lits.append(v)
                # and the line parsed is preceded(tag(LIT), parse_line)
                val = X.canon(R.rvalue(st['rv']))
                tags = re.findall(r'tag\(\\?"(\w\w)', val) + re.findall(r'tag\("(\w\w)"\)', val)
                got[f.local_name(st['p']['l'])] = (sorted(set(lits)), sorted(set(tags)))
    bad = {k: v for k, v in got.items() if want[k] not in v[0] and want[k] not in v[1]}
    if len(got) == 4 and not bad:
        ctx.ok('R14.6', f, 'TRANSFAC tag table AC/ID/NA/DE -> accession/id/name/description', [str({k: v[0] or v[1] for k, v in got.items()})])
    else:
        ctx.fail('R14.6', f, 'TRANSFAC tag table', f'expected {want}; found {got}')


def r1411(db, ctx, roots):
    ctx.rule('R14.11', 'a blank separator line is recognised by its content being white space (`trim().is_empty()`), as the line parsers do '
                       '(`line_ending` accepts "\\n" and "\\r\\n"): no reader compares a line with a white-space literal')
    n = 0
    for f in roots:
        if not f.path.endswith('::next'):
            continue
        R = X.Rec(f)
        bodies = [(f, R)] + [(g, X.Rec(g)) for g in db.closures_of(f)]
        for g, Rg in bodies:
            for bi in range(len(g.blocks)):
                t = g.term(bi)
                if t['k'] != 'switch':
                    continue
                d_ = norm(Rg.at(bi).operand(t['discr']))
                if d_[0] == 'call' and d_[1].endswith(('str::is_empty',)) and d_[2] and norm(d_[2][0])[0] == 'call' and norm(d_[2][0])[1].rsplit('::', 1)[-1].startswith('trim'):
                    n += 1
            for bi, t in g.calls():
                c = g.callee_short(t) or ''
                if not c.endswith(('PartialEq::eq', 'PartialEq::ne')) or len(t['args']) != 2:
                    continue
                sides = [norm(Rg.at(bi).operand(a_)) for a_ in t['args']]
                for k_ in (0, 1):
                    lit = sides[k_]
                    val = None
                    if lit[0] == 'promoted':
                        pe = common.promoted_expr(db, lit[1], lit[2])
                        lit = norm(pe) if pe is not None else lit
                    if lit[0] == 'kc':
                        val = common.str_const(lit)
                    other = X.canon(sides[1 - k_])
                    if (val is not None and val.strip() == '' and ('buffer' in other or 'line' in other or 'text' in other)) or \
                            (val is None and lit[0] in ('promoted', 'kc') and 'buffer' in other and 'str' in str(t.get('callee_full') or '')):
                        ctx.fail('R14.11', g, 'blank-line test', f'the line is compared with the literal {val!r}: a separator line "\\r\\n" (or one holding blanks) is taken for content, '
                                 'although the line parsers accept it as a line ending — records of a CRLF file are followed by phantom records', span=t['span'])
    ctx.floor('R14.11', n, 4, 'white-space-insensitive blank tests in the readers')


def r1412(db, ctx):
    from . import C09
    ctx.rule('R14.12', 'transfac Record::to_freq: freq[i][j] = (value[i][j] + pseudo[j]) / row total over the whole row, every row and column of the '
                       'record matrix (sibling of CountMatrix::to_freq, R9.9)')
    C09.to_freq_form(db, ctx, 'R14.12', 'lightmotif_io::transfac::Record::to_freq', ('fld', ('down', ('fld', ('p', 1), 'data'), 'Some'), '0'))


def r1414(db, ctx):
    ctx.rule('R14.14', 'a header line is read completely: the description a `header` parser returns (the Some payload) is derived from a rest-of-line '
                       'recogniser (take_until("\\n") / not_line_ending / take_till), not from a token recogniser — a description of several words is one field')
    from lm import prov as PV
    REST = ('take_until', 'not_line_ending', 'take_till', 'take_till1', 'take_until1', 'rest')
    n = 0
    for path in ('lightmotif_io::jaspar::parse::header', 'lightmotif_io::jaspar16::parse::header'):
        try:
            f = db.fn(path)
        except KeyError:
            ctx.fail('R14.14', path, 'anchor', 'reason=anchor-missing')
            continue
        R = X.Rec(f)
        somes = []
        for bi, blk in enumerate(f.blocks):
            for si, st in enumerate(blk['stmts']):
                rv = st.get('rv') if isinstance(st, dict) and st.get('k') == 'assign' else None
                if not rv or rv.get('k') != 'agg':
                    continue
                try:
                    e = R.at(bi).rvalue(rv)
                except Exception:
                    continue
                if e[0] == 'agg' and isinstance(e[1], tuple) and e[1][0] == 'adt' and e[1][1].endswith('option::Option') and len(e[2]) == 1:
                    somes.append((bi, e, st.get('span')))
        n += 1
        if not somes:
            # combinator spelling: the description is built in a closure mapped over the parser's output; the pairing of closure arguments with
            # sub-parsers is not followed — not decided, as long as a rest-of-line recogniser is what the header applies
            cs = {f.callee_short(t_) or '' for _, t_ in f.calls()}
            if db.closures_of(f) and any(c_.rsplit('::', 1)[-1] == r_ for c_ in cs for r_ in REST):
                ctx.ok('R14.14', f, 'combinator form (description built in a mapped closure): not decided', ['a rest-of-line recogniser is applied'])
            else:
                ctx.fail('R14.14', f, 'description', 'reason=unrecognised-shape: no Some(description) construction found')
            continue
        for bi, e, span in somes:
            cs = PV.calls_in(f, R.at(bi), e[2][0])
            if any(c_.rsplit('::', 1)[-1] == r_ or ('::' + r_ + '::') in c_ for c_ in cs for r_ in REST):
                ctx.ok('R14.14', f, 'description = the rest of the header line (trimmed)')
            else:
                ctx.fail('R14.14', f, 'description', 'the description is not derived from a rest-of-line recogniser: ' + ', '.join(sorted(c_.rsplit('::', 2)[-1] for c_ in cs if 'nom::' in c_))[:200] +
                         ' — a description of several words is cut at the first blank', span=span)
    ctx.floor('R14.14', n, 2, 'header parsers')


def r1413(db, ctx):
    ctx.rule('R14.13', 'blanks around a delimiter token are optional: in the parsers of the I/O crate `delimited(a, token, b)` / `tuple((a, token, b))` never has a mandatory-blank '
                       'recogniser (space1 / multispace1) as `a` or `b` — "[1 2 3]" and "[ 1 2 3 ]" are the same row')
    n = nf = 0
    BL = ('space0', 'space1', 'multispace0', 'multispace1')
    for f in sorted(db.fns.values(), key=lambda f_: f_.path):
        if f.crate != 'lightmotif_io' or '::parse::' not in f.path or f.promoted_of:
            continue
        nf += 1
        R = X.Rec(f)
        for bi, t in f.calls():
            cs = f.callee_short(t) or ''
            if cs == 'nom::sequence::delimited' and len(t['args']) == 3:
                outer = [norm(R.at(bi).operand(t['args'][k_])) for k_ in (0, 2)]
            elif cs == 'nom::sequence::tuple' and len(t['args']) == 1:
                tp = norm(R.at(bi).operand(t['args'][0]))
                if tp[0] != 'agg' or len(tp[2]) != 3:
                    continue
                outer = [norm(tp[2][0]), norm(tp[2][2])]
            else:
                continue
            names = [x_[1] if x_[0] == 'fnitem' else None for x_ in outer]
            if not any(nm_ and nm_.rsplit('::', 1)[-1] in BL for nm_ in names):
                continue
            n += 1
            bad = [nm_ for nm_ in names if nm_ and nm_.rsplit('::', 1)[-1] in ('space1', 'multispace1')]
            if bad:
                ctx.fail('R14.13', f, 'blank-delimited token', f'`{cs.rsplit("::", 1)[-1]}` requires at least one blank ({bad[0].rsplit("::", 1)[-1]}) next to the token: a row written without it '
                         '("[1 2 3]") is rejected, or ends the matrix early', span=t['span'])
            else:
                ctx.ok('R14.13', f, 'optional blanks around the token')
    # the number of sites depends on the spelling (delimited / tuple / sequential calls: the last is not decided); the floor is on the functions looked at
    ctx.floor('R14.13', nf, 20, 'parse functions of the I/O crate examined')


def r147(db, ctx, roots):
    ctx.rule('R14.7', 'each reader has a path returning None taken when the stream reports 0 bytes and nothing non-blank is pending')
    n = 0
    for f in roots:
        if not f.path.endswith('::next'):
            continue
        nones = [bi for bi, blk in enumerate(f.blocks) for st in blk['stmts'] if st['k'] == 'assign' and st['p']['l'] == 0 and not st['p']['pr'] and st['rv']['k'] == 'agg'
                 and st['rv'].get('variant') == 'None']
        if not nones:
            # `self.read_record().transpose()` with read_record -> Result<Option<Record>, Error>: Ok(None) becomes None
            def is_none_agg(rv):
                return rv['k'] == 'agg' and rv.get('variant') == 'None'

            def local_of(o):
                pl = o.get('m') or o.get('c')
                return pl['l'] if pl and not pl['pr'] else None
            for bi, t in f.calls():
                if (f.callee_short(t) or '').endswith('Result::transpose') and t['dest']['l'] == 0 and not t['dest']['pr'] and t['args']:
                    l = local_of(t['args'][0])
                    seen_l = set()
                    work = [l] if l is not None else []
                    while work:
                        x = work.pop()
                        if x in seen_l:
                            continue
                        seen_l.add(x)
                        for b2, blk in enumerate(f.blocks):
                            for st in blk['stmts']:
                                if st['k'] == 'assign' and st['p']['l'] == x and not st['p']['pr']:
                                    rv = st['rv']
                                    if rv['k'] == 'use' and local_of(rv['a']) is not None:
                                        work.append(local_of(rv['a']))
                                    if rv['k'] == 'agg' and rv.get('variant') == 'Ok' and rv['ops']:
                                        lx = local_of(rv['ops'][0])
                                        if lx is not None and any(st2['k'] == 'assign' and st2['p']['l'] == lx and not st2['p']['pr'] and is_none_agg(st2['rv'])
                                                                  for blk2 in f.blocks for st2 in blk2['stmts']):
                                            nones.append(b2)
                                        k_ = rv['ops'][0].get('k')
                                        if k_ is not None and 'None' in str(k_.get('text', '')):
                                            nones.append(b2)
        if nones:
            n += 1
            ctx.ok('R14.7', f, 'end-of-input path returns None', [f'{len(nones)} None exit(s)'])
        else:
            ctx.fail('R14.7', f, 'end of input', 'no path returns None: the iterator never ends')
    ctx.floor('R14.7', n, 4, 'reader next() with an end-of-input exit')


INT_PARSERS = {'u8': 'nom::character::complete::u8', 'u16': 'nom::character::complete::u16', 'u32': 'nom::character::complete::u32',
               'u64': 'nom::character::complete::u64'}
INT_MAX = {'u8': 2 ** 8, 'u16': 2 ** 16, 'u32': 2 ** 32, 'u64': 2 ** 64, 'usize': 2 ** 64, 'i32': 2 ** 31, 'i64': 2 ** 63}


def _float_const(e):
    """Value of a constant float expression (literal or integer literal cast to float), else None."""
    e = norm(e)
    if e[0] == 'k' and isinstance(e[1], (int, float)) and not isinstance(e[1], bool):
        return float(e[1])
    if e[0] == 'cast' and e[1][0] == 'k' and isinstance(e[1][1], (int, float)):
        import struct
        v = float(e[1][1])
        if 'f32' in str(e[2]):
            v = struct.unpack('f', struct.pack('f', v))[0]
        return v
    return None


def r148(db, ctx):
    ctx.rule('R14.8', 'numeric exactness: integer-count formats (JASPAR, JASPAR 2016) parse each cell with nom\'s integer parser into the u32 that is '
                      'stored (no float detour); every float->integer cast in the I/O crate is dominated by integrality (round(x) == x), x >= 0 '
                      'and x < 2^bits guards, so a value that is not an exactly representable count is refused, never saturated')
    n = 0
    for mod in ('jaspar', 'jaspar16'):
        try:
            f = db.fn(f'lightmotif_io::{mod}::parse::counts')
        except KeyError:
            ctx.fail('R14.8', f'lightmotif_io::{mod}::parse::counts', 'count row parser', 'reason=anchor-missing')
            continue
        lists = [(bi, t) for bi, t in f.calls() if (t.get('callee') or '').startswith('nom::multi::') and len(t.get('gargs') or []) > 1]
        ok = False
        why = None
        for bi, t in lists:
            ga = t['gargs']
            oty = ga[1]
            el = [a for a in t['args'] if isinstance(a, dict) and 'k' in a and isinstance(a['k'], dict) and a['k'].get('fn')]
            fns = [a['k']['fn'] for a in el]
            if oty in INT_PARSERS and INT_PARSERS[oty] in fns:
                ok = True
                ctx.ok('R14.8', f, f'{mod}: cells parsed by {INT_PARSERS[oty]} into Vec<{oty}>', [t.get('callee')])
            else:
                why = f'{t.get("callee")} yields {oty} through {fns or "a composed parser"}'
        if ok:
            n += 1
        else:
            # name a float parser / cast inside the module if that is what replaced it
            floats = []
            for g in db.fns.values():
                if g.path.startswith(f'lightmotif_io::{mod}::parse::'):
                    for bi, t in g.calls():
                        c = t.get('callee') or ''
                        if c.startswith('nom::number::'):
                            floats.append(c)
                        for a in t['args']:
                            if isinstance(a, dict) and isinstance(a.get('k'), dict) and (a['k'].get('fn') or '').startswith('nom::number::'):
                                floats.append(a['k']['fn'])
            ctx.fail('R14.8', f, f'{mod} cell parser', (f'count cells go through the floating-point parser {sorted(set(floats))} (f32 has a 24-bit mantissa: counts above 2^24 are rounded) '
                                                       if floats else 'reason=unrecognised-shape: ') + (why or 'no list combinator with an integer element parser found'))
    ctx.floor('R14.8', n, 2, 'integer cell parsers of JASPAR formats')
    # float -> int casts
    nc = 0
    for f in db.fns.values():
        if f.crate != 'lightmotif_io' or f.promoted_of:
            continue
        R = None
        for bi, blk in enumerate(f.blocks):
            if blk['cleanup']:
                continue
            for st in blk['stmts']:
                if not (st['k'] == 'assign' and st['rv']['k'] == 'cast' and st['rv'].get('ck') == 'FloatToInt'):
                    continue
                nc += 1
                R = R or X.Rec(f)
                v = norm(R.operand(st['rv']['a']))
                x = v[2][0] if v[0] == 'call' and v[1].endswith('::round') and len(v[2]) == 1 else v
                cx = X.canon(x)
                rels = G.relations(f, R, bi)
                ity = st['rv'].get('ty')
                integral = any(r[0] == 'eq' and {X.canon(norm(r[1])), X.canon(norm(r[2]))} == {cx, X.canon(('call', 'std::f32::round', (x,)))} or
                               (r[0] == 'eq' and sorted([X.canon(norm(r[1])), X.canon(norm(r[2]))])[0] == cx and 'round' in X.canon(norm(r[1])) + X.canon(norm(r[2]))) for r in rels)
                nonneg = False
                below = False
                # x == round(x) holds on this path, so x is not NaN: for such an x the failed test `x < c` does mean `x >= c`
                # (the partial-order negations nlt / nle / ngt / nge of lm.guards become the total ones)
                TOTAL = {'nlt': 'ge', 'nle': 'gt', 'ngt': 'le', 'nge': 'lt'}
                for r in rels:
                    if r[0] in TOTAL and integral:
                        r = (TOTAL[r[0]],) + tuple(r[1:])
                    if r[0] not in ('ge', 'gt', 'lt', 'le'):
                        continue
                    a, b = norm(r[1]), norm(r[2])
                    rel = r[0]
                    if X.canon(b) == cx and X.canon(a) != cx:
                        a, b = b, a
                        rel = {'ge': 'le', 'gt': 'lt', 'lt': 'gt', 'le': 'ge'}[rel]
                    if X.canon(a) != cx:
                        continue
                    c = _float_const(b)
                    if c is None:
                        continue
                    if (rel == 'ge' and c >= 0.0) or (rel == 'gt' and c >= -1.0):
                        nonneg = True
                    top = INT_MAX.get(ity)
                    if top and ((rel == 'lt' and c <= top) or (rel == 'le' and c < top)):
                        below = True
                missing = [w for w, okk in (('round(x) == x', integral), ('x >= 0', nonneg), (f'x < 2^{(INT_MAX.get(ity) or 1).bit_length() - 1}', below)) if not okk]
                if missing:
                    ctx.fail('R14.8', f, f'cast {st["rv"].get("from")} as {ity}', f'`{X.show(v, 60)} as {ity}` is not dominated by {missing}: '
                             'a value that is not an exact count is silently truncated / saturated instead of being refused', span=st.get('span'))
                else:
                    ctx.ok('R14.8', f, f'`{X.show(v, 60)} as {ity}` only for exact, in-range counts', ['round(x) == x', 'x >= 0', 'x < 2^bits'])
    ctx.note(f'R14.8: {nc} float->int cast(s) in lightmotif_io')


NUMERIC_TOKEN_PARSERS = ('nom::character::complete::u8', 'nom::character::complete::u16', 'nom::character::complete::u32', 'nom::character::complete::u64',
                         'nom::character::complete::i8', 'nom::character::complete::i16', 'nom::character::complete::i32', 'nom::character::complete::i64',
                         'nom::number::complete::float', 'nom::number::complete::double', 'nom::number::complete::recognize_float')
FIXED_WIDTH = ('nom::bytes::complete::take', 'nom::bytes::complete::take_while_m_n', 'nom::bytes::streaming::take')
NUMERIC_CONVERSIONS = ('core::str::parse', 'str::parse', 'FromStr::from_str', 'from_str_radix')


def r149(db, ctx):
    ctx.rule('R14.9', 'numeric fields (counts, frequencies, row labels, dates, reference numbers) are read by parsers that consume the whole numeric token '
                      '(nom u8..u64 / float): no numeric conversion is applied to the output of a fixed-width recogniser (take(n)), which would leave the '
                      'remaining digits of a longer number in front of the next field')
    sites = set()
    for k, f in db.fns.items():
        if f.crate != 'lightmotif_io' or f.promoted_of:
            continue
        R = None
        for bi, t in f.calls():
            c = f.callee_short(t) or ''
            if c in NUMERIC_TOKEN_PARSERS:
                sites.add((f.path, c))
            R = R or X.Rec(f)
            args = [norm(R.operand(a)) for a in t['args']]
            items = [x for a in args for x in X.walk(a)]
            for x in items:
                if x[0] == 'fnitem' and x[1] in NUMERIC_TOKEN_PARSERS:
                    sites.add((f.path, x[1]))
            conv = [x for x in items if x[0] == 'fnitem' and x[1].endswith(NUMERIC_CONVERSIONS)] + ([('call', c)] if c.endswith(NUMERIC_CONVERSIONS) else [])
            if not conv:
                continue
            fixed = [x for x in items if x[0] == 'call' and x[1].endswith(FIXED_WIDTH)]
            whole = [x for x in items if (x[0] == 'fnitem' and x[1].endswith(('complete::digit1', 'complete::digit0'))) or (x[0] == 'call' and x[1].endswith('combinator::recognize'))]
            if fixed:
                ctx.fail('R14.9', f, 'numeric conversion of a fixed-width slice',
                         f'{conv[0][1].rsplit("::", 1)[-1]} is applied to the output of {fixed[0][1].rsplit("::", 1)[-1]}({X.show(fixed[0][2][0], 20) if fixed[0][2] else ""}): '
                         'a number with more digits is cut and its remaining digits are read as the next field', span=t['span'])
            elif whole:
                sites.add((f.path, 'digit-run + ' + conv[0][1].rsplit('::', 1)[-1]))
            else:
                ctx.fail('R14.9', f, 'hand-rolled numeric conversion', f'reason=unrecognised-shape: {conv[0][1]} applied to a token of unknown extent', span=t['span'])
    for p_, c in sorted(sites):
        ctx.ok('R14.9', p_, f'numeric field read by {c.rsplit("::", 2)[-1] if "::" in c else c}', ['consumes the whole token'])
    ctx.floor('R14.9', len(sites), 8, 'numeric token parser sites')


MULTILINE_WS = ('nom::character::complete::multispace0', 'nom::character::complete::multispace1')


def r1410(db, ctx):
    ctx.rule('R14.10', 'one-line parsers (those that end their input with nom line_ending: headers, matrix rows / columns, tagged lines) skip blanks with '
                       'space0 / space1 only: a skipper that also eats line endings (multispace0 / multispace1) lets an optional field of one line swallow '
                       'the next line (a header without description would take the first matrix row as its description)')
    n = 0
    for k, f in sorted(db.fns.items()):
        if f.crate != 'lightmotif_io' or f.promoted_of or f.kind == 'Closure' or '::parse::' not in f.path:
            continue
        R = X.Rec(f)
        names = set()
        for bi, t in f.calls():
            names.add(f.callee_short(t) or '')
            for a in t['args']:
                for x in X.walk(norm(R.operand(a))):
                    if x[0] == 'fnitem':
                        names.add(x[1])
        if not any(nm.endswith('character::complete::line_ending') for nm in names):
            continue
        bad = sorted(nm for nm in names if nm in MULTILINE_WS)
        if bad:
            ctx.fail('R14.10', f, 'line parser', f'{bad[0].rsplit("::", 1)[-1]} inside a one-line parser: it consumes the line ending, so the next line is read as part of this one')
        else:
            n += 1
            ctx.ok('R14.10', f, 'one-line parser skips blanks without crossing the line ending', ['space0 / space1 / take_while(!whitespace) only'])
    ctx.floor('R14.10', n, 8, 'one-line parsers')


def run(db, ctx):
    from lm import panics
    roots = C15.entry_points(db)
    seen, ext = db.reach(roots, stop=lambda f: f.crate not in C15.CRATES)
    for f in seen.values():
        if f.crate == 'lightmotif_io':
            ctx.analysed(f)
    r141(db, ctx)
    r142(db, ctx)
    r143(db, ctx)
    r144(db, ctx, seen, ext)
    r145(db, ctx)
    r145b(db, ctx)
    r146(db, ctx)
    r147(db, ctx, roots)
    r1411(db, ctx, roots)
    r1412(db, ctx)
    r1413(db, ctx)
    r1414(db, ctx)
    r148(db, ctx)
    r149(db, ctx)
    r1410(db, ctx)
