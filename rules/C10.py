"""C10 — reverse-complementing a motif mirrors its scores on the opposite strand."""
from lm.db import short
from lm import tables, expr as X, guards as G
from lm.match import norm, m
from . import common

LEVEL_NOTE = ('decides: complement table is an involution with the documented pairs (exhaustive), the four reverse_complement '
              'bodies reverse rows and permute columns by complement and agree with each other; the Python wrapper reaches them. '
              'Not decided: floating-point summation order.')

FAMILY = ['CountMatrix', 'FrequencyMatrix', 'WeightMatrix', 'ScoringMatrix']


def r101(db, ctx):
    ctx.rule('R10.1', 'complement table (exhaustive over the nucleotides) is an involution pairing A-T and C-G and fixing exactly the wildcard')
    n = 0
    for a in common.alphabets(db):
        c = a.get('complement')
        if not c:
            continue
        n += 1
        var, dflt = common.variants(a['adt'])
        try:
            t = tables.decision_table(c)
            tab = tables.fold_over_domain(t, common.is_self_discr, sorted(var.values()))
        except tables.NotTabulable as e:
            ctx.fail('R10.1', c, 'complement', f'reason=unrecognised-shape: {e}')
            continue
        name_of = {d: v for v, d in var.items()}
        comp = {}
        for d, r in tab.items():
            ev = tables.enum_variant(r) if r else None
            comp[name_of[d]] = ev[1] if ev else None
        bad = [v for v in comp if comp.get(comp[v]) != v]
        fixed = [v for v in comp if comp[v] == v]
        if bad:
            ctx.fail('R10.1', c, 'complement involution', f'complement(complement(x)) != x for {bad}: table {comp}')
        elif fixed != [dflt]:
            ctx.fail('R10.1', c, 'complement fixed points', f'fixed points {fixed}, expected exactly the wildcard {dflt}')
        elif a['name'] == 'Dna' and not (comp.get('A') == 'T' and comp.get('C') == 'G'):
            ctx.fail('R10.1', c, 'complement pairs', f'expected A<->T and C<->G, table {comp}')
        else:
            ctx.ok('R10.1', c, f'complement table {comp}', ['involution', f'fixed point = wildcard {dflt}', 'A<->T, C<->G'])
    ctx.floor('R10.1', n, 1, 'ComplementableSymbol impl')
    # ComplementableAlphabet::complement forwards to the symbol method
    for f in db.find(r'ComplementableAlphabet>::complement$'):
        r = common.return_expr_single_path(f)
        rn = norm(r) if r else None
        if rn and m(('call~', 'ComplementableSymbol::complement', (('p', 1),)), rn) is not None:
            ctx.ok('R10.1', f, 'ComplementableAlphabet::complement(s) = s.complement()')
        else:
            ctx.fail('R10.1', f, 'blanket complement', f'does not forward to the symbol complement: {X.show(r) if r else None}')


def _cell_stores(f, R):
    """Cell stores new[ri][as_index(S1)] = <row>[as_index(S2)] of one body: list of (b, bv, s) and a list of unrecognised cell writes."""
    cells, bad = [], []
    for s in X.stores(f, R):
        tn, vn = norm(s['target']), norm(s['value'])
        b = m(('idx', ('call~', 'index_mut', ('$new', '$i')), ('call~', 'as_index', ('$s1',))), tn)
        if b is None:
            continue
        bv = m(('idx', '$row', ('call~', 'as_index', ('$s2',))), vn)
        if bv is None:
            bad.append(s)
            continue
        cells.append((b, bv, s))
    return cells, bad


def _row_loop_range(e):
    """ri/rj expressions range over elem#L(Range{0, N}): return (elem expr, N) for the unique range element mentioned, or None."""
    found = []
    for x in X.walk(e):
        if x[0] == 'elem' and x[1][0] == 'agg' and isinstance(x[1][1], tuple) and x[1][1][0] == 'adt' and x[1][1][1].endswith('range::Range') and len(x[1][2]) == 2:
            if x not in found:
                found.append(x)
    if len(found) != 1:
        return None
    lo, hi = found[0][1][2]
    if not (lo[0] == 'k' and lo[1] == 0):
        return None
    return found[0], hi


def _is_rows(e, mats):
    mm = m(('call~', 'DenseMatrix::rows', ('$m',)), e)
    return mm is not None and mm['$m'] in mats


def _covers_half(N, mats):
    """Does 2*N >= rows hold for every rows >= 0?  -> True / False (provably not, e.g. rows/2) / None (unrecognised)."""
    if _is_rows(N, mats):
        return True
    mm = m(('bin', 'Div', '$a', ('k', 2)), N)
    if mm is not None:
        a = mm['$a']
        if _is_rows(a, mats):
            return False          # floor(rows/2): the middle row of an odd-height matrix is not covered
        la = X.lin(a)
        atoms = [k for k in la if k != '']
        if len(atoms) == 1 and la[atoms[0]] == 1 and la.get('', 0) >= 1:
            # (rows + c)/2 with c >= 1
            for x in X.walk(a):
                if _is_rows(x, mats):
                    return True
    mm = m(('call~', 'div_ceil', ('$a', ('k', 2))), N)
    if mm is not None and _is_rows(mm['$a'], mats):
        return True
    return None


def _summarise_rc_canon(db, ctx, f, R, src_want):
    """Same decision as summarise_rc on the canonical element form: new[I][idx(S1)] = src[J][idx(S2)] with I + J = rows - 1, I covering every
    row, one of S1 / S2 the symbol of a loop over symbols() and the other its complement.  Returns the summary dict, False after reporting a
    violation, or None when this view does not apply either."""
    from lm import iteralg as IA
    CA = IA.Canon(f, R)
    cells = []
    for s_ in X.stores(f, R):
        tc, vc = CA.canon(s_['target']), CA.canon(s_['value'])
        bt = m(('at', ('at', '$new', '$i'), ('call~', 'as_index', ('$s1',))), tc)
        bv = m(('at', ('at', '$src', '$j'), ('call~', 'as_index', ('$s2',))), vc)
        if bt is not None and bv is not None:
            cells.append((bt, bv, s_))
    if len(cells) != 1:
        return None
    bt, bv, s_ = cells[0]

    def sym_kind(e):
        if e[0] == 'at' and e[1][0] == 'call' and e[1][1].endswith('Alphabet::symbols') and IA.is_pos(e[2]):
            ext = CA.extents.get(e[2][1])
            if ext == [('len', e[1])]:
                return ('s', e[2])
        if e[0] == 'call' and e[1].endswith('complement') and len(e[2]) == 1:
            k = sym_kind(e[2][0])
            if k and k[0] == 's':
                return ('c', k[1])
        return None
    k1, k2 = sym_kind(bt['$s1']), sym_kind(bv['$s2'])
    if not k1 or not k2 or k1[1] != k2[1]:
        ctx.fail('R10.2', f, 'column permutation', f'columns are not driven by one loop over all of symbols(): dst {X.show(bt["$s1"], 80)}, src {X.show(bv["$s2"], 80)}', span=s_['span'])
        return False
    if {k1[0], k2[0]} != {'s', 'c'}:
        ctx.fail('R10.2', f, 'column permutation', f'complement applied on {"both sides" if k1[0] == "c" else "neither side"}', span=s_['span'])
        return False
    if norm(bv['$src']) != src_want:
        ctx.fail('R10.2', f, 'source matrix', f'rows are read from {X.show(bv["$src"], 60)}, expected self.data', span=s_['span'])
        return False
    rows_src = ('call', 'lightmotif::dense::DenseMatrix::rows', (bv['$src'],))
    if not X.lin_eq(('bin', 'Add', bt['$i'], bv['$j']), ('bin', 'Sub', rows_src, ('k', 1))):
        ctx.fail('R10.2', f, 'row order', f'destination row {X.show(bt["$i"], 60)} and source row {X.show(bv["$j"], 60)} do not sum to rows-1', span=s_['span'])
        return False
    I = bt['$i']
    ext = CA.extents.get(I[1]) if IA.is_pos(I) else None
    rows_ext = lambda c_: c_ in (('rows', bt['$new']), ('rows', bv['$src'])) or (c_[0] == 'sub' and c_[2] == ('k', 0) and common.is_call_to(c_[1], 'DenseMatrix::rows'))
    if not (ext and all(rows_ext(c_) for c_ in ext)):
        ctx.fail('R10.2', f, 'row coverage', f'reason=unrecognised-shape: destination rows {X.show(I, 60)} over {ext} are not every row', span=s_['span'])
        return False
    newv = norm(bt['$new'])
    ok_new = False
    if newv[0] == 'v':
        d = f.defs().get(newv[1], [])
        if len(d) == 1 and d[0][1] == 'term':
            ne = norm(R.call(d[0][2]))
            if m(('call~', 'DenseMatrix::new', (('call~', 'DenseMatrix::rows', (src_want,)),)), ne) is not None:
                ok_new = True
    if not ok_new:
        ctx.fail('R10.2', f, 'row count', 'the new matrix is not DenseMatrix::new(<source>.rows())', span=s_['span'])
        return False
    return {'direction': k1[0] + k2[0], 'new': newv, 'cells': cells}


def _rc_result(db, ctx, f0, f, via, newv, direction, cells, cover):
    """Common tail of the reverse-complement summary: the filled matrix is what the result is built from, with self's unchanged metadata."""
    if via is not None:
        # the helper returns the matrix it filled (single def of _0, a move/copy of the new matrix, no Rec inlining)
        d0 = f.defs().get(0, [])
        ok_ret = False
        if len(d0) == 1 and d0[0][1] != 'term' and d0[0][2].get('k') == 'use':
            a = d0[0][2]['a']
            pl = a.get('c') or a.get('m') or {}
            ok_ret = pl.get('l') == newv[1] and not pl.get('pr')
        if not ok_ret:
            ctx.fail('R10.2', f, 'helper result', 'reason=unrecognised-shape: helper does not return the matrix it filled by a plain move')
            return None
    # returned value carries the new matrix and unchanged metadata
    ret = None
    for bi, t in f0.calls():
        if t['dest']['l'] == 0 and not t['dest']['pr']:
            ret = (t, norm(X.Rec(f0).call(t)))
    meta_ok = False
    shown = None
    if ret:
        t, rexp = ret
        shown = rexp
        if rexp[0] == 'call':
            args = rexp[2]
            if via is None:
                isnew = lambda a: a == newv
            else:
                hshort = via[1].path
                isnew = lambda a: a[0] == 'call' and (a[3] if len(a) > 3 else a[1]).endswith(hshort.rsplit('::', 1)[-1])
            has_new = any(isnew(a) for a in args)
            others = [a for a in args if not isnew(a)]
            def is_self_meta(a):
                return (m(('fld', ('p', 1), '$f'), a) is not None) or (a[0] == 'call' and a[1].endswith('clone') and m(('fld', ('p', 1), '$f'), a[2][0]) is not None)
            meta_ok = has_new and all(is_self_meta(a) for a in others)
    if meta_ok:
        # every other way the function produces its result (an early `return self.clone()`) must be confined to the empty matrix: for one
        # row the columns still have to be complemented
        R0 = X.Rec(f0)
        for d in f0.defs().get(0, []):
            if d[1] == 'term' and d[2] is ret[0]:
                continue
            bi = d[0]
            val = norm(R0.call(d[2])) if d[1] == 'term' else norm(R0.rvalue(d[2]))
            is_copy = val[0] == 'call' and val[1].endswith('::clone') and X.strip_refs(val[2][0]) == ('p', 1)
            rels = G.relations(f0, R0, bi)
            def is_rows(e):
                e = norm(e)
                return e[0] == 'call' and e[1].rsplit('::', 1)[-1] in ('rows', 'len') and \
                    X.strip_refs(e[2][0]) in (('p', 1), ('fld', ('p', 1), 'data'))
            empty = G.holds(rels, 'eq', is_rows, G.is_const(0)) or G.holds(rels, 'lt', is_rows, G.is_const(1)) or \
                G.holds(rels, 'le', is_rows, G.is_const(0)) or \
                any(r[0] == 'true' and norm(r[1])[0] == 'call' and norm(r[1])[1].endswith('is_empty') and
                    X.strip_refs(norm(r[1])[2][0]) in (('p', 1), ('fld', ('p', 1), 'data')) for r in rels)
            if not (is_copy and empty):
                ctx.fail('R10.2', f0, 'early result', 'the function also returns ' + X.show(val, 100) + ' on a path that is not confined to the empty '
                         'matrix: a matrix with rows keeps its columns uncomplemented (or its rows unreversed) there', span=f0.blocks[bi].get('span'))
                return None
    if not meta_ok:
        ctx.fail('R10.2', f0, 'result construction', f'result is not built from the new matrix and self\'s unchanged metadata: {X.show(shown) if shown else None}')
        return None
    summ = {'rows': 'reversed', 'cols': 'complement-permuted', 'direction': direction, 'ctor': shown[1].rsplit('::', 1)[-1],
            'via': via[1].path if via else None}
    ctx.ok('R10.2', f0, 'new[i][σ(s)] = old[rows-1-i][σ(comp(s))] for every s in symbols() and every row i; rows preserved; metadata carried',
           [('helper ' + via[1].path) if via else 'inline body', f'{len(cells)} cell store(s), coverage {[c[0] for c in cover]}', 'one loop over Alphabet::symbols()', 'R10.1 involution'])
    return summ


def summarise_rc(db, ctx, f0):
    """Relational summary of one reverse_complement body -> canonical dict or None (+ failures reported).
    Accepted designs (all must write every cell of every destination row):
      (a) for (i,row) in self.data.iter().rev().enumerate() { for s in symbols() { new[i][idx s] = row[idx comp s] } }
      (b) index forms new[ri][..] = old[rj][..] with ri + rj = rows-1, ri ranging over 0..rows, or pairwise over 0..N with 2N >= rows
      (c) either of the above in one private helper called with &self.data whose result goes into the constructor."""
    f = f0
    R = X.Rec(f)
    cells, bad = _cell_stores(f, R)
    src_want = ('fld', ('p', 1), 'data')
    via = None
    if not cells and not bad:
        # loop-form independent view (zipped row iterators, `out[..] = row[..]` through iterator elements): lm/iteralg.py
        done = _summarise_rc_canon(db, ctx, f, R, src_want)
        if done is False:
            return None
        if done is not None:
            return _rc_result(db, ctx, f0, f, None, done['new'], done['direction'], done['cells'], [('all',)])
    if not cells and not bad:
        # (c) delegation: exactly one workspace callee receiving &self.data and returning the matrix
        cands = []
        for bi, t in f.calls():
            full = f.callee_short(t) or ''
            if not full.startswith('lightmotif::') or full.startswith('lightmotif::dense::'):
                continue
            e = norm(R.call(t))
            if e[0] == 'call' and any(a == src_want for a in e[2]):
                g = db.fn(full) if full in db.fns else None
                if g is not None:
                    cands.append((t, g, [i for i, a in enumerate(e[2]) if a == src_want][0]))
        if len(cands) == 1:
            t, g, ai = cands[0]
            via = (t, g)
            f = g
            R = X.Rec(f)
            cells, bad = _cell_stores(f, R)
            src_want = ('p', ai + 1)
    if bad:
        s = bad[0]
        ctx.fail('R10.2', f, 'stored value', f'cell written from an unrecognised value {X.show(s["value"], 300)}', span=s['span'])
        return None
    if not cells:
        ctx.fail('R10.2', f0, 'matrix cell store', 'reason=unrecognised-shape: no cell store data[i][sym] = row[sym\'] found in the body or in a helper taking &self.data')
        return None

    def sym_kind(e):
        if e[0] == 'elem' and e[1][0] == 'call' and e[1][1].endswith('Alphabet::symbols'):
            return ('s', e[2])
        if e[0] == 'call' and e[1].endswith('complement') and len(e[2]) == 1:
            k = sym_kind(e[2][0])
            if k and k[0] == 's':
                return ('c', k[1])
        return None

    newvs = {c[0]['$new'] for c in cells}
    if len(newvs) != 1:
        ctx.fail('R10.2', f, 'destination matrix', f'reason=unrecognised-shape: cells are written into {len(newvs)} different matrices')
        return None
    newv = next(iter(newvs))
    mats = [src_want, newv, ('ref', newv), ('ref', src_want)]
    direction = None
    cover = []          # per store: ('all',) | ('low', N) | ('high', N)
    for b, bv, s in cells:
        k1, k2 = sym_kind(b['$s1']), sym_kind(bv['$s2'])
        if not k1 or not k2 or k1[1] != k2[1]:
            ctx.fail('R10.2', f, 'column permutation', f'columns are not driven by one loop over symbols(): dst {X.show(b["$s1"])}, src {X.show(bv["$s2"])}', span=s['span'])
            return None
        if {k1[0], k2[0]} != {'s', 'c'}:
            ctx.fail('R10.2', f, 'column permutation',
                     f'complement applied on {"both sides" if k1[0] == "c" else "neither side"}: new[{X.show(b["$s1"])}] = old[{X.show(bv["$s2"])}]', span=s['span'])
            return None
        direction = k1[0] + k2[0]
        i, row = b['$i'], bv['$row']
        pi = m(('fld', ('elem', '$chain', '$L'), '0'), i)
        pr = m(('fld', ('elem', '$chain', '$L'), '1'), row)
        if pi and pr and pi['$chain'] == pr['$chain'] and pi['$L'] == pr['$L']:
            ch = pi['$chain']
            mm = m(('call~', 'enumerate', (('call~', 'rev', (('call~', 'DenseMatrix::iter', ('$src',)),)),)), ch)
            if not mm:
                ctx.fail('R10.2', f, 'row order', f'rows are not visited in reverse: iterator chain is {X.show(ch, 300)}', span=s['span'])
                return None
            if mm['$src'] != src_want:
                ctx.fail('R10.2', f, 'source matrix', f'rows are read from {X.show(mm["$src"])}, expected self.data', span=s['span'])
                return None
            cover.append(('all',))
            continue
        pj = m(('call~', 'index', ('$src', '$j')), row)
        if pj is None:
            ctx.fail('R10.2', f, 'row order', f'reason=unrecognised-shape: cannot relate destination row {X.show(i)} to source row {X.show(row)}', span=s['span'])
            return None
        if pj['$src'] != src_want:
            ctx.fail('R10.2', f, 'source matrix', f'rows are read from {X.show(pj["$src"])}, expected self.data', span=s['span'])
            return None
        li, lj = X.lin(i), X.lin(pj['$j'])
        tot = dict(li)
        for k_, v in lj.items():
            tot[k_] = tot.get(k_, 0) + v
        tot = {k_: v for k_, v in tot.items() if v != 0}
        rows_atom = [k_ for k_ in tot if k_ != '' and 'rows' in k_]
        if not (tot.get('', 0) == -1 and len(rows_atom) == 1 and tot[rows_atom[0]] == 1 and len(tot) == 2):
            ctx.fail('R10.2', f, 'row order', f'destination row {X.show(i)} and source row {X.show(pj["$j"])} do not sum to rows-1', span=s['span'])
            return None
        rng = _row_loop_range(i)
        if rng is None:
            ctx.fail('R10.2', f, 'row coverage', f'reason=unrecognised-shape: destination row {X.show(i)} does not range over one 0..N loop', span=s['span'])
            return None
        el, N = rng
        atom = X.canon_atom(el)
        nz = {k_: v for k_, v in li.items() if v != 0}
        if nz == {atom: 1}:
            cover.append(('low', N))
        elif nz.get(atom) == -1 and nz.get('', 0) == -1 and len(nz) == 3 and any('rows' in k_ and v == 1 for k_, v in nz.items()):
            cover.append(('high', N))
        else:
            ctx.fail('R10.2', f, 'row coverage', f'reason=unrecognised-shape: destination row index {X.show(i)}', span=s['span'])
            return None
    # coverage of destination rows 0..rows
    full = False
    why = None
    for c in cover:
        if c[0] == 'all' or (c[0] in ('low', 'high') and _is_rows(c[1], mats)):
            full = True
    if not full:
        lows = [c for c in cover if c[0] == 'low']
        highs = [c for c in cover if c[0] == 'high']
        if lows and highs:
            vals = {_covers_half(c[1], mats) for c in lows + highs}
            if vals == {True}:
                full = True
            elif False in vals:
                why = f'rows are filled pairwise for i in 0..{X.show(lows[0][1])}: the middle row of an odd-height matrix is never written (stays uncomplemented / default)'
            else:
                why = f'reason=unrecognised-shape: cannot decide that 0..{X.show(lows[0][1])} and its mirror cover every row'
        else:
            why = f'only rows {"0..N" if lows else "rows-N..rows"} with N = {X.show((lows + highs)[0][1])} are written'
    if not full:
        ctx.fail('R10.2', f, 'row coverage', why, span=cells[0][2]['span'])
        return None
    # new matrix has the row count of the source: DenseMatrix::new(rows(src)) or src.clone()
    ok_new = False
    if newv[0] == 'v':
        d = f.defs().get(newv[1], [])
        if len(d) == 1 and d[0][1] == 'term':
            ne = norm(R.call(d[0][2]))
            if m(('call~', 'DenseMatrix::new', (('call~', 'DenseMatrix::rows', (src_want,)),)), ne) is not None:
                ok_new = True
            mc = m(('call~', 'clone', ('$x',)), ne)
            if mc is not None and mc['$x'] == src_want:
                ok_new = True
    if not ok_new:
        ctx.fail('R10.2', f, 'row count', 'the new matrix is neither DenseMatrix::new(<source>.rows()) nor a clone of the source', span=cells[0][2]['span'])
        return None
    return _rc_result(db, ctx, f0, f, via, newv, direction, cells, cover)


def r102_103(db, ctx):
    ctx.rule('R10.2', 'each reverse_complement writes new[i][idx(s)] = old[rows-1-i][idx(complement(s))] for every symbol, nothing else')
    ctx.rule('R10.3', 'the four reverse_complement bodies have identical relational summaries')
    fam = []
    for nm in FAMILY:
        fs = db.find(rf'^lightmotif::pwm::{nm}::<A>::reverse_complement$')
        fam += fs
    ctx.floor('R10.2', len(fam), 4, 'reverse_complement bodies in lightmotif::pwm')
    sums = {}
    for f in fam:
        s = summarise_rc(db, ctx, f)
        if s:
            sums[f.path] = s
    if len(sums) >= 2:
        ref = None
        for p, s in sums.items():
            key = (s['rows'], s['cols'])
            if ref is None:
                ref = (p, key)
            elif key != ref[1]:
                ctx.fail('R10.3', p, 'sibling deviance', f'summary {key} differs from {ref[0]}: {ref[1]}')
        ctx.ok('R10.3', 'pwm::*::reverse_complement', f'{len(sums)} sibling summaries identical', [str(next(iter(sums.values())))])


def r104(db, ctx):
    ctx.rule('R10.4', 'Python reverse_complement methods call the core method of the same name on the wrapped DNA matrix')
    fs = [f for f in db.find(r'^lightmotif_py::\w+::reverse_complement$') if f.kind == 'AssocFn']
    ctx.floor("R10.4", len(fs), 1, 'Python reverse_complement wrappers')
    for f in fs:
        callee = [f.callee_short(t) for _, t in f.calls()]
        cls = f.path.split('::')[1]
        want = f'lightmotif::pwm::{cls}::reverse_complement'
        if want in callee:
            ctx.ok('R10.4', f, f'calls {want}')
        else:
            ctx.fail('R10.4', f, 'wrapper callee', f'does not call {want}; calls {[c for c in callee if c and "lightmotif::" in c]}')


def run(db, ctx):
    r101(db, ctx)
    r102_103(db, ctx)
    r104(db, ctx)
    # the mirror clause is stated on scores: "the reverse-complemented matrix scores position L - M - i as the matrix scores i" presupposes
    # that a kernel sums *all* M rows of whichever matrix it is given (seed C10-6: an unrolled kernel dropped the last row of even-width
    # motifs — the forward matrix loses row M - 1, the reverse complement loses the complement of row 0, and the mirror breaks)
    from . import C01
    common.shared_rule(db, ctx, C01.kernel_rules, 'R10.5', 'every scoring kernel sums all M rows of the matrix it is given at every position (lane semantics of the '
                       'SIMD kernels and the generic kernel) — shared with R1.1', ['R1.1'])
    from . import C04
    common.shared_rule(db, ctx, C04.lookahead_rules, 'R10.6', 'the look-ahead rows the kernels read for the last positions of either strand are what configure_wrap put there '
                       '(shared with R4.5 / R4.8): the mirror clause pairs the first positions of one strand with the last positions of the other', ['R4.5', 'R4.8'])
    # commutation with the conversions holds because they act on each column independently, with the zero convention per column (seed C10-8: a
    # `break` on the first zero-frequency column left the later columns — the complement of an earlier one — at zero)
    from . import C09
    common.shared_rule(db, ctx, C09.r92, 'R10.7', 'frequency -> weight -> score conversions treat every column on its own: one store per side of the f == 0 test, every column visited '
                       '(shared with R9.2)', ['R9.2'])
    common.shared_rule(db, ctx, C09.r910, 'R10.9', 'rescale acts on every row with the ratio of each cell\'s own column, so it commutes with the reverse complement '
                       '(shared with R9.10; seed C10-10: an iterator of ratios shared between rows left the rows after the first unscaled)', ['R9.10'])
    common.shared_rule(db, ctx, C04.stripe_rules, 'R10.8', 'both strands are scored on striped matrices that are the sequences (shared with R4.1 - R4.4; seed C10-9)', ['R4.1', 'R4.2', 'R4.3', 'R4.4'])
