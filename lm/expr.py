"""E5 core: expression recovery from MIR (single-reaching-definition inlining) and linear normal forms."""
import re
import struct
from fractions import Fraction
from .db import short

INT_TYS = {'u8': (8, False), 'u16': (16, False), 'u32': (32, False), 'u64': (64, False), 'u128': (128, False),
           'usize': (64, False), 'i8': (8, True), 'i16': (16, True), 'i32': (32, True), 'i64': (64, True),
           'i128': (128, True), 'isize': (64, True)}


def const_value(k):
    """Python value of a dumped constant operand (int / float / bool / None)."""
    ty = k.get('ty')
    if 'bits' in k:
        b = int(k['bits'])
        if ty in INT_TYS:
            w, s = INT_TYS[ty]
            if s and b >= 1 << (w - 1):
                b -= 1 << w
            return b
        if ty == 'bool':
            return bool(b)
        if ty == 'f32':
            return struct.unpack('<f', struct.pack('<I', b & 0xFFFFFFFF))[0]
        if ty == 'f64':
            return struct.unpack('<d', struct.pack('<Q', b))[0]
        if ty == 'char':
            return chr(b)
        return b
    return None


class Rec:
    """Expression recovery for one function body."""

    def __init__(self, fn, db=None, depth=40, keep_names=False, ite=False):
        self.keep_names = keep_names
        self.ite = ite      # if-conversion of two-armed conditional assignments (opt-in: changes how multi-def locals are recovered)
        self.fn = fn
        self.db = db
        self.defs = fn.defs()
        self.maxdepth = depth
        self._memo = {}

    # ---- classification of locals
    def at(self, block):
        """A view of this recovery for uses located in `block`: a local with several definitions of which only one can reach `block`
        (the others sit on paths that never get there, e.g. the constant arm of a threaded `a && b`) is recovered from that definition."""
        r = Rec(self.fn, self.db, self.maxdepth, self.keep_names, self.ite)
        r.ctx_block = block
        return r

    def single_def(self, l):
        d = self.defs.get(l, [])
        cb = getattr(self, 'ctx_block', None)
        if len(d) > 1 and cb is not None and not (1 <= l <= self.fn.arg_count) and l not in self.fn.borrowed_mut and not self.fn.partial.get(l) \
                and (self.fn.local_ty(l) == 'bool' or not self.fn.local_name(l)):      # condition variables and compiler temporaries: named user variables keep one spelling everywhere
            # reaching definitions: a definition reaches the use if some path gets there without passing another definition of the local
            own = [x for x in d if x[0] == cb]
            if own:
                live = [own[-1]]          # a definition inside the block of the use (before its terminator) kills every other one
            else:
                live = [x for x in d if self.fn.reaches(x[0], cb, avoid={y[0] for y in d if y[0] != x[0]})]
            if len(live) == 1:
                # the surviving definition must also dominate the use (it is then the value on every path into the block)
                if live[0][0] == cb or self.fn.dominates(live[0][0], cb):
                    return live[0]
        if len(d) != 1:
            return None
        if l in self.fn.borrowed_mut:
            return None
        if 1 <= l <= self.fn.arg_count:
            return None
        # partial writes (field assignment) make it multi-def, except for the
        # tuple produced by *WithOverflow which is never partially written
        if self.fn.partial.get(l):
            return None
        return d[0]

    def local(self, l, depth=0):
        key = l
        if key in self._memo:
            return self._memo[key]
        if depth > self.maxdepth:
            return ('v', l)
        self._memo[key] = ('v', l)  # cycle guard
        if 1 <= l <= self.fn.arg_count and not self.defs.get(l):
            r = ('p', l)
        else:
            d = self.single_def(l)
            if d is None:
                r = (self.if_converted(l, depth) if self.ite else None) or ('v', l)
            else:
                bi, si, x = d
                if si == 'term':
                    r = self.call(x, depth + 1)
                else:
                    r = self.rvalue(x, depth + 1)
                if self.keep_names and self.fn.local_name(l):
                    r = ('named', self.fn.local_name(l), r)
        self._memo[key] = r
        return r

    def if_converted(self, l, depth):
        """A local assigned exactly once in each arm of one two-way branch (`let x = if c { a } else { b }`, a two-arm match on a bool):
        ('ite', c, a, b).  None when the shape is anything else."""
        fn = self.fn
        d = self.defs.get(l, [])
        if len(d) != 2 or l in fn.borrowed_mut or fn.partial.get(l) or (1 <= l <= fn.arg_count):
            return None
        (b1, s1, x1), (b2, s2, x2) = d
        if b1 == b2:
            return None
        dom = fn.dominators()
        common = [b for b in dom.get(b1, ()) if b in dom.get(b2, ()) and b not in (b1, b2)]
        # nearest common dominator = the one dominated by all others
        best = None
        for c in common:
            if all(o in dom.get(c, ()) for o in common):
                best = c
        if best is None:
            return None
        t = fn.term(best)
        if t['k'] != 'switch':
            return None
        eq_val = None
        if t.get('discr_ty') == 'bool':
            if len(t['arms']) != 1 or int(t['arms'][0][0]) != 0:
                return None
            f_tgt, t_tgt = t['arms'][0][1], t['otherwise']
        else:
            # a two-armed `match` on an enum discriminant / integer (`match opt { Some(x) => a, None => b }`): exactly two live targets
            tg = [(int(v), b) for v, b in t['arms']] + [(None, t['otherwise'])]
            live = [(v, b) for v, b in tg if fn.term(b)['k'] != 'unreachable']
            if len(live) != 2 or live[0][1] == live[1][1] or all(v is None for v, _ in live):
                return None
            live.sort(key=lambda x: (-1 if x[0] is None else x[0]))
            (fv, f_tgt), (eq_val, t_tgt) = live
        if f_tgt == t_tgt:
            return None

        def side(b):
            in_t = fn.dominates(t_tgt, b) or b == t_tgt
            in_f = fn.dominates(f_tgt, b) or b == f_tgt
            return 't' if in_t and not in_f else ('f' if in_f and not in_t else None)
        sd1, sd2 = side(b1), side(b2)
        if {sd1, sd2} != {'t', 'f'}:
            return None
        # no loop between the branch and the definitions (each arm executes at most once per evaluation of the branch)
        for L in fn.loops():
            if (b1 in L['body']) != (best in L['body']) or (b2 in L['body']) != (best in L['body']):
                return None
        cond = self.operand(t['discr'], depth + 1)
        if eq_val is not None:
            cond = ('bin', 'Eq', cond, ('k', eq_val))
        v1 = self.call(x1, depth + 1) if s1 == 'term' else self.rvalue(x1, depth + 1)
        v2 = self.call(x2, depth + 1) if s2 == 'term' else self.rvalue(x2, depth + 1)
        return ('ite', cond, v1, v2) if sd1 == 't' else ('ite', cond, v2, v1)

    def place(self, p, depth=0):
        e = self.local(p['l'], depth)
        for pr in p['pr']:
            if pr == '*':
                e = deref(e)
            elif 'f' in pr:
                e = field(e, pr.get('n', str(pr['f'])), pr['f'])
            elif 'idx' in pr:
                e = ('idx', e, self.local(pr['idx'], depth))
            elif 'cidx' in pr:
                e = ('idx', e, ('k', pr['cidx'] if not pr['from_end'] else -pr['cidx'], 'usize'))
            elif 'variant' in pr:
                e = ('down', e, pr.get('vn', str(pr['variant'])))
            elif 'sub_from' in pr:
                e = ('sub', e, pr['sub_from'], pr['sub_to'], pr['from_end'])
            else:
                e = ('proj?', e, str(pr))
        return e

    def operand(self, o, depth=0):
        if 'c' in o:
            return self.place(o['c'], depth)
        if 'm' in o:
            return self.place(o['m'], depth)
        if 'k' in o:
            k = o['k']
            v = const_value(k)
            if v is not None:
                return ('k', v, k.get('ty'))
            if 'fn' in k:
                return ('fnitem', short(k['fn']), k.get('fn_full'))
            if 'closure' in k:
                return ('closure', k['closure'])
            if 'promoted' in k:
                return ('promoted', k['uneval'], k['promoted'])
            if 'uneval' in k:
                ce = const_expr(k['uneval'])
                if ce is not None:
                    return ce
                return ('kc', short_const(k['uneval']), k.get('ty'))
            return ('kc', k.get('text'), k.get('ty'))
        return ('?',)

    def call(self, t, depth=0):
        c = t.get('resolved') or t.get('callee')
        args = tuple(self.operand(a, depth) for a in t['args'])
        if c is None:
            return ('icall', self.operand(t['func'], depth), args)
        sc = short(c)
        if sc.endswith('::next') and len(args) == 1 and ('Iterator' in sc or 'iter' in sc):
            src = self.iter_source(args[0], depth)
            if src is not None:
                return ('next', src[0], src[1])
        return ('call', sc, args, t.get('resolved_full') or t.get('callee_full'))

    def iter_source(self, a, depth=0):
        """`&mut it` where `it` is a for-loop iterator variable: return (source expression, local)."""
        while a[0] in ('ref', 'deref'):
            a = a[1]
        if a[0] != 'v':
            return None
        l = a[1]
        d = self.defs.get(l, [])
        if len(d) != 1 or self.fn.partial.get(l):
            return None
        bi, si, x = d[0]
        src = self.call(x, depth + 1) if si == 'term' else self.rvalue(x, depth + 1)
        # strip IntoIterator::into_iter wrappers
        while src[0] == 'call' and src[1].endswith('into_iter') and len(src[2]) == 1:
            src = src[2][0]
        return src, l

    def rvalue(self, rv, depth=0):
        k = rv['k']
        if k == 'use':
            return self.operand(rv['a'], depth)
        if k == 'ref' or k == 'rawptr':
            return ref(self.place(rv['p'], depth))
        if k == 'cast':
            a = self.operand(rv['a'], depth)
            return ('cast', a, rv['ty'], rv['ck'])
        if k == 'bin':
            op = rv['op']
            # ordered comparisons of floating-point operands are marked (FLt, FLe, FGt, FGe): they are partial — `!(a < b)` is not `a >= b`
            # when an operand is NaN — so a fact taken from the *false* side of such a test must not be turned into the opposite relation
            if op in ('Lt', 'Le', 'Gt', 'Ge') and rv.get('ty') in ('f32', 'f64'):
                op = 'F' + op
            return ('bin', op, self.operand(rv['a'], depth), self.operand(rv['b'], depth))
        if k == 'un':
            op = rv['op']
            a = self.operand(rv['a'], depth)
            if op == 'PtrMetadata':
                return ('len', a)
            return ('un', op, a)
        if k == 'discr':
            return ('discr', self.place(rv['p'], depth))
        if k == 'agg':
            tag = rv.get('ak')
            if tag == 'adt':
                tag = ('adt', short(rv['adt']), rv['variant'], tuple(rv.get('fields', [])))
            elif tag == 'closure':
                tag = ('closure', rv['closure'])
            return ('agg', tag, tuple(self.operand(o, depth) for o in rv['ops']))
        if k == 'repeat':
            return ('repeat', self.operand(rv['a'], depth), rv['n'])
        return ('?', rv.get('text', k))


def field_aliases(fn):
    """Locals that stand for a field of `self` in a method that takes self *by value*: `let mut row = self.row;` after which only the
    local is used.  Returns {local: ('fld', ('p', 1), name)}.  Conditions: parameter 1 is not a reference; the local's first definition is
    a plain copy / move of `self.<name>`, sits outside every loop and dominates every other definition and every use being in blocks it
    dominates; the field is not read or written anywhere else in the body (so the local *is* the field from then on)."""
    if fn.arg_count < 1 or fn.local_ty(1).startswith(('&', '*')):
        return {}
    out = {}
    loops = fn.loops()

    def field_of(rv):
        if rv.get('k') != 'use':
            return None
        pl = rv['a'].get('c') or rv['a'].get('m')
        if pl and pl['l'] == 1 and len(pl['pr']) == 1 and isinstance(pl['pr'][0], dict) and 'f' in pl['pr'][0]:
            return pl['pr'][0].get('n', str(pl['pr'][0]['f']))
        return None

    def mentions_field(node, name):
        if isinstance(node, dict):
            if node.get('l') == 1 and node.get('pr') and isinstance(node['pr'][0], dict) and node['pr'][0].get('n', str(node['pr'][0].get('f'))) == name:
                return 1
            return sum(mentions_field(v, name) for v in node.values())
        if isinstance(node, list):
            return sum(mentions_field(v, name) for v in node)
        return 0
    for l, ds in fn.defs().items():
        if len(ds) < 2 or l in fn.borrowed_mut or fn.partial.get(l) or 1 <= l <= fn.arg_count:
            continue
        first = [d for d in ds if d[1] != 'term' and field_of(d[2]) is not None and not any(d[0] in L['body'] for L in loops)]
        if len(first) != 1:
            continue
        d0 = first[0]
        name = field_of(d0[2])
        if not all(d is d0 or fn.dominates(d0[0], d[0]) for d in ds):
            continue
        total = sum(mentions_field(blk['stmts'], name) + mentions_field(blk['term'], name) for blk in fn.blocks if not blk['cleanup'])
        if total != 1:
            continue
        out[l] = ('fld', ('p', 1), name)
    return out


class AliasRec(Rec):
    """Expression recovery in which a local that caches a field of a by-value `self` is spelled as that field."""

    def __init__(self, fn, db=None, **kw):
        super().__init__(fn, db, **kw)
        self.alias = field_aliases(fn)

    def local(self, l, depth=0):
        if l in self.alias:
            return self.alias[l]
        return super().local(l, depth)

    def at(self, block):
        r = AliasRec.__new__(AliasRec)
        Rec.__init__(r, self.fn, self.db, self.maxdepth, self.keep_names, self.ite)
        r.alias = self.alias
        r.ctx_block = block
        return r

    def alias_stores(self):
        """Re-definitions of an aliased local, as stores to the field it stands for (same dict shape as `stores`)."""
        out = []
        for l, fe in self.alias.items():
            ds = self.defs.get(l, [])
            for bi, si, x in ds:
                if si != 'term' and x.get('k') == 'use' and (x['a'].get('c') or x['a'].get('m') or {}).get('l') == 1:
                    continue            # the initial copy out of self
                rb = self.at(bi) if hasattr(self, 'at') else self
                out.append({'block': bi, 'idx': si, 'target': fe, 'value': rb.call(x) if si == 'term' else rb.rvalue(x), 'span': (x.get('span') if isinstance(x, dict) else None), 'via': 'field-alias'})
        return out


def stores(fn, rec=None):
    """Memory writes through projected places: list of dict(block, target, value, stmt)."""
    rec = rec or Rec(fn)
    out = []
    for bi, blk in enumerate(fn.blocks):
        if blk['cleanup']:
            continue
        rb = rec.at(bi) if hasattr(rec, 'at') else rec      # reaching-definition aware: temporaries set on several paths resolve to the one that reaches
        for si, st in enumerate(blk['stmts']):
            if st['k'] == 'assign' and st['p']['pr']:
                out.append({'block': bi, 'idx': si, 'target': rb.place(st['p']), 'value': rb.rvalue(st['rv']),
                            'span': st.get('span')})
        t = blk['term']
        if t['k'] == 'call' and t['dest']['pr']:
            out.append({'block': bi, 'idx': 'term', 'target': rb.place(t['dest']), 'value': rb.call(t),
                        'span': t.get('span')})
        if t['k'] == 'call' and (t.get('resolved') or t.get('callee') or '').endswith(('core::mem::replace', 'std::mem::replace')) and len(t['args']) == 2:
            # `mem::replace(&mut place, v)` writes v into place (and returns the old value)
            out.append({'block': bi, 'idx': 'term', 'target': ('deref', rb.operand(t['args'][0])), 'value': rb.operand(t['args'][1]),
                        'span': t.get('span'), 'via': 'mem::replace'})
    return out


CONST_DB = None        # set by lm.db.load: the fact base, for the initialisers of workspace constants


_CONST_NEST = [0]


def const_expr(path):
    """Expression abbreviated by a workspace constant with an integer / boolean initialiser (`const KNOWN: usize = A::K::USIZE - 1`): the
    recovered initialiser, or None (not a workspace constant, not a scalar, or not a single-path body)."""
    db = CONST_DB
    if db is None or _CONST_NEST[0] > 3:
        return None
    g = db.fns.get(path)
    if g is None or not str(g.kind).startswith(('Const', 'AssocConst')) or g.promoted_of:
        return None
    ty = g.locals[0].get('ty') if g.locals else None
    if ty not in ('usize', 'u8', 'u16', 'u32', 'u64', 'isize', 'i8', 'i16', 'i32', 'i64', 'bool'):
        return None
    d = g.defs().get(0, [])
    if len(d) != 1 or len(g.exits()) != 1:
        return None
    bi, si, x = d[0]
    R = Rec(g)
    _CONST_NEST[0] += 1
    try:
        return R.call(x) if si == 'term' else R.rvalue(x)
    except Exception:
        return None
    finally:
        _CONST_NEST[0] -= 1


def _last_generic_arg(path, owner):
    """`…::owner::<T, X>::method` -> 'X' (last top-level generic argument of `owner`)."""
    i = path.find(owner + '::<')
    if i < 0:
        return None
    j = i + len(owner) + 3
    depth, start, last = 1, j, None
    k = j
    while k < len(path):
        ch = path[k]
        if ch == '<':
            depth += 1
        elif ch == '>' and path[k - 1] != '-':
            depth -= 1
            if depth == 0:
                last = path[start:k]
                break
        elif ch == ',' and depth == 1:
            start = k + 1
        k += 1
    return last.strip() if last else None


def const_call(callee_short, full):
    """Calls that are spellings of a type-level constant: `<N as Unsigned>::to_usize()` is `<N as Unsigned>::USIZE`, and
    `DenseMatrix::<T, C>::columns()` is `C::USIZE` (dense.rs: `const fn columns(&self) -> usize { C::USIZE }`, checked by R19.4).
    Returns the ('kc', name, 'usize') node, or None."""
    if not full:
        return None
    if callee_short.endswith('Unsigned::to_usize'):
        mm = re.match(r'^<(.*) as ([\w:]+)>::to_usize$', full.strip())
        if mm:
            return ('kc', short_const(f'<{mm.group(1)} as {mm.group(2)}>::USIZE'), 'usize')
    if callee_short == 'lightmotif::dense::DenseMatrix::columns':
        c = _last_generic_arg(full, 'DenseMatrix')
        if c:
            return ('kc', short_const(f'<{c} as typenum::marker_traits::Unsigned>::USIZE'), 'usize')
    return None


def short_const(p):
    """Name of an unevaluated constant.  Associated constants of a trait (`<T as Unsigned>::USIZE`) keep their Self type as a prefix
    `<T>::`: `A::K::USIZE`, `C::USIZE` and `C::Quotient::USIZE` are different quantities and must not compare equal."""
    mm = re.match(r'^<(.*) as ([\w:]+)>::(\w+)$', p.strip())
    if mm:
        self_ty = mm.group(1)
        self_ty = re.sub(r'\b(?:typenum::(?:uint|bit|marker_traits)::|crate::|lightmotif::)', '', self_ty)
        self_ty = re.sub(r'UInt<UInt<UInt<UInt<UInt<UTerm, B1>, B0>, B0>, B0>, B0>', 'U16', self_ty)
        return f'<{self_ty}>::{mm.group(2)}::{mm.group(3)}'
    return short(p)


def names_in(e):
    """User variable names met while inlining (only with Rec(keep_names=True))."""
    return [x[1] for x in walk(e) if x[0] == 'named']


def deref(e):
    if e[0] == 'named':
        return ('named', e[1], deref(e[2]))
    if e[0] == 'ref':
        return e[1]
    return ('deref', e)


def ref(e):
    if e[0] == 'deref':
        return e[1]
    return ('ref', e)


def field(e, name, idx):
    if e[0] == 'named':
        return field(e[2], name, idx)
    # (next(&it) as Some).0  ->  element of the iteration
    if e[0] == 'down' and e[2] == 'Some' and e[1][0] == 'next' and idx == 0:
        return ('elem', e[1][1], e[1][2])
    # (a WithOverflow b).0  ->  a op b
    if e[0] == 'bin' and e[1].endswith('WithOverflow') and idx == 0:
        return ('bin', e[1][:-len('WithOverflow')], e[2], e[3])
    if e[0] == 'bin' and e[1].endswith('WithOverflow') and idx == 1:
        return ('ovf', e)
    if e[0] == 'agg' and isinstance(e[1], str) and e[1] == 'tuple' and idx < len(e[2]):
        return e[2][idx]
    if e[0] == 'agg' and isinstance(e[1], tuple) and e[1][0] == 'adt':
        fields = e[1][3]
        if name in fields:
            return e[2][fields.index(name)]
    return ('fld', e, name)


# ---------------------------------------------------------------------------
# pretty printer

def show(e, maxlen=200):
    s = _show(e)
    return s if len(s) <= maxlen else s[:maxlen] + '…'


def _show(e):
    t = e[0]
    if t == 'k':
        return repr(e[1])
    if t == 'kc':
        return str(e[1])
    if t == 'p':
        return f'arg{e[1]}'
    if t == 'v':
        return f'_{e[1]}'
    if t == 'call':
        return f"{e[1].rsplit('::', 2)[-2] + '::' + e[1].rsplit('::', 1)[-1] if '::' in e[1] else e[1]}({', '.join(_show(a) for a in e[2])})"
    if t == 'bin':
        return f'({_show(e[2])} {e[1]} {_show(e[3])})'
    if t == 'un':
        return f'{e[1]}({_show(e[2])})'
    if t == 'cast':
        return f'({_show(e[1])} as {e[2]})'
    if t == 'fld':
        return f'{_show(e[1])}.{e[2]}'
    if t == 'deref':
        return f'*{_show(e[1])}'
    if t == 'ref':
        return f'&{_show(e[1])}'
    if t == 'idx':
        return f'{_show(e[1])}[{_show(e[2])}]'
    if t == 'len':
        return f'len({_show(e[1])})'
    if t == 'agg':
        tag = e[1] if isinstance(e[1], str) else '::'.join(str(x) for x in e[1][1:3])
        return f"{tag}{{{', '.join(_show(a) for a in e[2])}}}"
    if t == 'down':
        return f'({_show(e[1])} as {e[2]})'
    if t == 'discr':
        return f'discr({_show(e[1])})'
    if t == 'named':
        return f'{e[1]}={_show(e[2])}'
    if t == 'next':
        return f'next#{e[2]}({_show(e[1])})'
    if t == 'elem':
        return f'elem#{e[2]}({_show(e[1])})'
    if t == 'ite':
        return f'(if {_show(e[1])} {{ {_show(e[2])} }} else {{ {_show(e[3])} }})'
    return str(e)


# ---------------------------------------------------------------------------
# structural helpers

def walk(e):
    """Yield every sub-expression (pre-order)."""
    yield e
    for x in e[1:]:
        if isinstance(x, tuple):
            if x and isinstance(x[0], str):
                yield from walk(x)
            else:
                for y in x:
                    if isinstance(y, tuple) and y and isinstance(y[0], str):
                        yield from walk(y)


def strip_casts(e):
    while e[0] == 'cast' and e[3] in ('IntToInt', 'PtrToPtr', 'Transmute', 'PointerCoercion(MutToConstPointer, Implicit)',
                                     'PointerCoercion(MutToConstPointer, AsCast)'):
        e = e[1]
    return e


def strip_refs(e):
    while e[0] in ('ref', 'deref'):
        e = e[1]
    return e


def contains(e, pred):
    return any(pred(x) for x in walk(e))


def calls_in(e, name_suffix):
    return [x for x in walk(e) if x[0] == 'call' and x[1].endswith(name_suffix)]


# ---------------------------------------------------------------------------
# linear normal form over integers:  {atom(str) : Fraction} with '' the constant term

IDENT_SUFFIXES = ('::AsRef::as_ref', '::AsMut::as_mut', '::Into::into', '::From::from', '::Clone::clone',
                  '::Borrow::borrow', '::Deref::deref', '::DerefMut::deref_mut', '::IntoIterator::into_iter')


def is_ident_call(name):
    return name.endswith(IDENT_SUFFIXES)


def canon(e):
    """Canonical string of an expression used as an atom: transparent to refs/derefs/int casts/as_ref."""
    t = e[0]
    if t == 'named':
        return canon(e[2])
    if t in ('ref', 'deref'):
        return canon(e[1])
    if t == 'cast':
        if e[3] in ('IntToInt', 'PtrToPtr') or e[3].startswith('PointerCoercion'):
            return canon(e[1])
        return f'cast[{e[2]}]({canon(e[1])})'
    if t == 'k':
        return repr(e[1])
    if t == 'kc':
        return str(e[1])
    if t == 'p':
        return f'arg{e[1]}'
    if t == 'v':
        return f'_{e[1]}'
    if t == 'call':
        if is_ident_call(e[1]) and len(e[2]) == 1:
            return canon(e[2][0])
        return f"{e[1]}({','.join(canon(a) for a in e[2])})"
    if t == 'bin':
        if e[1] in ('Add', 'Sub', 'Mul', 'AddUnchecked', 'SubUnchecked', 'MulUnchecked'):
            return lin_str(lin(e))
        return f'({canon(e[2])} {e[1]} {canon(e[3])})'
    if t == 'un':
        return f'{e[1]}({canon(e[2])})'
    if t == 'fld':
        return f'{canon(e[1])}.{e[2]}'
    if t == 'idx':
        return f'{canon(e[1])}[{canon(e[2])}]'
    if t == 'len':
        return f'len({canon(e[1])})'
    if t == 'agg':
        return f"agg[{e[1]}]({','.join(canon(a) for a in e[2])})"
    if t == 'down':
        return f'{canon(e[1])}@{e[2]}'
    if t == 'discr':
        return f'discr({canon(e[1])})'
    if t == 'next':
        return f'next({canon(e[1])})'
    if t == 'elem':
        return f'elem({canon(e[1])})'
    if t == 'sub':
        return f'{canon(e[1])}[{e[2]}..{e[3]}{"e" if e[4] else ""}]'
    if t == 'ite':
        return f'ite({canon(e[1])},{canon(e[2])},{canon(e[3])})'
    return str(e)


def lin(e):
    """Linear form dict atom->Fraction ('' = constant). Non-linear sub-terms become atoms."""
    t = e[0]
    if t == 'named':
        return lin(e[2])
    if t in ('ref', 'deref'):
        return lin(e[1])
    if t == 'cast' and (e[3] == 'IntToInt'):
        return lin(e[1])
    if t == 'k' and isinstance(e[1], int) and not isinstance(e[1], bool):
        return {'': Fraction(e[1])}
    if t == 'bin':
        op = e[1].replace('Unchecked', '')
        if op in ('Add', 'Sub'):
            a, b = lin(e[2]), lin(e[3])
            r = dict(a)
            for k, v in b.items():
                r[k] = r.get(k, 0) + (v if op == 'Add' else -v)
            return {k: v for k, v in r.items() if v != 0 or k == ''}
        if op == 'Mul':
            a, b = lin(e[2]), lin(e[3])
            if set(a) <= {''}:
                c = a.get('', 0)
                return {k: v * c for k, v in b.items() if v * c != 0}
            if set(b) <= {''}:
                c = b.get('', 0)
                return {k: v * c for k, v in a.items() if v * c != 0}
            # product of two non-constant: atom (commutative canonical order)
            sa, sb = sorted([lin_str(a), lin_str(b)])
            return {f'({sa})*({sb})': Fraction(1)}
        if op == 'Shl':
            b = lin(e[3])
            if set(b) <= {''}:
                c = 1 << int(b.get('', 0))
                return {k: v * c for k, v in lin(e[2]).items()}
    if t == 'call' and is_ident_call(e[1]) and len(e[2]) == 1:
        return lin(e[2][0])
    return {canon_atom(e): Fraction(1)}


def canon_atom(e):
    t = e[0]
    if t == 'bin' and e[1] in ('Add', 'Sub', 'Mul'):
        return '(' + lin_str(lin(e)) + ')'
    return canon(e)


def lin_str(l):
    parts = []
    for k in sorted(l):
        v = l[k]
        if v == 0:
            continue
        if k == '':
            parts.append(str(v))
        elif v == 1:
            parts.append(k)
        else:
            parts.append(f'{v}*{k}')
    return ' + '.join(parts) if parts else '0'


def lin_eq(a, b):
    la, lb = lin(a), lin(b)
    keys = set(la) | set(lb)
    return all(la.get(k, 0) == lb.get(k, 0) for k in keys)
