"""Check context: rule instances (obligations), violations, known findings, evidence writer."""
import json, os, time, sys, hashlib

VERIF = os.path.dirname(os.path.dirname(os.path.abspath(__file__)))


class Ctx:
    def __init__(self, prop, tier, seed=0):
        self.prop = prop
        self.tier = tier
        self.seed = seed
        self.t0 = time.time()
        self.obligations = []      # dict(rule, fn, site, verdict, premises)
        self.violations = []       # dict(rule, key, fn, construct, why, span)
        self.functions = set()
        self.call_sites = 0
        self.notes = []
        self.floors = {}           # rule -> (found, floor)
        self.assumptions = []
        self.rules_text = {}
        self.extra = {}

    # -- recording
    def rule(self, rid, text):
        self.rules_text[rid] = text

    def analysed(self, fn):
        self.functions.add(fn.path if hasattr(fn, 'path') else str(fn))

    def ok(self, rule, fn, site, premises=()):
        self.obligations.append({'rule': rule, 'fn': _p(fn), 'site': site, 'verdict': 'discharged',
                                 'premises': list(premises)})
        if hasattr(fn, 'path'):
            self.functions.add(fn.path)

    def fail(self, rule, fn, construct, why, span=None, key=None):
        k = key or f'{rule}|{_p(fn)}|{construct}'
        self.obligations.append({'rule': rule, 'fn': _p(fn), 'site': construct, 'verdict': 'VIOLATED', 'premises': [why]})
        self.violations.append({'rule': rule, 'key': k, 'fn': _p(fn), 'construct': construct, 'why': why,
                                'span': span or (fn.span if hasattr(fn, 'span') else None)})
        if hasattr(fn, 'path'):
            self.functions.add(fn.path)

    def floor(self, rule, found, floor, what):
        self.floors[rule] = (found, floor, what)
        if found < floor:
            self.fail(rule, '<anchor>', f'anchor-missing:{what}',
                      f'reason=anchor-missing: rule {rule} found {found} instance(s) of "{what}", hand-confirmed floor is {floor}',
                      key=f'{rule}|anchor-missing|{what}')

    def note(self, s):
        self.notes.append(s)

    # -- finish
    def finish(self, level_note=''):
        known = load_known()
        kn = {e['key']: e for e in known if e.get('status') == 'known' and e['property'] == self.prop}
        real = []
        out_lines = []
        used = set()
        for v in self.violations:
            if v['key'] in kn:
                used.add(v['key'])
                out_lines.append(f"KNOWN-FINDING: property={self.prop} {v['key']} — {kn[v['key']]['what']}")
            else:
                real.append(v)
        os.makedirs(os.path.join(VERIF, 'reports'), exist_ok=True)
        os.makedirs(os.path.join(VERIF, 'evidence'), exist_ok=True)
        if not os.environ.get('LM_NO_EVIDENCE'):
            import glob
            for old_rp in glob.glob(os.path.join(VERIF, 'reports', f'{self.prop}-*.json')):
                os.remove(old_rp)
        for i, v in enumerate(real):
            rp = os.path.join('reports', f'{self.prop}-{i}.json')
            if not os.environ.get('LM_NO_EVIDENCE'):
                with open(os.path.join(VERIF, rp), 'w') as fh:
                    json.dump(v, fh, indent=1)
            out_lines.append(f"  rule={v['rule']} fn={v['fn']} at {v['span']}\n    construct: {v['construct']}\n    why: {v['why']}")
            out_lines.append(f"VIOLATION property={self.prop} replay={rp}")
        n_ob = len(self.obligations)
        n_dis = sum(1 for o in self.obligations if o['verdict'] == 'discharged')
        distinct = len({(o['rule'], o['fn'], o['site']) for o in self.obligations if o['premises'] or o['verdict'] != 'discharged'})
        by_rule = {}
        for o in self.obligations:
            r = by_rule.setdefault(o['rule'], {'instances': 0, 'violated': 0})
            r['instances'] += 1
            if o['verdict'] != 'discharged':
                r['violated'] += 1
        samples = []
        seen_rules = set()
        for o in self.obligations:
            if o['rule'] not in seen_rules or o['verdict'] != 'discharged':
                seen_rules.add(o['rule'])
                samples.append(o)
        samples = samples[:60]
        ev = {
            'property_id': self.prop,
            'tier': self.tier,
            'seed': self.seed,
            'level': 'other',
            'coverage': {
                'explanation': 'Static analysis of the type-checked MIR of /repo (no lightmotif code executed). Rules: '
                               + '; '.join(f'{k}: {v}' for k, v in sorted(self.rules_text.items())),
                'evaluations': n_ob,
                'distinct_nontrivial': distinct,
                'rule': 'one evaluation = one rule instance (rule id, function, site) located in the MIR and decided; '
                        'non-trivial = the verdict needed at least one premise (guard, table, formula, sibling) or is a violation',
                'obligations': n_ob,
                'discharged': n_dis,
                'samples': samples,
                'functions_analysed': len(self.functions),
                'functions': sorted(self.functions)[:400],
                'per_rule': by_rule,
                'instance_floors': {k: {'found': v[0], 'floor': v[1], 'what': v[2]} for k, v in self.floors.items()},
                'known_findings_matched': sorted(used),
                'notes': self.notes,
                'trusted_base': ['rustc nightly front end / MIR construction / layout', 'lmfacts driver serialisation',
                                 'std, nom, pyo3, generic-array contracts'] ,
                'checker_cmd': f'./check {self.prop} --tier {self.tier}',
                'exhaustive': False,
            },
            'assumptions': self.assumptions + ([level_note] if level_note else []),
            'wall_s': round(time.time() - self.t0, 3),
            'violations': len(real),
        }
        ev['coverage'].update(self.extra)
        if not os.environ.get('LM_NO_EVIDENCE'):
            with open(os.path.join(VERIF, 'evidence', f'{self.prop}.json'), 'w') as fh:
                json.dump(ev, fh, indent=1)
        for l in out_lines:
            print(l)
        print(f"[{self.prop}] tier={self.tier} rule-instances={n_ob} discharged={n_dis} violations={len(real)} "
              f"known={len(used)} functions={len(self.functions)} wall={ev['wall_s']}s")
        return 1 if real else 0


def _p(fn):
    return fn.path if hasattr(fn, 'path') else str(fn)


def load_known():
    p = os.path.join(VERIF, 'known_findings.json')
    if not os.path.exists(p):
        return []
    with open(p) as fh:
        return json.load(fh).get('findings', [])
