#!/usr/bin/env python3
"""seedtest.py <seed-dir-or-patch> : apply a seeded change to /repo, run all claimed checks (quick tier) without touching
evidence, revert, and print which checks fire (and which rules)."""
import json, os, re, subprocess, sys
VERIF = os.path.dirname(os.path.dirname(os.path.abspath(__file__)))
patch = os.path.abspath(sys.argv[1])
if os.path.isdir(patch):
    patch = os.path.join(patch, 'patch.diff')
props = [c['property_id'] for c in json.load(open(os.path.join(VERIF, 'MANIFEST.json')))['checks']]
if len(sys.argv) > 2:
    props = sys.argv[2:]
assert subprocess.run(['git', '-C', '/repo', 'status', '--porcelain', '--untracked-files=no'], capture_output=True, text=True).stdout.strip() == '', '/repo not clean'
subprocess.check_call(['git', '-C', '/repo', 'apply', patch])
res = {}
try:
    for p in props:
        r = subprocess.run([os.path.join(VERIF, 'check'), p], capture_output=True, text=True, cwd=VERIF, env=dict(os.environ, LM_NO_EVIDENCE='1'))
        out = r.stdout + r.stderr
        rules = sorted(set(re.findall(r'rule=(\S+)', out)))
        res[p] = (r.returncode, rules)
        if r.returncode != 0:
            first = [l for l in out.splitlines() if 'why:' in l][:2]
            print(f'{p}: FIRES {rules}')
            for l in first:
                print('      ' + l.strip()[:300])
finally:
    subprocess.check_call(['git', '-C', '/repo', 'checkout', '--', '.'])
fired = [p for p, (rc, _) in res.items() if rc != 0]
print('fired:', fired or 'NONE')
print(json.dumps({p: r for p, (rc, r) in res.items() if rc != 0}))
