"""C18 — Python indexing and buffer views expose exactly the logical contents."""
import re
from lm.db import short
from lm import expr as X, guards as G
from lm.match import norm, m
from . import common

LEVEL_NOTE = ('decides: the index that is range-checked is the index that is used; negative normalisation in every __getitem__ with the '
              'length __len__ returns; (extent, stride) pairs of 2-D exports agree with the dense matrix layout; format/itemsize/element type table; '
              'writable requests refused before any field is written; no panic site in these methods. Trusted: CPython buffer machinery, pyo3.')

PY = 'lightmotif_py::'


def pyfns(db, name):
    return sorted([f for f in db.fns.values() if f.crate == 'lightmotif_py' and f.kind == 'AssocFn' and f.path.endswith('::' + name)
                   and f.path.count('::') == 2 and not f.promoted_of], key=lambda f: f.path)


def len_expr(db, cls):
    try:
        f = db.fn(f'{PY}{cls}::__len__')
    except KeyError:
        return None
    e = common.return_expr_single_path_allow(f)
    return norm(e) if e is not None else None


def strip_self(e):
    """canonical text with `slf`/`self` unified."""
    return X.canon(e)


def r189(db, ctx):
    ctx.rule('R18.9', 'no __getitem__ narrows an integer: the index Python passes (isize) and the lengths it is compared with are only ever cast between '
                      '64-bit integer types — a truncating cast (`index as i32`) makes every index congruent to a valid one modulo 2^32 valid too')
    NARROW = ('i8', 'i16', 'i32', 'u8', 'u16', 'u32')
    gs = pyfns(db, '__getitem__')
    n = 0
    for f in gs:
        for g in [f] + list(db.closures_of(f)):
            bad = []
            for bi, blk in enumerate(g.blocks):
                for st in blk['stmts']:
                    if st.get('k') == 'assign' and st['rv'].get('k') == 'cast' and st['rv'].get('ty') in NARROW and not st.get('from_expansion'):
                        bad.append((st['rv'].get('ty'), st.get('span')))
            n += 1
            if bad:
                ctx.fail('R18.9', g, 'narrowing cast', f'cast to {bad[0][0]} in an index computation: indices outside the {bad[0][0]} range alias valid ones instead of raising IndexError', span=bad[0][1])
            else:
                ctx.ok('R18.9', g, 'no narrowing integer cast')
    ctx.floor('R18.9', n, 5, '__getitem__ bodies')


def r181_182(db, ctx):
    ctx.rule('R18.1', 'in every __getitem__ the value passed to the accessor is the value that went through the range test')
    ctx.rule('R18.2', 'every __getitem__ adds the length to a negative index, and the bound used is the quantity __len__ returns')
    gs = pyfns(db, '__getitem__')
    ctx.floor('R18.1', len(gs), 5, '__getitem__ methods')
    for f in gs:
        cls = f.path.split('::')[1]
        R = X.Rec(f)
        L = len_expr(db, cls)
        if L is None:
            ctx.fail('R18.2', f, '__len__', 'reason=anchor-missing: class has no __len__')
            continue
        Lc = strip_self(L)
        # accessor call: the call on the Ok path that consumes an index: <Data>::get(data, i) or Index::index(x, i)
        acc = None
        for bi, t in f.calls():
            c = f.callee_short(t) or ''
            if (c.endswith('::get') and c.startswith(PY)) or c.endswith('ops::index::Index::index'):
                acc = (bi, t)
        if acc is None:
            ctx.fail('R18.1', f, 'accessor', 'reason=unrecognised-shape: no element accessor call')
            continue
        abi, at = acc
        used = norm(R.at(abi).operand(at['args'][1]))      # recovered where it is used: sees through `helper(..)?` plumbing (one reaching definition)
        rels = G.relations(f, R, abi)
        cu = X.canon(used)
        upper = [r for r in rels if (r[0] == 'lt' and X.canon(norm(r[1])) == cu) or (r[0] == 'gt' and X.canon(norm(r[2])) == cu)]
        lower = [r for r in rels if (r[0] == 'ge' and X.canon(norm(r[1])) == cu and norm(r[2]) == ('k', 0)) or
                 (r[0] == 'le' and len(r) > 3 and X.canon(norm(r[2])) == cu and norm(r[1]) == ('k', 0))]
        any_upper = [r for r in rels if r[0] in ('lt', 'gt')]
        if upper:
            bound = norm(upper[0][2] if upper[0][0] == 'lt' else upper[0][1])
            ctx.ok('R18.1', f, f'accessor index {X.show(used, 60)} is the range-checked value', [f'{X.show(used, 40)} < {X.show(bound, 80)}'])
            if strip_self(bound) == Lc:
                ctx.ok('R18.2', f, 'upper bound is the __len__ quantity', [X.show(L, 100)])
            else:
                ctx.fail('R18.2', f, 'upper bound', f'index is tested against {X.show(bound, 100)} but __len__ returns {X.show(L, 100)}')
            # lower bound: unsigned view of a non-negative value: need ge 0 unless the tested value is the usize cast of a value tested >= 0
            if not lower:
                ctx.fail('R18.1', f, 'lower bound', 'the used index is not dominated by a test >= 0')
        else:
            tested = [X.show(norm(r[1]), 40) for r in any_upper]
            ctx.fail('R18.1', f, 'index used is not the index that was range-checked',
                     f'accessor receives {X.show(used, 60)} while the range test is on {tested}: a negative index that was normalised for the test is used raw (panic / wrong element)',
                     span=at['span'])
        # negative normalisation of the *tested* variable
        okn = False
        var = used
        if not upper and any_upper:
            r0 = any_upper[0]
            var = norm(r0[1] if r0[0] == 'lt' else r0[2])
        if var[0] == 'v':
            for (bi, si, rv) in f.defs().get(var[1], []):
                if si == 'term':
                    continue
                v = norm(R.rvalue(rv))
                b = m(('bin', 'Add', var, '$len'), v)
                if b is not None and strip_self(b['$len']) == Lc:
                    rr = G.relations(f, R, bi)
                    if G.holds(rr, 'lt', lambda e: norm(e) == var, lambda e: norm(e) == ('k', 0)):
                        okn = True
        if not okn and var[0] == 'v':
            # expression form: let position = if index < 0 { index + len } else { index };
            ve = norm(X.Rec(f, ite=True).local(var[1]))
            mi = m(('ite', ('bin', 'Lt', '$x', ('k', 0)), ('bin', 'Add', '$x', '$len'), '$x'), ve)
            if mi is not None and strip_self(mi['$len']) == Lc:
                okn = True
        if okn:
            ctx.ok('R18.2', f, 'negative index normalised by adding the length', ['if i < 0 { i += len }'])
        else:
            ctx.fail('R18.2', f, 'no negative-index normalisation',
                     f'the range-checked index ({X.show(var, 40)}) is never `i + len` under `i < 0` (sibling deviance: -len..-1 must address elements)', span=at['span'])


def r183(db, ctx):
    ctx.rule('R18.3', '2-D exports: the dimension whose extent is columns() has byte stride size_of(T), the one whose extent is rows() has stride()*size_of(T)')
    n = 0
    for f in db.fns.values():
        if f.crate != 'lightmotif_py' or f.promoted_of or f.raw.get('derived'):
            continue
        R = None
        for blk in f.blocks:
            for st in blk['stmts']:
                if st['k'] == 'assign' and st['rv']['k'] == 'agg' and st['rv'].get('ak') == 'adt' and 'shape' in st['rv'].get('fields', []) and 'strides' in st['rv'].get('fields', []):
                    R = R or X.Rec(f)
                    ops = dict(zip(st['rv']['fields'], [norm(R.operand(o)) for o in st['rv']['ops']]))
                    sh, sd = ops['shape'], ops['strides']
                    cls = st['rv']['adt'].rsplit('::', 1)[-1]
                    if not (sh[0] == 'agg' and sh[1] == 'array' and sd[0] == 'agg' and sd[1] == 'array' and len(sh[2]) == len(sd[2]) == 2):
                        ctx.fail('R18.3', f, f'{cls} shape/strides', 'reason=unrecognised-shape: not two 2-element array literals')
                        continue
                    ok = True
                    descr = []
                    for d in range(2):
                        ext, strd = sh[2][d], sd[2][d]
                        kind = 'cols' if (ext[0] == 'call' and ext[1].endswith('::columns')) or (ext[0] == 'kc' and str(ext[1]).endswith('Unsigned::USIZE')) \
                            else 'rows' if ext[0] == 'call' and ext[1].endswith('::rows') else None
                        ls = X.lin(strd)
                        atoms = [k for k in ls if k != '']
                        has_stride = any('::stride(' in k for k in atoms)
                        sz = [k for k in atoms if 'size_of' in k]
                        descr.append(f'{kind}:{X.lin_str(ls)[:80]}')
                        if kind == 'cols' and has_stride:
                            ok = False
                        if kind == 'rows' and not has_stride:
                            ok = False
                        if kind is None:
                            ok = False
                    if ok:
                        n += 1
                        ctx.ok('R18.3', f, f'{cls}: extent/stride pairs consistent', descr)
                    else:
                        ctx.fail('R18.3', f, f'{cls}: extent/stride pairing',
                                 f'(extent, byte stride) pairs are {descr}: the columns() dimension must step by one element and the rows() dimension by stride() elements; '
                                 'as written view[i][j] addresses a different cell (foreign memory when rows < K)', span=st.get('span'))
    ctx.floor('R18.3', n, 2, 'consistent 2-D exports')


FMT = {'B': (1, ('u8',)), 'f': (4, ('f32',)), 'd': (8, ('f64',))}


def r184(db, ctx):
    ctx.rule('R18.4', 'format <-> itemsize <-> element type agree; readonly = 1; 1-D exports give len = n*itemsize with null shape/strides; '
                      'writable requests and null views are refused before any field of the view is written')
    gs = pyfns(db, '__getbuffer__')
    ctx.floor('R18.4', len(gs), 5, '__getbuffer__ methods')
    ctx.rule('R18.7', '2-D exports: len = self.shape[0] * self.shape[1] * itemsize (PEP 3118: len is product(shape) * itemsize; never -1, never recomputed '
                      'from a row count that can differ from the cached shape)')
    n7 = [0]
    for f in gs:
        cls = f.path.split('::')[1]
        R = X.Rec(f)
        fields = {}
        first_store_block = None
        for s in X.stores(f, R):
            b = m(('fld', ('p', 2), '$name'), norm(s['target']))
            if b is not None:
                fields[b['$name']] = (s, norm(s['value']))
        probs = []
        # format
        fmt = None
        fv = fields.get('format')
        if fv:
            txt = X.canon(fv[1])
            mm = re.search(r'b\\?"(\w)\\x00\\?"', txt) or re.search(r'b"(\w)\\\\x00"', txt) or re.search(r'b"(\w)', txt)
            fmt = mm.group(1) if mm else None
        if fmt not in FMT:
            probs.append(f'format {fmt!r} not recognised')
        # itemsize
        isz = fields.get('itemsize')
        its = None
        if isz:
            raw = None
            for x in X.walk(isz[0]['value']):
                if x[0] == 'call' and x[1].endswith('mem::size_of'):
                    raw = x[3]
            if raw:
                its = raw[raw.index('size_of::<') + 10:-1]
        size_tab = {'u8': 1, 'f32': 4, 'f64': 8, 'lightmotif::abc::Nucleotide': 1, 'lightmotif::abc::AminoAcid': 1}
        its_const = isz[1][1] if isz and isz[1][0] == 'k' and isinstance(isz[1][1], int) and not isinstance(isz[1][1], bool) else None
        if its is None and its_const is not None:
            # a named constant (`const ITEMSIZE: usize = size_of::<f32>()`) reaches MIR as its evaluated value
            if fmt in FMT and its_const != FMT[fmt][0]:
                probs.append(f'format {fmt!r} ({FMT[fmt][0]} bytes) disagrees with itemsize {its_const}')
            its = f'<const {its_const}>'
            size_tab = dict(size_tab, **{its: its_const})
        elif its not in size_tab:
            probs.append(f'itemsize type {its!r} not recognised')
        elif fmt in FMT and size_tab[its] != FMT[fmt][0]:
            probs.append(f'format {fmt!r} ({FMT[fmt][0]} bytes) disagrees with itemsize size_of::<{its}>() = {size_tab[its]}')
        # element type of the exported pointer
        buf = fields.get('buf')
        ety = None
        if buf:
            for x in X.walk(buf[0]['value']):
                if x[0] == 'v' or x[0] == 'call':
                    pass
            # find the pointer-typed local feeding buf
            tys = []
            for x in X.walk(buf[0]['value']):
                if x[0] == 'call' and x[1].endswith(('::as_ptr',)):
                    full = x[3] if len(x) > 3 else ''
                    tys.append(full)
            # pointer element type: look at local types flowing into the cast
            st = buf[0]
            blk = f.blocks[st['block']]
            rv = blk['stmts'][st['idx']]['rv'] if st['idx'] != 'term' else None
            src_ty = rv.get('from') if rv and rv['k'] == 'cast' else None
            if src_ty is None and rv and rv['k'] == 'use':
                pl = rv['a'].get('m') or rv['a'].get('c')
                if pl:
                    # follow one cast back
                    for (bi, si, d) in f.defs().get(pl['l'], []):
                        if si != 'term' and d['k'] == 'cast':
                            src_ty = d.get('from')
            ety = src_ty
        ok_ety = ety is not None and fmt in FMT and any(ety.replace('*const ', '').replace('*mut ', '') == t for t in FMT[fmt][1])
        if not ok_ety:
            probs.append(f'buffer pointer type {ety!r} does not match format {fmt!r}')
        # readonly
        ro = fields.get('readonly')
        if not ro or ro[1] != ('k', 1):
            probs.append('readonly is not set to 1')
        # ndim / shape / strides / len
        nd = fields.get('ndim')
        ndv = nd[1][1] if nd and nd[1][0] == 'k' else None
        ln = fields.get('len')
        if ndv == 1:
            for k in ('shape', 'strides'):
                v = fields.get(k)
                if not v or not (v[1][0] == 'call' and v[1][1].endswith('ptr::null_mut')):
                    probs.append(f'1-D export with non-null {k}')
            if ln:
                l = X.lin(ln[1])
                atoms = [k for k in l if k != '']
                if fmt in FMT and FMT[fmt][0] > 1:
                    if not (len(atoms) == 1 and 'size_of' in atoms[0] and 'len' in atoms[0]):
                        probs.append(f'1-D len {X.show(ln[1], 80)} is not n*itemsize')
                else:
                    if not (len(atoms) == 1 and 'len' in atoms[0] and l[atoms[0]] == 1):
                        probs.append(f'1-D len {X.show(ln[1], 80)} is not the element count')
        elif ndv == 2:
            for k in ('shape', 'strides'):
                v = fields.get(k)
                if not v or not (v[1][0] == 'call' and v[1][1].endswith('as_mut_ptr') and X.canon(v[1]).find('.' + k) >= 0):
                    probs.append(f'2-D export: {k} does not point at the object\'s own {k} array')
            # R18.7: len = shape[0] * shape[1] * itemsize, with the extents read from the exported shape array itself
            p7 = []
            if not ln:
                p7.append('len is never set')
            else:
                def factors(e):
                    if e[0] == 'bin' and e[1] in ('Mul', 'MulUnchecked'):
                        return factors(e[2]) + factors(e[3])
                    return [e]
                fs = factors(ln[1])
                ext = [x for x in fs if m(('idx', ('fld', ('p', 1), 'shape'), ('k', '$d')), x) is not None]
                dims = sorted(m(('idx', ('fld', ('p', 1), 'shape'), ('k', '$d')), x)['$d'] for x in ext)
                rest = [x for x in fs if x not in ext]
                szs = []
                for x in X.walk(ln[0]['value']):
                    if x[0] == 'call' and x[1].endswith('mem::size_of') and len(x) > 3:
                        szs.append(x[3][x[3].index('size_of::<') + 10:-1])
                sz_ok = (len(rest) == 1 and rest[0][0] == 'call' and rest[0][1].endswith('mem::size_of') and len(szs) == 1 and fmt in FMT
                         and size_tab.get(szs[0]) == FMT[fmt][0]) or (not rest and fmt in FMT and FMT[fmt][0] == 1) \
                    or (len(rest) == 1 and rest[0][0] == 'k' and fmt in FMT and rest[0][1] == FMT[fmt][0])   # evaluated named constant
                if dims != [0, 1]:
                    p7.append(f'len is {X.show(ln[1], 100)}: not the product of the two exported extents self.shape[0] * self.shape[1] '
                              '(consumers such as bytes()/tobytes() allocate `len` bytes and fill product(shape)*itemsize of them)')
                elif not sz_ok:
                    p7.append(f'len is {X.show(ln[1], 100)}: the item-size factor is missing or is not size_of of the exported element type')
            if p7:
                ctx.fail('R18.7', f, f'{cls} buffer length', '; '.join(p7), span=ln[0]['span'] if ln else None)
            else:
                n7[0] += 1
                ctx.ok('R18.7', f, f'{cls}: len = shape[0] * shape[1] * size_of::<{szs[0] if szs else "u8"}>()')
        else:
            probs.append(f'ndim {ndv}')
        # refusals dominate every store to the view
        sblocks = {s['block'] for s, _ in fields.values()}
        for sb in sblocks:
            rels = G.relations(f, R, sb)
            nn = any(r[0] == 'false' and r[1][0] == 'call' and r[1][1].endswith('is_null') for r in rels)
            # writable requests refused: continue only under (flags & W) != W, or (flags & W) == 0 (W is the single bit PyBUF_WRITABLE)
            wr = any(r[0] == 'ne' and 'BitAnd' in X.canon(r[1]) for r in rels) or \
                any(r[0] == 'eq' and 'BitAnd' in X.canon(r[1]) and norm(r[2]) == ('k', 0) for r in rels)
            if not (nn and wr):
                probs.append('a field of the view is written on a path that did not pass the null-view / writable-request refusals')
                break
        if probs:
            ctx.fail('R18.4', f, f'{cls} buffer export', '; '.join(probs))
        else:
            ctx.ok('R18.4', f, f'{cls}: format {fmt!r}, itemsize size_of::<{its}>, pointer {ety}, ndim {ndv}, readonly',
                   ['refusals dominate all view writes'])
    ctx.floor('R18.7', n7[0], 3, '2-D buffer exports with len = product(shape) * itemsize')


def r185(db, ctx):
    ctx.rule('R18.5', '__len__ returns rows for matrices, the number of valid positions for scores, the symbol count for sequences')
    want = {'CountMatrix': '::rows', 'WeightMatrix': '::rows', 'ScoringMatrix': '::rows', 'StripedScores': 'StripedScores::max_index', 'EncodedSequence': '::len'}
    n = 0
    for cls, suf in want.items():
        L = len_expr(db, cls)
        if L is not None and L[0] == 'call' and L[1].endswith(suf):
            n += 1
            ctx.ok('R18.5', f'{PY}{cls}::__len__', f'returns {X.show(L, 80)}')
        else:
            ctx.fail('R18.5', f'{PY}{cls}::__len__', '__len__ source', f'expected a call ending in {suf}, got {X.show(L, 80) if L else None}')
    ctx.floor('R18.5', n, 5, '__len__ methods')
    # data-enum helpers rows()/len()/get() forward to the wrapped value for both alphabets
    for f in db.find(r'^lightmotif_py::\w+Data::(rows|columns|stride|len|get)$'):
        R = X.Rec(f)
        nm = f.name
        callee = {('matrix' if c and c.endswith('::matrix') else c.rsplit('::', 1)[-1]) for c in (f.callee_short(t) for _, t in f.calls()) if c}
        okc = (nm in callee) or (nm == 'get' and any(c in ('index',) for c in callee))
        if okc:
            ctx.ok('R18.5', f, f'{nm} forwards to the wrapped {nm}')
        else:
            ctx.fail('R18.5', f, 'forwarding helper', f'{nm}() does not reach a callee named {nm}: {sorted(callee)}')


FRESH_CORE = ('lightmotif::seq::EncodedSequence::to_striped', 'lightmotif::pli::Stripe::stripe', 'lightmotif::pli::Pipeline::stripe',
              'lightmotif::seq::StripedSequence::sample', 'lightmotif::seq::StripedSequence::new')


def _is_fresh_producer(db, name, depth=0):
    """A callee whose result is a newly striped sequence (no look-ahead rows yet): core striping entry points, or a workspace function
    all of whose returned values come from such a call (checked by provenance of its return place)."""
    from lm import prov
    if any(name == c or name.startswith(c + '::<') or name.startswith(c) for c in FRESH_CORE):
        return True
    if depth > 3 or name not in db.fns:
        return False
    g = db.fns[name]
    if g.crate != 'lightmotif_py':
        return False
    R = X.Rec(g)
    tops = prov.top_producers(g, R, ('v', 0))
    return bool(tops) and all(x[0] == 'call' and _is_fresh_producer(db, x[1], depth + 1) for x in tops)


def r186(db, ctx):
    from lm import prov
    ctx.rule('R18.6', 'StripedSequence caches its exported shape at construction while scoring later appends look-ahead rows to the wrapped matrix: '
                      'either the cached row extent is rows() - wrap(), or every construction receives freshly striped data (no look-ahead rows yet)')
    cls = 'lightmotif_py::StripedSequence'
    ctors = []
    for f in db.fns.values():
        if f.crate != 'lightmotif_py' or f.promoted_of or f.raw.get('derived'):
            continue
        for blk in f.blocks:
            for st in blk['stmts']:
                if st['k'] == 'assign' and st['rv']['k'] == 'agg' and st['rv'].get('ak') == 'adt' and st['rv'].get('adt') == cls and 'shape' in st['rv'].get('fields', []):
                    R = X.Rec(f)
                    ops = dict(zip(st['rv']['fields'], [norm(R.operand(o)) for o in st['rv']['ops']]))
                    ctors.append((f, ops, st))
    ctx.floor('R18.6', len(ctors), 1, 'aggregate constructions of lightmotif_py::StripedSequence')
    # is the wrapped matrix ever grown after construction?  (configure / configure_wrap reachable on .data)
    grows = [f.path for f in db.fns.values() if f.crate == 'lightmotif_py' and any((f.callee_short(t) or '').startswith('lightmotif::seq::StripedSequence') and
             (f.callee_short(t) or '').endswith(('::configure', '::configure_wrap')) for _, t in f.calls())]
    if not grows:
        ctx.ok('R18.6', cls, 'the wrapped striped matrix is never reconfigured from Python: the cached shape cannot go stale')
        return
    for f, ops, st in ctors:
        sh = ops['shape']
        rows_ext = [x for x in (sh[2] if sh[0] == 'agg' else ()) if 'rows' in X.canon(x)]
        if len(rows_ext) != 1:
            ctx.fail('R18.6', f, 'cached shape', 'reason=unrecognised-shape: no single rows extent in the shape array')
            continue
        l = X.lin(rows_ext[0])
        atoms = {k: v for k, v in l.items() if k != ''}
        minus_wrap = any('wrap' in k and v == -1 for k, v in atoms.items()) and any('rows' in k and v == 1 for k, v in atoms.items()) and len(atoms) == 2
        if minus_wrap:
            ctx.ok('R18.6', f, 'cached row extent is rows() - wrap(): independent of look-ahead rows')
            continue
        if f.kind != 'AssocFn' or 'From' not in f.path:
            ctx.fail('R18.6', f, 'constructor', 'reason=unrecognised-shape: StripedSequence is built outside its From impl with a raw rows() extent')
            continue
        # every call of this From impl (directly or through Into::into) must pass freshly striped data
        sites = []
        for g in db.fns.values():
            if g.crate != 'lightmotif_py' or g.promoted_of or g.raw.get('derived'):
                continue
            for bi, t in g.calls():
                cf = t.get('callee_full') or ''
                ga = t.get('gargs') or []
                c = t.get('callee') or ''
                if (c.endswith('convert::From::from') and ga[:1] == [cls]) or (c.endswith('convert::Into::into') and ga[1:2] == [cls]):
                    sites.append((g, t))
        ctx.floor('R18.6', len(sites), 1, 'call sites constructing a Python StripedSequence')
        for g, t in sites:
            R = X.Rec(g)
            arg = R.operand(t['args'][0])
            tops = prov.top_producers(g, R, arg)
            prods = sorted(x[1] for x in tops if x[0] == 'call')
            stale = [x for x in tops if x[0] != 'call']
            if prods and all(_is_fresh_producer(db, c) for c in prods) and not stale:
                ctx.ok('R18.6', g, f'StripedSequence::from({X.show(norm(arg), 80)}): freshly striped data', prods)
            else:
                what = X.show(stale[0][1], 80) if stale else X.show(norm(arg), 100)
                ctx.fail('R18.6', g, 'StripedSequence::from(existing data)',
                         f'the shape cached by From is computed from rows() of {what}, which may already carry look-ahead rows appended by configure() '
                         f'(reachable from {grows[0]}): a memoryview of the new object would expose padding rows and mis-map [column][row]', span=t.get('span'))


def run(db, ctx):
    r181_182(db, ctx)
    r189(db, ctx)
    r183(db, ctx)
    r184(db, ctx)
    r185(db, ctx)
    r186(db, ctx)
    # an empty matrix has no row 0: the buffer exports must take the dangling-pointer branch exactly then (seed C18-8 tested shape[0], which is the
    # lane count for the striped classes)
    from . import C17
    common.shared_rule(db, ctx, C17.r176, 'R18.8', 'no undischarged panic site in the binding (buffer exports of empty matrices, index normalisation) — shared with R17.6', ['R17.6'])
