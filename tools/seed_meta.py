#!/usr/bin/env python3
"""seed_meta.py [seed-id ...]: (re)run every claimed check against each archived seeded change (applied to /repo, reverted straight after)
and record in its meta.json which checks/rules detect it; also fills `needs_to_manifest` from the hand-written table below."""
import json, os, re, subprocess, sys
VERIF = os.path.dirname(os.path.dirname(os.path.abspath(__file__)))
NEEDS = {
 'seed-C01-1': 'the same StripedSequence configured twice with increasing motif width (configure(&short) then configure(&long)); a fresh sequence configured once is unaffected',
 'seed-C02-1': 'a window whose discretised column scores sum above 255 (exact or near consensus occurrence) together with a threshold that scales to a non-trivial u8 cut-off',
 'seed-C03-1': 'two positions within 8-bit rounding noise of the top score, the lower-exact/higher-u8 one visited first and installed through the Some(hit) branch',
 'seed-C04-1': 'AVX2 (C = 32) stripe_into on a buffer that already holds a non-empty striped sequence, with a new sequence of length 0',
 'seed-C05-1': 'AVX2 encoder, len >= 32, an invalid byte exactly at offset 32k+31 of a vectorised block and no invalid byte in a later block or the scalar tail',
 'seed-C06-1': 'AVX2 striping of >= 2 blocks (L >= 2017) where the last column holds >= 32 symbols but fewer than 32*floor(rows/32): L in 2017..=2047, 4100, 10007; functionally invisible (over-read lands in padding cells), needs a guard page / valgrind',
 'seed-C07-1': '8-bit scores on the AVX2 argmax arm with a matrix maximum >= 128 whose column also holds a cell < 128, or a maximum not in row 0',
 'seed-C08-1': 'a finite wildcard (N/X) score above the row minimum and a window containing the wildcard symbol; matrices from the normal pipeline have N = -inf',
 'seed-C09-1': 'a matrix cell with non-zero frequency under a zero background (wildcard N/X in a motif instance, a wildcard pseudocount, or a custom background with a zero entry), scored through the two-step to_weight().to_scoring() route',
 'seed-C10-1': 'a motif of odd width whose centre row is not complement-symmetric (row[A] != row[T] or row[C] != row[G]); even widths and double reverse-complement are unaffected',
 'seed-C14-1': 'a raw JASPAR count above 2^24 that f32 cannot represent (16777217, 180247301, ...); smaller counts are exact',
 'seed-C15-1': 'a TRANSFAC DT / RN-with-xref / RX line missing its terminating dot with no other dot later in the record buffer (truncated file): Reader::next() panics via unreachable!()',
 'seed-C16-1': 'Zoops mode past the inertia phase, recruiting a non-seed sequence that contains the wildcard symbol N/X (its wildcard count never reaches the background)',
 'seed-C17-1': 'a PSSM with a strand-asymmetric background whose score distribution was already cached (pvalue/score/score_distribution used) before reverse_complement(), then a meme p-value on the reverse complement',
 'seed-C18-1': 'stripe, score or scan with a motif of length >= 2 (appends look-ahead rows), then copy() / copy.copy() and a memoryview of the copy',
 'seed-C19-1': 'a multi-step resize sequence that grows within the existing capacity (new(8), write, resize(2), resize(6); or reserve(k) then resize(<=k)): the re-exposed rows keep stale / uninitialised contents',
}
ids = sys.argv[1:] or sorted(d for d in os.listdir(os.path.join(VERIF, 'seeded')) if os.path.isdir(os.path.join(VERIF, 'seeded', d)))
for sid in ids:
    d = os.path.join(VERIF, 'seeded', sid)
    r = subprocess.run([sys.executable, os.path.join(VERIF, 'tools', 'seedtest.py'), d], capture_output=True, text=True)
    last = r.stdout.strip().splitlines()[-1]
    fired = json.loads(last)
    meta = json.load(open(os.path.join(d, 'meta.json')))
    meta['detected_by'] = {p: [x for x in rules] for p, rules in fired.items()}
    meta['detected_by_own_property_check'] = meta['property'] in fired
    meta['checks_run'] = 'all claimed properties, quick tier, via tools/seedtest.py (git -C /repo apply; ./check <id>; git -C /repo checkout -- .)'
    if sid in NEEDS:
        meta['needs_to_manifest'] = NEEDS[sid]
    json.dump(meta, open(os.path.join(d, 'meta.json'), 'w'), indent=1)
    print(sid, meta['property'], '->', fired or 'MISSED')
