#!/usr/bin/env python3
"""why.py <root-regex> <target-substring>...: show one call path from roots to each target (debug aid)."""
import sys, re; sys.path.insert(0,'/verif')
from lm import extract, db
from collections import deque
d,_,_=extract.extract(); D=db.load(d)
roots=[f for f in D.fns.values() if re.search(sys.argv[1], f.path) and not f.promoted_of]
pred={}; q=deque(roots); seen={r.path for r in roots}
while q:
    f=q.popleft()
    for c,full,res,tr in D.edges(f):
        for t in D.resolve_targets(c,full,res,tr):
            if t.path not in seen:
                seen.add(t.path); pred[t.path]=(f.path,c,full,res); q.append(t)
    for cl in D.closures_of(f):
        if cl.path not in seen: seen.add(cl.path); pred[cl.path]=(f.path,'closure',None,True); q.append(cl)
print(len(seen),'reachable')
for tg in sys.argv[2:]:
    ps=[p for p in seen if tg in p][:1]
    for p in ps:
        print(p[:120])
        while p in pred:
            a=pred[p]; print('   <-',a[0][:80],'| via',a[1][:50],'|',(a[2] or '')[:110],a[3]); p=a[0]
