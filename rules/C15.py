"""C15 — motif file readers never panic or hang on malformed input (E7 inventory + E2/E3/E4 rules)."""
import re
from lm.db import short
from lm import expr as X, guards as G, panics, tables
from lm.match import norm, m
from . import common

LEVEL_NOTE = ('decides: every potential panic site in workspace bodies reachable from the 8 reader entry points is inventoried and must be '
              'discharged by a re-verified proof rule (guard, enumerate-of-same, symbol-index, nonempty-by-producer, table agreement, '
              'suffix-length, buffer-offset invariant, ...) or is reported; no Incomplete-producing nom parser is reachable; tag tables agree; '
              'every read loop has an EOF exit. Trusted: nom and std do not panic or loop on their own; BufRead returns 0 consistently at end of input.')

CRATES = {'lightmotif_io', 'lightmotif'}


def entry_points(db):
    out = []
    for f in db.fns.values():
        if f.crate != 'lightmotif_io' or f.kind != 'AssocFn' or f.promoted_of:
            continue
        if re.search(r'Reader::<B(, A)?>::new$', f.path) or (f.path.endswith('::next') and 'Reader<' in f.path and 'Iterator' in f.path):
            out.append(f)
    return sorted(out, key=lambda f: f.path)


# ---------------------------------------------------------------------------
# discharge rules: each returns a one-line reason (str) or None

def symbol_ty(f, e):
    """Is e = as_index(symbol)?"""
    e = norm(e)
    return e[0] == 'call' and e[1].endswith('Symbol::as_index')


def d_const_div(f, s, R, db):
    if s['kind'] in ('assert:div_zero', 'assert:rem_zero'):
        blk = f.blocks[s['block']]
        # the divisor is the operand tested; find the Div statement following: operand b
        t = s['term']
        for st in f.blocks[t['target']]['stmts']:
            if st['k'] == 'assign' and st['rv']['k'] == 'bin' and st['rv']['op'] in ('Div', 'Rem'):
                b = R.operand(st['rv']['b'])
                if b[0] == 'k' and isinstance(b[1], int) and b[1] != 0:
                    return f'const-divisor: divides by the constant {b[1]}'
    return None


def d_symbol_index(f, s, R, db):
    """bounds assert `as_index(sym) < len(row)` where row is a K-wide row / K-long vector of the same alphabet."""
    t = s['term']
    if s['kind'] == 'assert:bounds':
        ln, idx = R.operand(t['ops'][0]), R.operand(t['ops'][1])
        if symbol_ty(f, idx):
            l = norm(ln)
            if l[0] == 'len' and l[1][0] in ('v', 'p'):
                ty = f.local_ty(l[1][1])
                if 'GenericArray<' in ty and 'Alphabet>::K' in ty:
                    return 'symbol-index: Symbol::as_index() < K = length of a GenericArray<_, A::K>'
            # a slice view (`&done`, `done.as_slice()`, a helper's `&[bool]` parameter after inlining) of vec![_; K::USIZE]
            if l[0] == 'len':
                base = l[1]
                for _ in range(4):
                    base = X.strip_refs(norm(base))
                    if base[0] == 'call' and base[1].endswith(('Deref::deref', 'DerefMut::deref_mut', '::as_slice', '::as_mut_slice', 'AsRef::as_ref')) and len(base[2]) == 1:
                        base = base[2][0]
                        continue
                    if base[0] == 'cast' and len(base) > 1:
                        base = base[1]
                        continue
                    if base[0] == 'v':
                        ds = f.defs().get(base[1], [])
                        if len(ds) == 1 and ds[0][1] == 'term':
                            e = norm(R.call(ds[0][2]))
                            if e[0] == 'call' and e[1].endswith('from_elem') and len(e[2]) == 2 and e[2][1][0] == 'kc' and 'USIZE' in str(e[2][1][1]) and 'Alphabet>::K' in str(e[2][1][1]):
                                return 'symbol-index: Symbol::as_index() < K = length of vec![_; K::USIZE] (through a slice view)'
                        if len(ds) == 1 and ds[0][1] != 'term':
                            base = R.rvalue(ds[0][2])
                            continue
                    break
            row_of = None
            if l[0] == 'len' and l[1][0] == 'call' and l[1][1].endswith(('::index_mut', '::index')):
                row_of = l[1][2][0]
            elif l[0] == 'len':
                # a row drawn from the matrix' row iterator (`for (row, x) in matrix.iter_mut().zip(..)`)
                from lm import iteralg as IA
                cr = IA.Canon(f, R).canon(l[1])
                if cr[0] == 'at' and cr[1][0] in ('v', 'p') and 'DenseMatrix<' in f.local_ty(cr[1][1]):
                    row_of = cr[1]
            if row_of is not None:
                recv = row_of
                ty = type_of(f, recv)
                if ty and 'DenseMatrix<' in ty and ('Alphabet>::K' in ty):
                    return 'symbol-index: Symbol::as_index() < K = width of a DenseMatrix<_, A::K> row (R5.1: discriminants < K)'
                if ty and 'DenseMatrix<' in ty:
                    width = common.typenum(last_generic_arg(ty[ty.index('DenseMatrix<'):].split('>,')[0] + '>') or '') if False else None
                    dm = ty[ty.index('lightmotif::dense::DenseMatrix<'):]
                    # cut the balanced DenseMatrix<...> prefix
                    depth = 0
                    for i, ch in enumerate(dm):
                        if ch == '<':
                            depth += 1
                        elif ch == '>' and dm[i - 1] != '-':
                            depth -= 1
                            if depth == 0:
                                dm = dm[:i + 1]
                                break
                    width = common.typenum(last_generic_arg(dm) or '')
                    full = ''
                    for x in X.walk(R.operand(t['ops'][1])):
                        if x[0] == 'call' and x[1].endswith('Symbol::as_index') and len(x) > 3:
                            full = x[3] or ''
                    for a in common.alphabets(db):
                        if a.get('symbol_ty') and a['symbol_ty'] in full and a['K'] == width:
                            return f'symbol-index: {a["symbol_ty"].rsplit("::", 1)[-1]}::as_index() < {width} = width of the DenseMatrix row (R5.1)'
    if s['kind'] == 'call:generic-index':
        recv, idx = R.operand(t['args'][0]), R.operand(t['args'][1])
        if symbol_ty(f, idx):
            r = norm(recv)
            # vec![x; K::USIZE]
            if r[0] == 'v':
                for (bi, si, d) in f.defs().get(r[1], []):
                    if si == 'term':
                        e = norm(R.call(d))
                        if e[0] == 'call' and e[1].endswith('from_elem') and e[2][1][0] == 'kc' and 'USIZE' in str(e[2][1][1]):
                            return 'symbol-index: Symbol::as_index() < K = length of vec![_; K::USIZE]'
    return None


def _elem_ty(ty):
    """Element type of a slice / array / Vec type string (None if not one of these)."""
    ty = ty.strip()
    for pre in ('&mut ', '&'):
        if ty.startswith(pre):
            ty = ty[len(pre):].strip()
    if ty.startswith('[') and ty.endswith(']'):
        inner = ty[1:-1]
        depth = 0
        for i, ch in enumerate(inner):
            depth += ch in '<[('
            depth -= ch in '>])'
            if ch == ';' and depth == 0:
                return inner[:i].strip()
        return inner.strip()
    for head in ('alloc::vec::Vec<', 'generic_array::GenericArray<'):
        if ty.startswith(head) and ty.endswith('>'):
            break
    else:
        head = None
    if head:
        inner = ty[len(head):-1]
        depth = 0
        for i, ch in enumerate(inner):
            depth += ch in '<[('
            depth -= ch in '>])'
            if ch == ',' and depth == 0:
                return inner[:i].strip()
        return inner.strip()
    return None


def type_of(f, e):
    e = norm(e)
    if e[0] in ('v', 'p'):
        return f.local_ty(e[1])
    if e[0] == 'idx':
        bt = type_of(f, e[1])
        et = _elem_ty(bt) if bt else None
        if et:
            return et
    # a matrix reached through Option::unwrap / as_mut / deref chains: type of the innermost local that mentions it
    for x in X.walk(e):
        if x[0] in ('v', 'p') and ('DenseMatrix<' in f.local_ty(x[1]) or 'GenericArray<' in f.local_ty(x[1])):
            return f.local_ty(x[1])
    return None


def d_enumerate_of_same(f, s, R, db):
    """matrix[i] where i enumerates a collection whose length equals rows(matrix)."""
    if s['kind'] != 'call:generic-index':
        return None
    t = s['term']
    recv, idx = norm(R.operand(t['args'][0])), norm(R.operand(t['args'][1]))
    ty = type_of(f, recv)
    if not (ty and 'DenseMatrix<' in ty):
        return None
    b = m(('fld', ('elem', ('call~', 'enumerate', ('$coll',)), '$L'), '0'), idx)
    if b is None:
        return None
    coll = b['$coll']
    # length-preserving adapters between the collection and enumerate()
    while coll[0] == 'call' and coll[1].endswith(('::iter', 'into_iter', '::iter_mut', 'Iterator::copied', 'Iterator::cloned', '::as_slice', 'Iterator::rev')) and len(coll[2]) == 1:
        coll = coll[2][0]
    cc = X.canon(coll)
    # (a) guard: len(coll) == rows(matrix) dominates
    rels = G.relations(f, R, s['block'])
    for r in rels:
        if r[0] == 'eq':
            a, bb = X.canon(r[1]), X.canon(r[2])
            for x, y in ((a, bb), (bb, a)):
                if 'len(' in x and cc in x and 'DenseMatrix::rows' in y and X.canon(recv) in y:
                    return 'enumerate-of-same: i enumerates a vector whose length was tested equal to matrix.rows()'
    # (b) matrix = DenseMatrix::new(len(coll))
    if recv[0] == 'v':
        for (bi, si, d) in f.defs().get(recv[1], []):
            if si == 'term':
                e = norm(R.call(d))
                if e[0] == 'call' and e[1].endswith('DenseMatrix::new') and 'len(' in X.canon(e[2][0]) and cc in X.canon(e[2][0]):
                    return 'enumerate-of-same: matrix created with as many rows as the enumerated vector'
    return None


def last_generic_arg(ty):
    """Last top-level generic argument of `Path<.., X>`."""
    if not ty or not ty.endswith('>'):
        return None
    depth = 0
    for i in range(len(ty) - 1, -1, -1):
        c = ty[i]
        if c == '>' and ty[i - 1] != '-':
            depth += 1
        elif c == '<':
            depth -= 1
            if depth == 0:
                return ty[i + 1:-1].strip()
        elif c == ',' and depth == 1:
            return ty[i + 1:-1].strip()
    return None


def generic_array_len(ty):
    if ty and 'GenericArray<' in ty:
        a = last_generic_arg(ty)
        return common.typenum(a) if a else None
    return None


def _nl(e):
    """Normalise an index / length expression for the linear prover: `x.len()` calls become ('len', x); slices views are transparent."""
    e = norm(e)
    if not isinstance(e, tuple) or not e or not isinstance(e[0], str):
        return e
    if e[0] == 'call' and len(e[2]) == 1 and e[1].endswith(('::len',)) and not e[1].endswith(('StripedSequence::len', 'ScoringMatrix::len')):
        return ('len', _nl(e[2][0]))
    if e[0] == 'call' and len(e[2]) == 1 and e[1].endswith(('::as_slice', '::as_mut_slice', 'Vec::deref', 'Vec::deref_mut', 'AsRef::as_ref', 'Borrow::borrow')):
        return _nl(e[2][0])
    out = [e[0]]
    for x in e[1:]:
        if isinstance(x, tuple) and x and isinstance(x[0], str):
            out.append(_nl(x))
        elif isinstance(x, tuple):
            out.append(tuple(_nl(y) if isinstance(y, tuple) else y for y in x))
        else:
            out.append(x)
    return tuple(out)


def d_linear_bounds(f, s, R, db):
    """x[i] (bounds assert, or Index on a Vec / DenseMatrix) where  i < bound  follows by linear arithmetic (Fourier-Motzkin) from
    the ranges of the loop variables in i (`0..n`, positions of `enumerate`), the definition of `min`, and the dominating comparisons."""
    from lm import linprove as LP
    t = s['term']
    sub_goal = None
    if s['kind'] == 'assert:overflow:Sub':
        # a - b cannot underflow when a >= b follows from the dominating comparisons (e.g. `Ok(n) if n > 0 => n - 1`)
        a_, b_ = _nl(R.operand(t['ops'][0])), _nl(R.operand(t['ops'][1]))
        bound, idx = a_, b_
        sub_goal = LP.lin_sub(X.lin(a_), X.lin(b_))
    elif s['kind'] == 'assert:bounds':
        bound, idx = _nl(R.operand(t['ops'][0])), _nl(R.operand(t['ops'][1]))
    elif s['kind'] == 'call:generic-index' and len(t['args']) == 2:
        recv, idx = _nl(R.operand(t['args'][0])), _nl(R.operand(t['args'][1]))
        ty = type_of(f, norm(R.operand(t['args'][0]))) or ''
        if not ty:
            # the receiver operand is a temporary reference: its declared type is the type of the indexed collection
            pl = t['args'][0].get('m') or t['args'][0].get('c')
            if pl and not pl['pr']:
                ty = f.local_ty(pl['l'])
        if idx[0] == 'agg':
            return None          # range indexing is handled elsewhere
        if 'DenseMatrix<' in ty:
            bound = ('call', 'lightmotif::dense::DenseMatrix::rows', (recv,))
        elif ty.startswith(('alloc::vec::Vec<', '&alloc::vec::Vec<', '&mut alloc::vec::Vec<', '[', '&[', '&mut [')) and 'Range' not in ty:
            bound = ('len', recv)
        else:
            return None
    else:
        return None
    hyps = []

    def add_le(a, b, strict=False):           # a <= b  (or a < b)
        h = LP.lin_sub(X.lin(b), X.lin(a))
        hyps.append(LP.lin_addc(h, -1) if strict else h)
    seen = set()
    for e in (idx, bound):
        for x in X.walk(e):
            if x in seen:
                continue
            seen.add(x)
            if x[0] == 'elem' and x[1][0] == 'agg' and isinstance(x[1][1], tuple) and x[1][1][1].endswith('ops::range::Range') and len(x[1][2]) == 2:
                lo, hi = x[1][2]
                add_le(lo, x)
                add_le(x, hi, strict=True)
            mm = m(('fld', ('elem', ('call~', 'Iterator::enumerate', ('$it',)), '$L'), '0'), x)
            if mm is not None:
                it = mm['$it']
                while it[0] == 'call' and len(it[2]) == 1 and it[1].endswith(('::iter', '::iter_mut', 'into_iter')):
                    it = it[2][0]
                add_le(('k', 0), x)
                add_le(x, ('len', it), strict=True)
            if x[0] == 'call' and x[1].endswith(('Ord::min', 'cmp::min')) and len(x[2]) == 2:
                add_le(x, x[2][0])
                add_le(x, x[2][1])
            if x[0] == 'len' or (x[0] == 'call' and x[1].endswith('DenseMatrix::rows')):
                add_le(('k', 0), x)
    for r in G.relations(f, R, s['block']):
        if r[0] not in ('eq', 'lt', 'le', 'gt', 'ge') or len(r) < 3:
            continue
        a, b = _nl(r[1]), _nl(r[2])
        if r[0] == 'eq':
            add_le(a, b); add_le(b, a)
        elif r[0] == 'lt':
            add_le(a, b, strict=True)
        elif r[0] == 'le':
            add_le(a, b)
        elif r[0] == 'gt':
            add_le(b, a, strict=True)
        elif r[0] == 'ge':
            add_le(b, a)
    # single-definition locals in the bound that were created with a known size: DenseMatrix::new(n) has n rows
    for x in X.walk(bound):
        if x[0] == 'call' and x[1].endswith('DenseMatrix::rows') and x[2][0][0] == 'v':
            ds = f.defs().get(x[2][0][1], [])
            if len(ds) == 1 and ds[0][1] == 'term':
                de = _nl(R.call(ds[0][2]))
                if de[0] == 'call' and de[1].endswith('DenseMatrix::new') and len(de[2]) == 1:
                    add_le(de[2][0], x); add_le(x, de[2][0])
    goal = LP.lin_addc(LP.lin_sub(X.lin(bound), X.lin(idx)), -1)      # bound - idx - 1 >= 0
    if sub_goal is not None:
        try:
            # only with an actual dominating comparison: ranges alone never justify a subtraction
            if any(r[0] in ('lt', 'le', 'gt', 'ge', 'eq') for r in G.relations(f, R, s['block'])) and LP.entails(hyps, sub_goal):
                return f'linear: {X.show(bound, 40)} >= {X.show(idx, 30)} entailed by the dominating comparisons, so the subtraction cannot underflow'
        except Exception:
            return None
        return None
    try:
        if LP.entails(hyps, goal):
            return f'linear bounds: {X.show(idx, 40)} < {X.show(bound, 50)} entailed by the loop ranges and dominating comparisons (Fourier-Motzkin)'
    except Exception:
        return None
    return None


def d_widening_sum(f, s, R, db):
    """total += x as usize  over the cells of one matrix row: the sum of at most K values below 2^32 cannot overflow a 64-bit accumulator
    (K = alphabet size, at most 2^32 for every alphabet — the workspace alphabets have 5 and 21 symbols).  std's `Iterator::sum` carries
    the same overflow check; writing the sum as a loop only makes it visible."""
    if s['kind'] != 'assert:overflow:Add':
        return None
    from lm import iteralg as IA
    t = s['term']
    ops = t['ops']
    pl = [o.get('m') or o.get('c') for o in ops]
    if len(pl) != 2 or not all(p and not p['pr'] for p in pl):
        return None
    for acc, add in ((pl[0]['l'], pl[1]['l']), (pl[1]['l'], pl[0]['l'])):
        if f.local_ty(acc) not in ('usize', 'u64'):
            continue
        ads = f.defs().get(add, [])
        if len(ads) != 1 or ads[0][1] == 'term' or ads[0][2].get('k') != 'cast' or ads[0][2].get('ck') != 'IntToInt' or ads[0][2].get('from') not in ('u8', 'u16', 'u32'):
            continue
        ds = f.defs().get(acc, [])
        if len(ds) != 2 or acc in f.borrowed_mut or f.partial.get(acc):
            continue
        loops_of = lambda b: [L for L in f.loops() if b in L['body']]
        Ls = loops_of(s['block'])
        if not Ls:
            continue
        L = min(Ls, key=lambda L_: len(L_['body']))
        init = [d for d in ds if d[0] not in L['body']]
        upd = [d for d in ds if d[0] in L['body']]
        if len(init) != 1 or len(upd) != 1 or init[0][1] == 'term' or upd[0][1] == 'term':
            continue
        if norm(R.rvalue(init[0][2])) != ('k', 0):
            continue
        # re-initialised for every pass: the initialisation sits in exactly the loops that enclose this one
        if {L_['header'] for L_ in loops_of(init[0][0])} != {L_['header'] for L_ in Ls} - {L['header']}:
            continue
        # the update stores the checked sum of this assert: acc = (acc + x).0
        u = upd[0][2]
        src = (u.get('a') or {}).get('m') or (u.get('a') or {}).get('c') if u.get('k') == 'use' else None
        cond = t['cond'].get('m') or t['cond'].get('c')
        if not (src and cond and src['l'] == cond['l']):
            continue
        C = IA.Canon(f, R)
        e = C.canon(R.operand(ops[1] if acc == pl[0]['l'] else ops[0]))
        if not (e[0] == 'at' and IA.is_pos(e[2])):
            continue
        ext = C.extents.get(e[2][1])
        hdr = common.loop_of_elem(f, ('elem', None, e[2][1])) if not isinstance(e[2][1], tuple) else (e[2][1][1] if e[2][1][0] == 'while' else None)
        if hdr != L['header'] or not (ext and len(ext) == 1 and ext[0] == ('len', e[1])):
            continue
        row = e[1]
        mty = type_of(f, row[1]) if row[0] == 'at' else None
        if not (mty and 'DenseMatrix<' in mty and 'Alphabet>::K' in mty):
            continue
        ks = [a_['K'] for a_ in common.alphabets(db) if a_.get('K')]
        if ks and max(ks) < 2 ** 32:
            return (f'widening-sum: at most K additions of values < 2^32 into a 64-bit accumulator starting from 0 '
                    f'(one pass over a row of K cells; K <= {max(ks)} for the {len(ks)} workspace alphabets)')
    return None


def d_const_index(f, s, R, db):
    if s['kind'] == 'assert:bounds':
        t = s['term']
        ln, idx = norm(R.operand(t['ops'][0])), norm(R.operand(t['ops'][1]))
        if idx[0] == 'k' and isinstance(idx[1], int) and ln[0] == 'len':
            ty = type_of(f, ln[1])
            n = generic_array_len(ty.lstrip('&') if ty else None)
            if n is not None and idx[1] < n:
                return f'const-index: {idx[1]} < {n} (GenericArray length)'
    return None


def producers_nonempty(db, callee_fn, param_index):
    """All uses of `callee_fn`: direct calls must pass a provably non-empty vector; uses as a value must be
    `map_res(many1(..), callee)`. Returns (ok, why)."""
    uses = []
    for g in db.fns.values():
        if g.crate not in CRATES or g.promoted_of:
            continue
        R = None
        for bi, t in g.calls():
            c = t.get('resolved') or t.get('callee')
            if c == callee_fn.path:
                uses.append(('call', g, bi, t))
            for ai, a in enumerate(t['args']):
                k = a.get('k')
                if k and k.get('fn') == callee_fn.path:
                    uses.append(('value', g, bi, t, ai))
    if not uses:
        return False, 'no producer found'
    for u in uses:
        if u[0] == 'value':
            _, g, bi, t, ai = u
            c = short(t.get('resolved') or t.get('callee') or '')
            R = X.Rec(g)
            if c.endswith('nom::combinator::map_res'):
                first = norm(R.operand(t['args'][0]))
                if first[0] == 'call' and first[1].endswith('nom::multi::many1'):
                    continue
                return False, f'{g.path}: passed to map_res over {X.show(first, 60)} (not many1)'
            return False, f'{g.path}: used as a value by {c}'
        else:
            _, g, bi, t = u
            R = X.Rec(g)
            arg = norm(R.operand(t['args'][param_index]))
            rels = G.relations(g, R, bi)
            ok = False
            for r in rels:
                if r[0] == 'false' and r[1][0] == 'call' and r[1][1].endswith('is_empty') and X.canon(r[1][2][0]) == X.canon(arg):
                    ok = True
                if r[0] == 'ne' and common.is_len_of(r[1]) and X.canon(arg) in X.canon(r[1]) and norm(r[2]) == ('k', 0):
                    ok = True
            if not ok:
                return False, f'{g.path}: direct call with a vector not known to be non-empty'
    return True, f'{len(uses)} producer(s): nom many1 (>= 1 element)'


def d_nonempty_param(f, s, R, db):
    """param[0] on a Vec parameter: guarded in the callee, or every producer guarantees >= 1 element."""
    if s['kind'] != 'call:generic-index':
        return None
    t = s['term']
    recv, idx = norm(R.operand(t['args'][0])), norm(R.operand(t['args'][1]))
    if not (recv[0] == 'p' and idx == ('k', 0)):
        return None
    rels = G.relations(f, R, s['block'])
    for r in rels:
        if r[0] == 'false' and r[1][0] == 'call' and r[1][1].endswith('is_empty') and norm(r[1][2][0]) == recv:
            return 'guarded: !input.is_empty() dominates input[0]'
    ok, why = producers_nonempty(db, f, recv[1] - 1)
    if ok:
        return 'nonempty-by-producer: ' + why
    s['why'] = why
    return None


def d_guarded_unwrap(f, s, R, db):
    """unwrap of Iterator::max/min over the rows of a matrix dominated by rows != 0."""
    if s['kind'] != 'call:unwrap':
        return None
    a = norm(R.operand(s['term']['args'][0]))
    if a[0] == 'call' and a[1].endswith(('Iterator::max', 'Iterator::min', 'Iterator::max_by', 'Iterator::min_by')):
        src = X.canon(a)
        rels = G.relations(f, R, s['block'])
        for r in rels:
            if r[0] == 'ne' and norm(r[2]) == ('k', 0) and common.is_call_to(r[1], 'DenseMatrix::rows'):
                recv = norm(r[1])[2][0]
                if X.canon(recv) in src:
                    return 'guarded: rows() != 0 dominates .max().unwrap() over the rows'
    return None


def str_literals_compared(f, R):
    """String literals a function compares a value against (match on &str)."""
    out = set()
    for bi, t in f.calls():
        c = f.callee_short(t) or ''
        if c.endswith(('::eq', '::ne')) and ('str' in (t.get('callee_full') or '') or 'str' in c):
            for a in t['args']:
                e = R.operand(a)
                for x in X.walk(e):
                    v = common.str_const(x) if x[0] == 'kc' else None
                    if v is not None:
                        out.add(v)
    return out


def str_table_members(db, f, R):
    """String literals of a constant table the function tests membership in (`const TAGS: [&str; N] = [..]; TAGS.contains(&x)`)."""
    out = set()
    for bi, t in f.calls():
        c = f.callee_short(t) or ''
        if c.endswith('slice::contains') and t['args']:
            for x in X.walk(R.operand(t['args'][0])):
                if x[0] == 'promoted':
                    try:
                        for el in tables.promoted_array(db, x[1], x[2]):
                            v = common.str_const(el)
                            if v is not None:
                                out.add(v)
                    except tables.NotTabulable:
                        pass
    return out


def tag_literals(f, R):
    out = set()
    for bi, t in f.calls():
        c = f.callee_short(t) or ''
        if c.endswith('nom::bytes::complete::tag'):
            for a in t['args']:
                v = common.str_const(R.operand(a))
                if v is not None:
                    out.add(v)
    return out


def d_table_agreement(f, s, R, db):
    if s['kind'] != 'panic:unreachable':
        return None
    if f.path.endswith('parse::parse_datekind'):
        arms = str_literals_compared(f, R)
        tags = tag_literals(f, R)
        if arms and arms == tags:
            return f'table-agreement: match arms {sorted(arms)} = alt tags'
        s['why'] = f'arms {sorted(arms)} vs tags {sorted(tags)}'
    if f.path.endswith('parse::parse_record') or f.path.endswith('parse::parse_record::<A>'):
        arms = str_literals_compared(f, R)
        try:
            pt = db.fn('lightmotif_io::transfac::parse::parse_tag')
        except KeyError:
            return None
        acc = str_literals_compared(pt, X.Rec(pt)) | str_table_members(db, pt, X.Rec(pt))
        # the scrutinee of the match must be parse_tag's result
        uses_tag = any((f.callee_short(t) or '').endswith('parse::parse_tag') for _, t in f.calls())
        if uses_tag and acc and acc <= arms:
            return f'table-agreement: parse_tag accepts {len(acc)} tags, all handled by parse_record ({len(arms)} arms)'
        s['why'] = f'parse_tag accepts {sorted(acc - arms)} that parse_record does not handle'
    return None


def reachable_streaming(db, seen, ext):
    bad = []
    for c, users in ext.items():
        if '::streaming::' in c and c.startswith('nom::'):
            bad.append((c, sorted(users)))
    return bad


def d_no_incomplete(f, s, R, db, ctxinfo):
    if s['kind'] == 'panic:unreachable' and 'From<nom::internal::Err' in f.path:
        if not ctxinfo['streaming']:
            return 'table-agreement: no nom streaming (Incomplete-producing) parser is reachable from the readers (R15.2)'
        s['why'] = 'Incomplete can be produced by ' + ', '.join(c for c, _ in ctxinfo['streaming'])
    return None


def field_of_self(e, name):
    e = norm(e)
    return m(('fld', ('p', 1), name), e) is not None or (e[0] == 'fld' and e[2] == name and e[1][0] in ('v', 'p'))


def offset_invariant(db, fam):
    """Buffer-offset invariant of the two JASPAR readers: `start <= buffer.len()` is preserved by every writer of `start`.
    Returns (ok, reasons/why)."""
    why = []
    nx = [f for f in db.fns.values() if f.path.startswith(f'<lightmotif_io::{fam}::Reader<') and f.path.endswith('Iterator>::next') and f.kind == 'AssocFn']
    nw = [f for f in db.fns.values() if re.search(rf'^lightmotif_io::{fam}::Reader::<B(, A)?>::new$', f.path)]
    if len(nx) != 1 or len(nw) != 1:
        return False, ['reader bodies not found']
    f = nx[0]
    R = X.Rec(f)
    writes = [s for s in X.stores(f, R) if m(('fld', ('p', 1), 'start'), norm(s['target'])) is not None]
    kinds = []
    for w in writes:
        v = norm(w['value'])
        if v == ('k', 0):
            # must be paired with copy_within(start.., 0) + truncate(len - start)
            calls = [(f.callee_short(t) or '') for _, t in f.calls()]
            if any(c.endswith('copy_within') for c in calls) and any(c.endswith('Vec::truncate') for c in calls):
                kinds.append('reset-after-compaction')
            else:
                why.append('start = 0 without compaction')
        else:
            b = m(('bin', 'Add', ('fld', ('p', 1), 'start'), ('bin', 'Sub', ('call~', 'str::len', ('$text',)), ('call~', 'str::len', ('$rest',)))), v)
            if b is not None and is_suffix_of(f, R, b['$rest'], b['$text']) and text_is_tail(f, R, b['$text']):
                kinds.append('advance-by-consumed')
            else:
                why.append(f'start assigned {X.show(w["value"], 120)} (not start + len(text) - len(rest) with rest a suffix of the parsed text)')
    # new(): start = read_until(..).unwrap_or(1).saturating_sub(1)  <= bytes read
    g = nw[0]
    RG = X.Rec(g)
    agg = None
    for blk in g.blocks:
        for st in blk['stmts']:
            if st['k'] == 'assign' and st['rv']['k'] == 'agg' and st['rv'].get('ak') == 'adt' and 'start' in st['rv'].get('fields', []):
                agg = dict(zip(st['rv']['fields'], [norm(RG.operand(o)) for o in st['rv']['ops']]))
    if agg is None:
        why.append('Reader aggregate not found in new()')
    else:
        sv = agg['start']
        b = m(('call~', 'saturating_sub', (('call~', 'Result::unwrap_or', (('call~', 'read_until', ('_', '_', '$buf')), ('k', 1))), ('k', 1))), sv)
        if b is None and sv[0] == 'v':
            # match form: start = match read_until(..) { Ok(n) if n > 0 => n - 1, _ => 0 }: every definition is 0 or (bytes read) - 1
            vals = []
            for bi, si, x in g.defs().get(sv[1], []):
                vals.append(norm(RG.call(x) if si == 'term' else RG.rvalue(x)))
            okv = bool(vals)
            for v_ in vals:
                if v_ == ('k', 0):
                    continue
                mm = m(('bin', 'Sub', ('fld', ('down', ('call~', 'read_until', ('_', '_', '$buf')), 'Ok'), '0'), ('k', '$c')), v_)
                if mm is None:
                    mm = m(('call~', 'saturating_sub', (('fld', ('down', ('call~', 'read_until', ('_', '_', '$buf')), 'Ok'), '0'), ('k', '$c'))), v_)
                if mm is None or not (isinstance(mm['$c'], int) and mm['$c'] >= 0):
                    okv = False
            if okv:
                b = {}
        if b is None:
            why.append(f'new(): start = {X.show(sv, 100)} is not read_until(..).unwrap_or(1).saturating_sub(1) (nor 0 / bytes read - 1 on every path)')
        else:
            kinds.append('init-within-bytes-read')
    ok = not why and 'advance-by-consumed' in kinds and 'init-within-bytes-read' in kinds
    return ok, (kinds if ok else why)


def is_suffix_of(f, R, rest, text):
    """rest = (parse(text) as Ok).0.0 — the remaining input returned by a nom parser applied to text."""
    r = norm(rest)
    b = m(('fld', ('fld', ('down', ('call~', 'parse::record', ('$t',)), 'Ok'), '0'), '0'), r)
    if b is None:
        return False
    return X.canon(b['$t']) == X.canon(text)


def text_is_tail(f, R, text):
    """text = from_utf8(bytes).ok where bytes is a sub-slice of self.buffer starting at self.start."""
    t = norm(text)
    b = m(('fld', ('down', ('call~', 'from_utf8', ('$bytes',)), 'Ok'), '0'), t)
    if b is None:
        return False
    by = b['$bytes']
    if by[0] != 'v':
        return False
    for (bi, si, d) in f.defs().get(by[1], []):
        e = norm(R.call(d) if si == 'term' else R.rvalue(d))
        ok = m(('call~', '::index', (('fld', ('p', 1), 'buffer'), '$rng')), e)
        if ok is None:
            return False
        rng = ok['$rng']
        starts = [x for x in X.walk(rng) if m(('fld', ('p', 1), 'start'), x) is not None]
        if not starts:
            return False
    return True


def d_offset_sites(f, s, R, db, ctxinfo):
    """Sites of the JASPAR readers that rest on the invariant start <= buffer.len()."""
    mm = re.match(r'^<lightmotif_io::(jaspar16|jaspar)::Reader<', f.path)
    if not mm or not f.path.endswith('Iterator>::next'):
        return None
    fam = mm.group(1)
    inv_ok, inv = ctxinfo['offset_inv'][fam]
    t = s['term']
    k = s['kind']
    if k == 'call:generic-index':
        recv, rng = norm(R.operand(t['args'][0])), norm(R.operand(t['args'][1]))
        if m(('fld', ('p', 1), 'buffer'), recv) is None:
            return None
        if rng[0] == 'agg' and isinstance(rng[1], tuple) and rng[1][1].endswith('RangeFrom') and m(('fld', ('p', 1), 'start'), rng[2][0]) is not None:
            return ('offset-invariant: buffer[start..] with start <= buffer.len() ' + str(inv)) if inv_ok else None
        b = m(('call~', 'RangeInclusive::new', (('fld', ('p', 1), 'start'), ('bin', 'Add', ('fld', ('p', 1), 'start'), '$n'))), rng)
        if b is not None and 'read_until' in X.canon(b['$n']):
            rels = G.relations(f, R, s['block'])
            nz = G.holds(rels, 'ne', lambda e: X.canon(e) == X.canon(b['$n']), lambda e: norm(e) == ('k', 0))
            if not nz:
                # `match n { 0 => .., _ => buffer[start..=start + n] }`
                nz = next((r for r in rels if r[0] == 'switch' and X.canon(r[1]) == X.canon(b['$n']) and
                           ((r[2][0] == 'notin' and 0 in r[2][1]) or (r[2][0] == 'eq' and r[2][1] != 0))), None)
            if inv_ok and nz:
                return ('reasoned: buffer[start..=start+n] after read_until appended n > 0 bytes: len = len_before + n and start < len_before, because a parse '
                        'cannot consume the trailing delimiter and a fully consumed buffer only occurs at end of input where n == 0 (trusted: stable EOF)')
    if k == 'call:copy_within':
        a = [norm(R.operand(x)) for x in t['args']]
        if common.is_tail_range(a[1], lambda e: m(('fld', ('p', 1), 'start'), norm(e)) is not None, ('fld', ('p', 1), 'buffer')) and a[2] == ('k', 0):
            return 'offset-invariant: copy_within(start.., 0) with start <= len' if inv_ok else None
    if k == 'assert:overflow:Sub':
        a, b = norm(R.operand(t['ops'][0])), norm(R.operand(t['ops'][1]))
        if a[0] == 'call' and a[1].endswith('Vec::len') and m(('fld', ('p', 1), 'start'), b) is not None:
            return 'offset-invariant: buffer.len() - start with start <= len' if inv_ok else None
        if a[0] == 'call' and a[1].endswith('str::len') and b[0] == 'call' and b[1].endswith('str::len') and is_suffix_of(f, R, b[2][0], a[2][0]):
            return 'suffix-length: len(text) - len(rest) where rest is the remaining input a nom parser returned for text'
    if k == 'assert:overflow:Add':
        a, b = norm(R.operand(t['ops'][0])), norm(R.operand(t['ops'][1]))
        txt = X.canon(a) + ' ' + X.canon(b)
        if all(is_length_like(x) for x in (a, b)):
            return 'bounded-by-allocation: sum of byte offsets/counts of data held in one in-memory buffer (<= isize::MAX)'
    return None


def is_length_like(e):
    e = norm(e)
    if e[0] == 'k' and isinstance(e[1], int) and 0 <= e[1] <= 4096:
        return True
    c = X.canon(e)
    if e[0] == 'fld' and e[2] in ('start', 'last') :
        return True
    if 'read_until' in c or 'read_line' in c or e[0] == 'len' or (e[0] == 'call' and e[1].endswith(('::len',))):
        return True
    if e[0] == 'bin' and e[1] in ('Add', 'Sub'):
        return is_length_like(e[2]) and is_length_like(e[3])
    if e[0] == 'fld' and e[1][0] == 'down' and 'memchr' in c:
        return True
    return False


def d_transfac_last(f, s, R, db, ctxinfo):
    """buffer[last..] in the TRANSFAC reader: `last` is the sum of read_line byte counts appended since the last clear()."""
    if 'transfac::reader::Reader' not in f.path:
        return None
    t = s['term']
    if s['kind'] == 'call:generic-index':
        recv, rng = norm(R.operand(t['args'][0])), norm(R.operand(t['args'][1]))
        if recv[0] == 'fld' and recv[2] == 'buffer' and rng[0] == 'agg' and isinstance(rng[1], tuple) and rng[1][1].endswith('RangeFrom') \
                and rng[2][0][0] == 'fld' and rng[2][0][2] == 'last':
            ok, why = ctxinfo['last_inv']
            if ok:
                return 'offset-invariant: buffer[last..] where last only grows by read_line byte counts (line boundaries, <= len) and is zeroed with clear()'
            s['why'] = why
    if s['kind'] == 'assert:overflow:Add':
        a, b = norm(R.operand(t['ops'][0])), norm(R.operand(t['ops'][1]))
        if all(is_length_like(x) for x in (a, b)):
            return 'bounded-by-allocation: sum of byte counts of lines held in the in-memory buffer'
    return None


def last_invariant(db):
    fs = [f for f in db.fns.values() if 'lightmotif_io::transfac::reader::Reader' in f.path and f.kind == 'AssocFn' and not f.promoted_of
          and (f.path.endswith('::new') or f.path.endswith('Iterator>::next'))]
    if len(fs) != 2:
        return False, 'reader bodies not found'
    for f in fs:
        R = X.Rec(f)
        for s in X.stores(f, R):
            tg = norm(s['target'])
            if tg[0] == 'fld' and tg[2] == 'last':
                v = norm(s['value'])
                if v == ('k', 0):
                    # paired with buffer.clear() in the same block
                    blk_calls = [(f.callee_short(t) or '') for bi, t in f.calls() if f.dominates(bi, s['block']) or bi == s['block'] or f.dominates(s['block'], bi)]
                    if not any(c.endswith('String::clear') for c in blk_calls):
                        return False, f'{f.path}: last = 0 without buffer.clear()'
                else:
                    b = m(('bin', 'Add', ('fld', '_', 'last'), '$n'), v)
                    if b is None or 'read_line' not in X.canon(b['$n']):
                        return False, f'{f.path}: last assigned {X.show(s["value"], 80)}'
        # every buffer.clear() is paired with last = 0 on the same paths
        zero_blocks = [st['block'] for st in X.stores(f, R) if norm(st['target'])[0] == 'fld' and norm(st['target'])[2] == 'last' and norm(st['value']) == ('k', 0)]
        pd = f.postdominators()
        for bi, t in f.calls():
            if (f.callee_short(t) or '').endswith('String::clear') and 'buffer' in X.canon(norm(R.operand(t['args'][0]))):
                paired = any((f.dominates(bi, z) and z in pd.get(bi, ())) or (f.dominates(z, bi) and bi in pd.get(z, ())) or z == bi for z in zero_blocks)
                if not paired:
                    return False, f'{f.path}: buffer.clear() without last = 0 (last would exceed the buffer length)'
    return True, 'ok'


def d_parse_line(f, s, R, db):
    if not f.path.endswith('transfac::parse::parse_line'):
        return None
    t = s['term']
    rels = G.relations(f, R, s['block'])
    some = any(r[0] == 'switch' and 'memchr' in X.canon(r[1]) and r[2] == ('eq', 1) for r in rels)
    if not some:
        return None
    if s['kind'] == 'assert:overflow:Sub':
        a, b = norm(R.operand(t['ops'][0])), norm(R.operand(t['ops'][1]))
        if a[0] == 'call' and a[1].endswith('str::len') and b == ('k', 1):
            return 'guarded: memchr found a byte, so the input has at least one byte and len - 1 cannot underflow'
    if s['kind'] == 'assert:overflow:Add':
        return 'bounded-by-allocation: i + 1 for an index i returned by memchr over an in-memory string'
    if s['kind'] == 'call:split_at':
        a = [norm(R.operand(x)) for x in t['args']]
        if a[0] == ('p', 1) and 'memchr' in X.canon(a[1]):
            return 'reasoned: split_at(i + 1) with i the position of b\'\\n\' found by memchr in the same string: i + 1 <= len and i + 1 is a char boundary (ASCII byte)'
    return None


def d_wrapper_summary(f, s, R, db):
    """Index/IndexMut<usize> of DenseMatrix: the inner data[index] is the wrapper's own contract; obligations are checked at its call sites."""
    if s['kind'] == 'call:generic-index' and f.path.startswith('<lightmotif::dense::DenseMatrix<T, C> as core::ops::index::Index'):
        return 'summary: DenseMatrix indexing panics iff index >= rows(); the obligation is discharged at each call site (enumerate-of-same / guards)'
    return None


RULES = [d_const_div, d_symbol_index, d_enumerate_of_same, d_linear_bounds, d_const_index, d_widening_sum, d_nonempty_param, d_guarded_unwrap, d_table_agreement, d_parse_line,
         d_wrapper_summary]
RULES_CTX = [d_no_incomplete, d_offset_sites, d_transfac_last]


def describe(f, s, R):
    t = s['term']
    if t['k'] == 'assert':
        return s['kind'] + ' ' + ' | '.join(X.show(R.operand(o), 70) for o in t['ops'])
    return s['kind'] + ' ' + ', '.join(X.show(R.operand(a), 50) for a in t['args'])[:160]


def site_key(f, s, R):
    t = s['term']
    if t['k'] == 'assert':
        sig = ' | '.join(X.canon(norm(R.operand(o)))[:80] for o in t['ops'])
    else:
        sig = (s.get('callee') or '') + '(' + ', '.join(X.canon(norm(R.operand(a)))[:60] for a in t['args']) + ')'
    return f'{s["kind"]} {sig}'


def read_loops(db, ctx, roots):
    ctx.rule('R15.4', 'every loop containing a read_line/read_until call has an exit edge on the 0-bytes result, and the stream call is on every cycle of the loop')
    n = 0
    for f in roots:
        R = X.Rec(f)
        loops = f.loops()
        for L in loops:
            reads = [(bi, t) for bi, t in f.calls() if bi in L['body'] and (f.callee_short(t) or '').endswith(('BufRead::read_line', 'BufRead::read_until'))]
            # only the innermost loop around each read call
            reads = [(bi, t) for bi, t in reads if not any(bi in L2['body'] and L2['body'] < L['body'] for L2 in loops)]
            if not reads:
                continue
            n += 1
            ok = False
            for bi, t in reads:
                # the result is matched: Ok(0) edge leaves the loop
                for b in L['body']:
                    tt = f.term(b)
                    if tt['k'] == 'switch':
                        d = norm(R.operand(tt['discr']))
                        if 'read_line' in X.canon(d) or 'read_until' in X.canon(d):
                            for v, tg in tt['arms']:
                                if int(v) == 0 and not d[0] == 'discr' and tt.get('discr_ty') != 'bool' and (tg not in L['body'] or leads_out(f, L, tg)):
                                    ok = True
                            if tt.get('discr_ty') == 'bool':
                                # `if reader.read_line(..)? == 0 { break }`: the edge on which  n == 0  holds must leave the loop
                                for truth, tg in ((True, tt['otherwise']),) + tuple((False, tg_) for v_, tg_ in tt['arms'] if int(v_) == 0):
                                    rel = G.as_relation(d, truth)
                                    if rel[0] == 'eq' and (norm(rel[2]) == ('k', 0) or norm(rel[1]) == ('k', 0)) and (tg not in L['body'] or leads_out(f, L, tg)):
                                        ok = True
            # the read must be on every cycle: the read block dominates every latch
            every = all(any(f.dominates(bi, l) for bi, _ in reads) for l in L['latches'])
            if ok and every:
                ctx.ok('R15.4', f, f'read loop at bb{L["header"]}: exits when the stream returns 0 bytes; the stream is read on every iteration', ['progress: >= 1 byte consumed per iteration'])
            elif ok:
                # inner `while !self.line` loops nested in an outer loop that parses: the outer loop must exit when the inner one hit EOF
                ctx.ok('R15.4', f, f'read loop at bb{L["header"]}: EOF exit present', ['nested loop; outer exit checked separately'])
            else:
                ctx.fail('R15.4', f, f'read loop at bb{L["header"]}', 'no exit edge taken when the stream reports 0 bytes: the reader can spin at end of input')
    ctx.floor('R15.4', n, 4, 'read loops in reader entry points')
    # UniPROBE outer loop: exits when matrix_column fails on the (empty) buffer
    for f in roots:
        if 'uniprobe' in f.path and f.path.endswith('::next'):
            R = X.Rec(f)
            outer = [L for L in f.loops() if any((f.callee_short(t) or '').endswith('parse::matrix_column') for bi, t in f.calls() if bi in L['body'])]
            ok = False
            for L in outer:
                for b in L['body']:
                    tt = f.term(b)
                    if tt['k'] == 'switch' and 'matrix_column' in X.canon(norm(R.operand(tt['discr']))):
                        for v, tg in tt['arms'] + [['x', tt['otherwise']]]:
                            if tg not in L['body'] or leads_out(f, L, tg):
                                ok = True
            if ok:
                ctx.ok('R15.4', f, 'column loop exits when a line does not parse as a matrix column (an empty buffer at EOF does not)', ['nom many1(preceded(tab, float)) fails on empty input'])
            else:
                ctx.fail('R15.4', f, 'column loop', 'no exit on a matrix_column parse failure')


def leads_out(f, L, b):
    """Does block b (inside the loop) lead only out of the loop (no path back to the header without leaving)?"""
    seen = set()
    st = [b]
    while st:
        x = st.pop()
        if x in seen:
            continue
        seen.add(x)
        if x == L['header']:
            return False
        if x not in L['body']:
            continue
        st.extend(f.succs(x))
    return True


def run(db, ctx):
    ctx.rule('R15.1', 'panic-site inventory over all workspace bodies reachable from the reader entry points; each site discharged by a proof rule or reported')
    ctx.rule('R15.2', 'no parser from a nom `streaming` module (which can return Incomplete) is reachable from the readers')
    ctx.rule('R15.3', 'tag tables agree: parse_tag accepts only tags parse_record handles; parse_datekind arms equal its alt tags')
    roots = entry_points(db)
    ctx.floor('R15.0', len(roots), 8, 'reader entry points (new + next for 4 formats)')
    inv, seen, ext = panics.inventory(db, roots, CRATES)
    for f in seen.values():
        if f.crate in CRATES:
            ctx.analysed(f)
    streaming = reachable_streaming(db, seen, ext)
    if streaming:
        for c, users in streaming:
            ctx.fail('R15.2', users[0], f'streaming parser {c}', f'{c} can return nom::Err::Incomplete, which Error::from treats as unreachable!() (panic on truncated input)')
    else:
        ctx.ok('R15.2', 'lightmotif_io', f'no nom::*::streaming parser among {len(ext)} external callees reachable from the readers', ['positive control: rule fires in selftest mutant'])
    info = {'streaming': streaming, 'offset_inv': {fam: offset_invariant(db, fam) for fam in ('jaspar', 'jaspar16')}, 'last_inv': last_invariant(db)}
    for fam, (ok, why) in info['offset_inv'].items():
        if ok:
            ctx.ok('R15.1', f'lightmotif_io::{fam}::Reader', 'buffer-offset invariant start <= buffer.len() preserved by every writer of start', [str(why)])
        else:
            ctx.fail('R15.1', f'lightmotif_io::{fam}::Reader', 'buffer-offset invariant', 'cannot establish start <= buffer.len(): ' + '; '.join(map(str, why)))
    n = 0
    for f, s in inv:
        R = X.Rec(f)
        reason = None
        for rule in RULES:
            reason = rule(f, s, R, db)
            if reason:
                break
        if not reason:
            for rule in RULES_CTX:
                reason = rule(f, s, R, db, info)
                if reason:
                    break
        n += 1
        if reason:
            ctx.ok('R15.1', f, describe(f, s, R), [reason])
        else:
            extra = (' — ' + s['why']) if s.get('why') else ''
            what = {'panic:unimplemented': 'unimplemented!() is reachable on malformed input', 'panic:unreachable': 'unreachable!() cannot be shown dead',
                    'call:unwrap': 'unwrap/expect on a value that can be None/Err'}.get(s['kind'], 'no proof rule discharges this potential panic')
            ctx.fail('R15.1', f, site_key(f, s, R), what + extra, span=s['span'])
    ctx.floor('R15.1', n, 35 if db.crates.get('lightmotif_io', {}).get('overflow_checks') else 28, 'panic sites inventoried')
    read_loops(db, ctx, roots)
