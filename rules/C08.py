"""C08 — 8-bit discretised scores never under-estimate the real score (E6: estimate-direction analysis)."""
from lm.db import short
from lm import expr as X, guards as G
from lm.match import norm, m
from lm import report
from . import common, scanner as S

LEVEL_NOTE = ('decides: rounding direction of the cell discretisation (up) and of the threshold mapping (down) over the same offset/factor fields; '
              'every 8-bit accumulation reachable from a Score<u8> implementation saturates; pruning comparisons are over-estimate >= under-estimate. '
              'The inequality D >= scale(s) then follows by monotonicity (DESIGN §4 C08). Known finding: the generic kernel accumulates with `+=`.')

SAT_INTRINSICS = ('_mm256_adds_epu8', '_mm_adds_epu8', 'vqaddq_u8')
WRAP_INTRINSICS = ('_mm256_add_epi8', '_mm_add_epi8', '_mm256_adds_epi8', '_mm_adds_epi8', '_mm256_add_epi16', '_mm_add_epi16',
                   'vaddq_u8', 'vaddq_s8', 'vqaddq_s8', 'vaddq_u16')


def r81(db, ctx):
    ctx.rule('R8.1', 'to_discrete: cell = ceil((x - offsets[i]) / factor) as u8 (saturating cast), with the struct fields offset = sum(offsets) '
                     'and factor = the same divisor — rounding direction UP')
    f = db.fn('lightmotif::pwm::ScoringMatrix::to_discrete')
    R = X.Rec(f)
    cell = None
    for s in X.stores(f, R):
        v = s['value']
        if v[0] == 'cast' and v[3] == 'FloatToInt' and v[2] == 'u8':
            cell = s
    if not cell:
        ctx.fail('R8.1', f, 'cell store', 'reason=unrecognised-shape: no f32 -> u8 cell store')
        return None
    v = norm(cell['value'][1])
    tgt = norm(cell['target'])
    b = m(('call~', ('f32::ceil',), (('bin', 'Div', ('bin', 'Sub', '$x', '$off'), '$factor'),)), v)
    if not b:
        rnd = v[1].rsplit('::', 1)[-1] if v[0] == 'call' else 'no rounding call'
        ctx.fail('R8.1', f, 'cell rounding',
                 f'cell is {X.show(cell["value"], 160)}: expected ceil((x - offsets[i]) / factor); rounding `{rnd}` is not upward, so a cell can under-estimate', span=cell['span'])
        return None
    # x = pssm[i][j], target = data[i][j], off = offsets[i] with the same i, j
    bt = m(('idx', ('call~', 'index_mut', ('$data', '$i')), '$j'), tgt)
    bx = m(('idx', ('call~', '::index', ('$src', '$i2')), '$j2'), b['$x'])
    bo = m(('call~', '::index', ('$offs', '$i3')), b['$off'])
    if not (bt and bx and bo and bt['$i'] == bx['$i2'] == bo['$i3'] and bt['$j'] == bx['$j2']):
        ctx.fail('R8.1', f, 'cell indices', f'cell {X.show(cell["target"], 80)} is not computed from the same (row, column) and the row\'s own offset', span=cell['span'])
        return None
    if m(('call~', 'ScoringMatrix::matrix', (('p', 1),)), bx['$src']) is None and m(('fld', ('p', 1), 'data'), bx['$src']) is None:
        ctx.fail('R8.1', f, 'cell source', f'cells are not read from self: {X.show(bx["$src"])}')
        return None
    # coverage: i over all rows of the new matrix, j over all of its columns (the wildcard column included: its cell must be an
    # over-estimate too whenever the wildcard score is finite)
    i_e, j_e = bt['$i'], bt['$j']
    def full_range(e, what):
        if not (e[0] == 'elem' and e[1][0] == 'agg' and norm(e[1][2][0]) == ('k', 0)):
            return False
        hi = X.canon(norm(e[1][2][1]))
        if what == 'rows':
            return 'DenseMatrix::rows(' in hi or 'ScoringMatrix::len(' in hi
        return 'DenseMatrix::columns(' in hi or (hi.endswith('USIZE') and 'Sub' not in hi and '-1' not in hi)
    if not full_range(i_e, 'rows'):
        ctx.fail('R8.1', f, 'row coverage', f'cells are filled for rows {X.show(i_e[1], 80) if i_e[0] == "elem" else X.show(i_e, 80)}, expected 0..rows', span=cell['span'])
        return None
    if not full_range(j_e, 'cols'):
        ctx.fail('R8.1', f, 'column coverage',
                 f'cells are filled for columns {X.show(j_e[1], 80) if j_e[0] == "elem" else X.show(j_e, 80)} only: the remaining column(s) keep 0, which under-estimates a finite score of that symbol (e.g. a neutral wildcard)',
                 span=cell['span'])
        return None
    # aggregate
    agg = None
    for blk in f.blocks:
        for st in blk['stmts']:
            if st['k'] == 'assign' and st['rv']['k'] == 'agg' and st['rv'].get('adt', '').endswith('pwm::DiscreteMatrix'):
                agg = st['rv']
    if not agg:
        ctx.fail('R8.1', f, 'result', 'reason=unrecognised-shape: no DiscreteMatrix aggregate')
        return None
    ops = dict(zip(agg['fields'], [norm(R.operand(o)) for o in agg['ops']]))
    probs = []
    if ops.get('factor') != b['$factor']:
        probs.append(f'field factor = {X.show(ops.get("factor"))} but cells are divided by {X.show(b["$factor"])}')
    if ops.get('offsets') != bo['$offs']:
        probs.append('field offsets is not the vector subtracted from the cells')
    so = m(('call~', 'Iterator::sum', (('call~', 'slice::iter', ('$v',)),)), ops.get('offset'))
    if not (so and so['$v'] == bo['$offs']):
        probs.append(f'field offset = {X.show(ops.get("offset"), 100)} is not the sum of the same offsets vector')
    if ops.get('data') != bt['$data']:
        probs.append('field data is not the matrix that was filled')
    if probs:
        ctx.fail('R8.1', f, 'DiscreteMatrix fields', '; '.join(probs))
        return None
    ctx.ok('R8.1', f, 'cell(i,j) = sat_u8(ceil((pssm[i][j] - offsets[i]) / factor)); offset = Σ offsets; same factor stored',
           ['rounding UP', 'float->int `as` cast saturates', 'fields plumbed from the same values'])
    return True


def r82(db, ctx):
    ctx.rule('R8.2', 'scale(x) = floor((x - self.offset) / self.factor) as u8 — rounding direction DOWN over the same fields; unscale is its affine inverse')
    f = db.fn('lightmotif::pwm::DiscreteMatrix::scale')
    e = common.return_expr_single_path_allow(f)
    ok = False
    if e and e[0] == 'cast' and e[3] == 'FloatToInt' and e[2] == 'u8':
        b = m(('call~', 'f32::floor', (('bin', 'Div', ('bin', 'Sub', ('p', 2), ('fld', ('p', 1), 'offset')), ('fld', ('p', 1), 'factor')),)), norm(e[1]))
        ok = b is not None
    if ok:
        ctx.ok('R8.2', f, 'scale = sat_u8(floor((x - offset)/factor))', ['rounding DOWN'])
    else:
        ctx.fail('R8.2', f, 'threshold mapping', f'scale() is {X.show(e, 160) if e else None}: expected floor((x - self.offset) / self.factor) as u8 (a mapping that can round up loses hits)')
    f = db.fn('lightmotif::pwm::DiscreteMatrix::unscale')
    e = common.return_expr_single_path_allow(f)
    en = norm(e) if e else None
    ok = en and (m(('bin', 'Add', ('bin', 'Mul', ('cast', ('p', 2), 'f32', 'IntToFloat'), ('fld', ('p', 1), 'factor')), ('fld', ('p', 1), 'offset')), en) is not None)
    if ok:
        ctx.ok('R8.2', f, 'unscale = x*factor + offset')
    else:
        ctx.fail('R8.2', f, 'unscale', f'not (x as f32)*factor + offset: {X.show(e, 120) if e else None}')


def u8_accumulations(db, f):
    """Yield (kind, description, span) for every 8-bit addition in f: kind in sat / wrap / generic."""
    R = X.Rec(f)
    out = []
    for bi, blk in enumerate(f.blocks):
        if blk['cleanup']:
            continue
        for st in blk['stmts']:
            if st['k'] == 'assign' and st['rv']['k'] == 'bin' and st['rv']['op'] in ('Add', 'AddWithOverflow', 'AddUnchecked') and st['rv'].get('ty') == 'u8':
                out.append(('wrap', f'u8 `{st["rv"]["op"]}` (overflow-checked in debug, wrapping in release)', st.get('span')))
        t = blk['term']
        if t['k'] == 'call':
            c = (f.callee_short(t) or '')
            last = c.rsplit('::', 1)[-1]
            full = t.get('callee_full') or ''
            if last in SAT_INTRINSICS:
                out.append(('sat', last, t['span']))
            elif last in WRAP_INTRINSICS:
                out.append(('wrap', f'{last} (wrapping / signed)', t['span']))
            elif last == 'saturating_add' and ('u8' in full or c.startswith('core::num')):
                out.append(('sat', 'u8::saturating_add', t['span']))
            elif last in ('wrapping_add', 'add_assign', 'add') and ('AddAssign' in c or 'Add::add' in c or last == 'wrapping_add'):
                # generic `score += x` on T (instantiated with u8) or explicit u8 add through the operator traits
                argtys = [f.local_ty(a[k]['l']) for a in t['args'] for k in ('c', 'm') if k in a]
                if any(x in ('T', '&mut T', 'u8', '&mut u8') for x in argtys) or 'T' in t.get('gargs', []):
                    out.append(('generic', f'{last} on the element type (for u8: overflow-checked in debug, wrapping in release)', t['span']))
    return out


def r83(db, ctx):
    ctx.rule('R8.3', 'every 8-bit accumulation reachable from an implementation of Score<u8,..> (and DiscreteMatrix::score_position) is saturating')
    n = 0
    # (1) DiscreteMatrix::score_position
    f = db.fn('lightmotif::pwm::DiscreteMatrix::score_position')
    acc = u8_accumulations(db, f)
    bad = [a for a in acc if a[0] != 'sat']
    if acc and not bad:
        n += 1
        ctx.ok('R8.3', f, 'accumulates with saturating_add', [a[1] for a in acc])
    elif not acc:
        ctx.fail('R8.3', f, 'accumulation', 'reason=unrecognised-shape: no 8-bit accumulation found')
    for a in bad:
        ctx.fail('R8.3', f, 'non-saturating u8 accumulation', a[1] + ': the sum wraps past 255 and can fall below the image of the real score', span=a[2])
    # (2) Score<u8> implementations
    default_fn = [x for x in db.by_short.get('lightmotif::pli::Score::score_rows_into', []) if x.raw.get('trait_default_of')]
    impls = [im for im in db.impls if im.get('trait_def') == 'lightmotif::pli::Score' and im['crate'] == 'lightmotif']
    ctx.floor('R8.3i', len(impls), 6, 'impl Score<..> blocks')
    inherits = []
    for im in impls:
        tr = im['trait']
        elem = tr[tr.index('Score<') + 6:].split(',')[0].strip()
        if elem not in ('u8', 'T'):
            continue
        if 'score_rows_into' not in im['items']:
            inherits.append(im['self_ty'].replace('lightmotif::', '') + f' ({elem})')
            continue
        root = db.fns.get(im['items']['score_rows_into'])
        if root is None:
            ctx.fail('R8.3', im['path'], 'override', 'reason=anchor-missing: overriding body not found')
            continue
        seen, ext = db.reach([root], stop=lambda g: g.crate != 'lightmotif')
        accs = []
        for g in seen.values():
            if g.crate != 'lightmotif':
                continue
            for a in u8_accumulations(db, g):
                accs.append((g, a))
        # which of them are reachable only through the generic default (reported once below)?
        for g, a in accs:
            if default_fn and g.path == default_fn[0].path:
                if im['self_ty'].replace('lightmotif::', '') + ' (via generic arm)' not in inherits:
                    inherits.append(im['self_ty'].replace('lightmotif::', '') + ' (via generic arm)')
                continue
            if g.path.startswith('lightmotif::pwm::') or 'scan::' in g.path:
                continue
            if a[0] == 'sat':
                n += 1
                ctx.ok('R8.3', g, f'{a[1]} (reached from {im["self_ty"].replace("lightmotif::", "")})', ['saturating 8-bit add'])
            else:
                ctx.fail('R8.3', g, 'non-saturating u8 accumulation', f'{a[1]} reached from {im["path"]}', span=a[2])
    # (3) the generic default body
    for d in default_fn:
        acc = [a for a in u8_accumulations(db, d) if a[0] != 'sat']
        if acc and inherits:
            for a in acc[:1]:
                ctx.fail('R8.3', d, 'non-saturating u8 accumulation (AddAssign)',
                         f'{a[1]}; inherited for 8-bit scores by: {", ".join(sorted(inherits))}', span=a[2])
        elif inherits:
            n += 1
            ctx.ok('R8.3', d, 'generic kernel accumulates with a saturating operation', inherits)
    ctx.floor('R8.3', n, 1, 'saturating accumulation sites')


def r84(db, ctx):
    ctx.rule('R8.4', 'every pruning comparison in the scanner is over-estimate >= under-estimate, and the byte threshold is scale(exact score)')
    for which in ('next', 'max'):
        sub = report.Ctx('C08', ctx.tier)
        ids = {'unwrap': '_', 'bound': '_', 'formula': '_', 'cmp': 'R8.4', 'block': '_', 'once': '_', 'prefilter': 'R8.4', 'down': 'R8.4'}
        S.analyse(db, sub, which, ids)
        for o in sub.obligations:
            if o['rule'] == 'R8.4':
                ctx.obligations.append(o)
        for v in sub.violations:
            if v['rule'] == 'R8.4':
                ctx.violations.append(v)
        ctx.functions |= sub.functions
    n = sum(1 for o in ctx.obligations if o['rule'] == 'R8.4' and o['verdict'] == 'discharged')
    ctx.floor('R8.4', n, 4, 'pruning comparisons / thresholds in Scanner::{next,max}')


def run(db, ctx):
    r81(db, ctx)
    r82(db, ctx)
    r83(db, ctx)
    r84(db, ctx)
