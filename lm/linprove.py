"""E9 — linear entailment over the rationals by Fourier–Motzkin elimination (no external solver).

entails(hyps, goal): do the hypotheses {h >= 0} imply goal >= 0 ?  All forms are dicts atom -> Fraction with '' the constant.
Integer tightening is used for strict negation: not(goal >= 0) is goal <= -1 (all atoms are integers here).
"""
from fractions import Fraction


def _norm(c):
    return {k: Fraction(v) for k, v in c.items() if v != 0}


def _feasible(cons, limit=4000):
    """Is the system {c >= 0 for c in cons} satisfiable over the rationals?"""
    cons = [_norm(c) for c in cons]
    while True:
        # constant-only constraints
        rest = []
        for c in cons:
            if set(c) <= {''}:
                if c.get('', 0) < 0:
                    return False
            else:
                rest.append(c)
        cons = rest
        if not cons:
            return True
        # pick the variable occurring in the fewest products
        vars_ = {}
        for c in cons:
            for k, v in c.items():
                if k != '':
                    p = vars_.setdefault(k, [0, 0])
                    p[0 if v > 0 else 1] += 1
        var = min(vars_, key=lambda k: vars_[k][0] * vars_[k][1])
        pos = [c for c in cons if c.get(var, 0) > 0]
        neg = [c for c in cons if c.get(var, 0) < 0]
        zer = [c for c in cons if c.get(var, 0) == 0]
        new = list(zer)
        for p in pos:
            for n in neg:
                a, b = p[var], -n[var]
                comb = {}
                for k, v in p.items():
                    comb[k] = comb.get(k, 0) + v * b
                for k, v in n.items():
                    comb[k] = comb.get(k, 0) + v * a
                comb.pop(var, None)
                new.append(_norm(comb))
        if len(new) > limit:
            return True  # give up: cannot prove infeasibility
        cons = new


def entails(hyps, goal):
    neg = {k: -v for k, v in goal.items()}
    neg[''] = neg.get('', 0) - 1          # goal <= -1
    return not _feasible(list(hyps) + [neg])


def lin_sub(a, b):
    o = dict(a)
    for k, v in b.items():
        o[k] = o.get(k, 0) - v
    return _norm(o)


def lin_addc(a, c):
    o = dict(a)
    o[''] = o.get('', 0) + c
    return _norm(o)


def scale(a, k):
    return _norm({x: v * k for x, v in a.items()})
