"""E1 orchestration: hash /repo's working tree, run the lmfacts driver through cargo, cache by hash.

Fail closed: every expected crate must yield a fresh fact file, otherwise ExtractError.
"""
import fcntl, hashlib, json, os, shutil, subprocess, sys, time

VERIF = os.path.dirname(os.path.dirname(os.path.abspath(__file__)))
REPO = os.environ.get("LM_REPO", "/repo")
CACHE = os.path.join(VERIF, ".cache")
DRIVER = os.path.join(VERIF, "driver", "target", "release", "lmfacts")
EXPECTED = ["lightmotif.rlib", "lightmotif_io.rlib", "lightmotif_tfmpvalue.rlib", "lightmotif_py.cdylib"]
AARCH64 = "aarch64-unknown-linux-gnu"
MEMBERS = ["lightmotif", "lightmotif-io", "lightmotif-tfmpvalue", "lightmotif-py", "lightmotif-bench"]


class ExtractError(Exception):
    pass


def _sysroot():
    return subprocess.check_output(["rustc", "+nightly", "--print", "sysroot"], text=True).strip()


def tree_hash(repo=REPO, extra=()):
    h = hashlib.sha256()
    files = []
    for root, dirs, fs in os.walk(repo):
        dirs[:] = sorted(d for d in dirs if d not in ("target", ".git", "node_modules", "__pycache__"))
        for f in sorted(fs):
            if f.endswith((".rs", ".toml", ".lock")) or f == "build.rs":
                files.append(os.path.join(root, f))
    for p in files:
        h.update(os.path.relpath(p, repo).encode())
        h.update(b"\0")
        with open(p, "rb") as fh:
            h.update(fh.read())
        h.update(b"\0")
    for p in extra:
        with open(p, "rb") as fh:
            h.update(fh.read())
    return h.hexdigest()[:20]


def driver_sources():
    d = os.path.join(VERIF, "driver", "src")
    out = [os.path.join(d, f) for f in sorted(os.listdir(d)) if f.endswith(".rs")]
    # the pickled database embeds the result of the load-time inliner: key the cache on its inputs too
    for extra in (os.path.join(VERIF, "baseline_fns.json"), os.path.join(VERIF, "lm", "inline.py"), os.path.join(VERIF, "lm", "db.py")):
        if os.path.exists(extra):
            out.append(extra)
    return out


def build_driver():
    if not os.path.exists(DRIVER) or any(
        os.path.getmtime(s) > os.path.getmtime(DRIVER) for s in driver_sources() if s.endswith(".rs")
    ):
        r = subprocess.run(
            ["cargo", "build", "--release", "--offline"],
            cwd=os.path.join(VERIF, "driver"),
            capture_output=True,
            text=True,
        )
        if r.returncode != 0:
            raise ExtractError("driver build failed:\n" + r.stderr[-4000:])


def _clean_member_fingerprints(target, triple=None):
    fp = os.path.join(target, triple, "debug", ".fingerprint") if triple else os.path.join(target, "debug", ".fingerprint")
    if os.path.isdir(fp):
        for d in os.listdir(fp):
            base = d.rsplit("-", 1)[0]
            if base in MEMBERS or base.replace("_", "-") in MEMBERS or base == "lmroots":
                shutil.rmtree(os.path.join(fp, d), ignore_errors=True)


def extract(config="default", repo=REPO, verbose=False):
    """Return directory containing one fact file per crate for the current tree."""
    build_driver()
    th = tree_hash(repo, extra=driver_sources())
    out = os.path.join(CACHE, "facts", f"{th}-{config}")
    os.makedirs(os.path.join(CACHE, "facts"), exist_ok=True)
    # one extraction at a time per cargo target directory; parallel self-test workers (LM_WORKER=w3) own a target directory each
    worker = os.environ.get("LM_WORKER", "")
    lock = open(os.path.join(CACHE, f"extract{('-' + worker) if worker else ''}.lock"), "w")
    fcntl.flock(lock, fcntl.LOCK_EX)
    try:
        exp = EXPECTED if config not in ("nodefault", "aarch64") else ["lightmotif.rlib"]
        if os.path.isdir(out) and all(os.path.exists(os.path.join(out, e + ".json")) for e in exp):
            return out, th, False
        tmp = out + f".tmp-{worker}-{os.getpid()}"     # two workers can extract the same tree hash at the same time
        shutil.rmtree(tmp, ignore_errors=True)
        os.makedirs(tmp)
        target = os.path.join(CACHE, "target-" + config + (("-" + worker) if worker else ""))
        _clean_member_fingerprints(target, AARCH64 if config == "aarch64" else None)
        env = dict(os.environ)
        env.update(
            LMFACTS_OUT=tmp,
            LD_LIBRARY_PATH=_sysroot() + "/lib",
            RUSTC_WORKSPACE_WRAPPER=DRIVER,
            CARGO_TARGET_DIR=target,
            CARGO_NET_OFFLINE="true",
        )
        flags = "-Zmir-opt-level=0 -Awarnings"
        cmd = ["cargo", "+nightly", "check", "--offline", "--workspace"]
        if config == "nooverflow":
            flags += " -Coverflow-checks=off"
        elif config == "nodefault":
            cmd = ["cargo", "+nightly", "check", "--offline", "-p", "lightmotif", "--no-default-features"]
        elif config == "aarch64":
            # the Arm (NEON) backend is cfg-excluded on this host: type-check the core crate for aarch64 with a locally built std
            # (rust-src + the registry cache are enough, nothing is linked or run) so that its MIR can be analysed like the x86 arms
            cmd = ["cargo", "+nightly", "check", "--offline", "-Zbuild-std=std", "--target", AARCH64, "-p", "lightmotif"]
        env["RUSTFLAGS"] = flags
        t0 = time.time()
        r = subprocess.run(cmd, cwd=repo, env=env, capture_output=True, text=True)
        if verbose:
            sys.stderr.write(r.stderr[-2000:])
        if r.returncode != 0:
            raise ExtractError("cargo check through the driver failed (workspace does not compile?):\n" + r.stderr[-6000:])
        missing = [e for e in exp if not os.path.exists(os.path.join(tmp, e + ".json"))]
        if missing:
            raise ExtractError("driver produced no fact file for: " + ", ".join(missing))
        if os.path.isdir(out) and all(os.path.exists(os.path.join(out, e + ".json")) for e in exp):
            shutil.rmtree(tmp, ignore_errors=True)      # another worker finished the same tree first; its copy may be in use
        else:
            shutil.rmtree(out, ignore_errors=True)
            os.rename(tmp, out)
        # prune old fact dirs (keep the most recent ones; more when several workers share the cache, and never one younger than 15 minutes)
        keep = int(os.environ.get("LM_CACHE_KEEP", "8") or 8)
        base = os.path.join(CACHE, "facts")
        plock = open(os.path.join(CACHE, "prune.lock"), "w")
        fcntl.flock(plock, fcntl.LOCK_EX)
        try:
            ds = []
            for d in os.listdir(base):
                try:
                    ds.append((os.path.getmtime(os.path.join(base, d)), d))
                except OSError:
                    pass
            ds.sort()
            now = time.time()
            for mt, d in ds[:-keep]:
                if now - mt > 900 or not worker:
                    shutil.rmtree(os.path.join(base, d), ignore_errors=True)
        finally:
            fcntl.flock(plock, fcntl.LOCK_UN)
            plock.close()
        return out, th, True
    finally:
        fcntl.flock(lock, fcntl.LOCK_UN)
        lock.close()
