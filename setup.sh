#!/bin/sh
# Build the fact-extraction driver and warm the dependency cache (offline).
set -e
cd "$(dirname "$0")"
export CARGO_NET_OFFLINE=true
(cd driver && cargo build --release --offline 2>&1 | tail -3)
python3 - <<'PY'
import sys, os
sys.path.insert(0, os.getcwd())
from lm import extract
d, th, fresh = extract.extract('default')
print('facts:', d, 'fresh' if fresh else 'cached')
PY
